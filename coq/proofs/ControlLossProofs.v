(* ControlLossProofs.v — proof for the unbounded instance K = 1 of property C03 for the control PDUs (props/C03r.v):
   in acknowledged mode the two-entity system of System.v delivers EVERY file although ONE of the PDUs that are neither
   File Data nor Metadata is lost: the EOF PDU, the ACK (Finished) (sender -> receiver), the ACK (EOF) or the Finished
   PDU (receiver -> sender), and no API call raises an exception in such a run.  Three of the four recoveries go
   through a Positive-ACK timer expiry, i.e. through rounds without activity in which System.run advances both clocks
   by [tick]; the lost ACK (EOF) is recovered without one (the Finished PDU implies it: F30 repair, fix 179debf):
     1. the sender after the EOF PDU with its clock and Positive-ACK timer ([TailT]): waiting, re-sending the EOF PDU
        at an expiry below the limit, accepting a Finished PDU while the ACK (EOF) is awaited,
     2. the receiver at an arbitrary clock reading ([RA], [RE], [RW], [RF]): completion, waiting for the ACK (Finished),
        re-sending the Finished PDU at an expiry below the limit, acknowledging a re-sent EOF PDU again,
     3. the scheduler of System.v on a link that drops one PDU in either direction ([surv]), with the exceptions the
        handlers raise ([y_errs]) and the exact bookkeeping of the surrounding entities ([ncur], [ndone]),
     4. whole rounds ([r00] ... [r1i1]),
     5. the runs: the perfect-link prefix up to the EOF PDU, the rounds all recoveries share, then per lost PDU the
        idle rounds until the timer in question expires (induction over the time left; no relation between [tick]
        and the intervals is assumed) and the recovery,
     6. the theorem, and as an example the configuration that was a counterexample before the F30 repair.
   Built on PerfectLinkProofs.v (symbolic interpreter of the receiver monad), PerfectLinkAckedProofs.v (sender invariant,
   fault-free tail) and SingleLossProofs.v ([reach], [sphase]/[dphase]).  No axioms. *)
From CFDP Require Import Base LostSeg Fs Crc Checksum Handler Dest Source HandlerSpec SourceSpec System.
From CFDP.gen Require Import Tables.
From CFDP.proofs Require Import ChecksumProofs FsProofs StreamProofs RetransmitProofs PerfectLinkProofs PerfectLinkAckedProofs
  SingleLossProofs.
From RecordUpdate Require Import RecordSet.
Import RecordSetNotations.

Local Arguments Z.add : simpl never. Local Arguments Z.sub : simpl never. Local Arguments Z.mul : simpl never.
Local Arguments Z.pow : simpl never. Local Arguments Z.div : simpl never. Local Arguments Z.min : simpl never.
Local Arguments Z.max : simpl never. Local Arguments Z.to_nat : simpl never.
Local Arguments Z.ltb !x !y : simpl nomatch. Local Arguments Z.leb !x !y : simpl nomatch.
Local Arguments Z.eqb !x !y : simpl nomatch. Local Arguments Z.of_nat !n : simpl nomatch.
Local Arguments write_at : simpl never.
Local Arguments set_node : simpl never.
Local Opaque calculate_checksum.

(* ================================================================== *)
(* 1. the sender after the EOF PDU, with its clock                     *)
(* ================================================================== *)
Section SenderT.
Local Arguments max_file_seg_len : simpl never.
Local Arguments lookup : simpl never.

Variables (c : lcfg) (p : putreq) (r : rcfg) (fs : tree) (d cks : bytes) (cf : sconf)
          (seg : Z) (clo : bool) (tid : Z * Z) (sn dn : path).
Hypothesis Hnames : pr_names p = Some (sn, dn).
Hypothesis Hlook : lookup fs sn = Some (File d).
Hypothesis Hseg : 1 <= seg.
Hypothesis Hm : sc_mode cf = ACKED.
Hypothesis Hck : calculate_checksum (r_cktype r) (Some d) (zlen d) seg = Ok cks.
Hypothesis Hfin : l_ind_fin c = true.
Hypothesis Hack : 0 < r_ack_ms r.
Hypothesis Hsrc : sc_src cf = l_id c.
Hypothesis Hdst : sc_dst cf = r_id r.

Local Opaque checksum_calculation.

Definition TailT (nw t0 k : Z) (s : src) : Prop :=
  s_cfg s = c /\ s_state s = ST_BUSY /\ s_step s = SS_WAITING_FOR_EOF_ACK /\ s_queue s = [] /\ s_put s = Some p /\
  q_conf (s_p s) = cf /\ q_rcfg (s_p s) = Some r /\ q_tid (s_p s) = Some tid /\ q_check_timer (s_p s) = None /\
  q_fin (s_p s) = None /\ e_fs (s_env s) = fs /\ q_progress (s_p s) = zlen d /\ q_segment_len (s_p s) = seg /\
  q_md_only (s_p s) = false /\ q_cond_eof (s_p s) = Some C_NO_ERROR /\
  e_now (s_env s) = nw /\ q_ack_timer (s_p s) = Some (t0, r_ack_ms r) /\ q_ack_counter (s_p s) = k /\
  clean (e_log (s_env s)).

Lemma TailT_Tail : forall nw t0 k s, TailT nw t0 k s -> Tail c p r cf tid SS_WAITING_FOR_EOF_ACK None s.
Proof.
  intros nw t0 k s (H1&H2&H3&H4&H5&H6&H7&H8&H9&H10&H11&H12&H13&H14&H15&H16&H17&H18&H19). unfold Tail. tauto.
Qed.
Lemma TailT_busy : forall nw t0 k s, TailT nw t0 k s -> s_state s = ST_BUSY.
Proof. intros nw t0 k s (_&H&_). exact H. Qed.
Lemma TailT_tid : forall nw t0 k s, TailT nw t0 k s -> q_tid (s_p s) = Some tid.
Proof. intros nw t0 k s (_&_&_&_&_&_&_&H&_). exact H. Qed.

Ltac unf_final :=
  unfold fsm_non_idle, fsm_advancement_s, sending_file_data_fsm, handle_retransmission,
    prepare_eof_pdu, handle_eof_sent, start_positive_ack_procedure_s, handle_waiting_for_ack,
    handle_positive_ack_procedures_s, handle_wait_for_finish, notice_of_completion_s, sreset_internal.

Notation eofT := (PEof (hdr_of cf TOWARDS_RECEIVER) C_NO_ERROR cks (zlen d) None).

(* the call after the last tile: EOF PDU; the Positive-ACK timer starts at the sender's current time *)
Lemma step_final_t : forall s, InvA c p r fs d cf seg clo tid (zlen d) s ->
  exists s' nw, pump s = (s', Ok [eofT]) /\ TailT nw nw 0 s'.
Proof.
  intros s [HI [Hcl [Hqf Hct]]].
  destruct HI as (H1&H2&H3&H4&H5&H6&H7&H8&H9&H10&H11&H12&H13&H14&H15&H16&H17).
  destruct s as [cfg st step ready queue q sb pt sc sbits [nw fs' rw lg]].
  destruct q. cbn in H1,H2,H3,H4,H5,H6,H7,H8,H9,H10,H11,H12,H13,H14,H15,Hcl,Hqf,Hct. subst.
  unfold pump, pump_with, state_machine_s.
  assert (E1 : (zlen d <? zlen d) = false) by (apply Z.ltb_irrefl).
  assert (E4 : zlen d = 0 -> (zlen d =? 0) = true) by (intro Hz; apply Z.eqb_eq; exact Hz).
  assert (E5 : (r_ack_ms r <=? 0) = false) by (apply Z.leb_gt; exact Hack).
  destruct (l_ind_eof_sent c) eqn:Ee;
  (destruct H15 as [[Hs Hz]|Hs]; subst step; [pose proof (E4 Hz) as E7 | pose proof E1 as E7]);
  repeat (progress (sx; rewrite ?Hnames, ?Hlook, ?Hm, ?Ee, ?Hfin, ?zsub_diag, ?zeqb_refl, ?E1, ?E7, ?E5;
                    rewrite ?(cc_ok p r fs d cks seg sn dn Hnames Hlook Hck) by reflexivity; unf_final));
  (eexists; exists nw; split; [reflexivity|]); unfold TailT; cbn;
  repeat (split; [reflexivity|]);
  repeat (apply clean_cons; [reflexivity|reflexivity|]); exact Hcl.
Qed.

(* a call without a PDU while the timer runs: nothing *)
Lemma t7_wait : forall nw t0 k s, TailT nw t0 k s -> nw - t0 < r_ack_ms r ->
  exists s', pump s = (s', Ok []) /\ TailT nw t0 k s' /\ s_step s' = SS_WAITING_FOR_EOF_ACK.
Proof.
  intros nw t0 k s (H1&H2&H3&H4&H5&H6&H7&H8&H9&H10&H11&H12&H13&H14&H15&H16&H17&H18&H19) Hlt.
  destruct s as [cfg st step ready queue q sb pt sc sbits [nw' fs' rw lg]].
  destruct q. cbn in H1,H2,H3,H4,H5,H6,H7,H8,H9,H10,H11,H12,H13,H14,H15,H16,H17,H18,H19. subst.
  unfold pump, pump_with, state_machine_s.
  assert (E5 : (r_ack_ms r <=? nw - t0) = false) by (apply Z.leb_gt; exact Hlt).
  repeat (progress (sx; rewrite ?Hm, ?E5; unf_final)).
  eexists; split; [reflexivity|]. split; [|reflexivity]. unfold TailT; cbn.
  repeat (split; [reflexivity|]). exact H19.
Qed.

(* the timer has expired below the limit: the EOF PDU is sent again, the timer restarts *)
Lemma t7_resend : forall nw t0 k s, TailT nw t0 k s -> r_ack_ms r <= nw - t0 -> k + 1 < r_ack_limit r ->
  exists s', pump s = (s', Ok [eofT]) /\ TailT nw nw (k + 1) s' /\ s_step s' = SS_WAITING_FOR_EOF_ACK.
Proof.
  intros nw t0 k s (H1&H2&H3&H4&H5&H6&H7&H8&H9&H10&H11&H12&H13&H14&H15&H16&H17&H18&H19) Hge Hlim.
  destruct s as [cfg st step ready queue q sb pt sc sbits [nw' fs' rw lg]].
  destruct q. cbn in H1,H2,H3,H4,H5,H6,H7,H8,H9,H10,H11,H12,H13,H14,H15,H16,H17,H18,H19. subst.
  unfold pump, pump_with, state_machine_s.
  assert (E5 : (r_ack_ms r <=? nw - t0) = true) by (apply Z.leb_le; exact Hge).
  assert (E6 : (r_ack_limit r <=? k + 1) = false) by (apply Z.leb_gt; exact Hlim).
  destruct (l_ind_eof_sent c) eqn:Ee;
  repeat (progress (sx; rewrite ?Hm, ?E5, ?E6, ?Ee;
                    rewrite ?(cc_ok p r fs d cks seg sn dn Hnames Hlook Hck) by reflexivity; unf_final));
  (eexists; split; [reflexivity|]); (split; [|reflexivity]); unfold TailT; cbn;
  repeat (split; [reflexivity|]);
  repeat (apply clean_cons; [reflexivity|reflexivity|]); exact H19.
Qed.

(* a Finished PDU while the ACK (EOF) is awaited implies that ACK: it is accepted, the step becomes WAITING_FOR_FINISHED
   and the same call handles the PDU there: ACK (Finished) is emitted, the step is SENDING_ACK_OF_FINISHED.
   (Before fix 179debf of the Python code - finding F30 - the admission check refused the PDU with PduIgnoredForSource
   and left the state unchanged.) *)
Lemma t7_finished : forall nw t0 k s fstat, TailT nw t0 k s ->
  exists s', pump_with (Some (PFinished (hdr_of cf TOWARDS_SENDER) C_NO_ERROR DATA_COMPLETE fstat None)) s =
               (s', Ok [PAck (hdr_of cf TOWARDS_RECEIVER) D_FINISHED C_NO_ERROR TS_ACTIVE]) /\
             Tail c p r cf tid SS_SENDING_ACK_OF_FINISHED (Some (C_NO_ERROR, DATA_COMPLETE, fstat, None)) s'.
Proof.
  intros nw t0 k s fstat (H1&H2&H3&H4&H5&H6&H7&H8&H9&H10&H11&H12&H13&H14&H15&H16&H17&H18&H19).
  destruct s as [cfg st step ready queue q sb pt sc sbits [nw' fs' rw lg]].
  destruct q. cbn in H1,H2,H3,H4,H5,H6,H7,H8,H9,H10,H11,H12,H13,H14,H15,H16,H17,H18,H19. subst.
  unfold pump_with, state_machine_s, check_inserted_packet_s.
  repeat (progress (sx; rewrite ?Hm, ?Hsrc, ?Hdst, ?zeqb_refl; unf_final)).
  eexists; split; [reflexivity|]. unfold Tail; cbn.
  repeat (split; [reflexivity|]). exact H19.
Qed.

(* a call without a PDU while the Finished PDU is awaited (acknowledged mode: no check timer): nothing *)
Lemma t8_wait : forall s, Tail c p r cf tid SS_WAITING_FOR_FINISHED None s ->
  exists s', pump s = (s', Ok []) /\ Tail c p r cf tid SS_WAITING_FOR_FINISHED None s' /\
             s_step s' = SS_WAITING_FOR_FINISHED.
Proof.
  intros s (H1&H2&H3&H4&H5&H6&H7&H8&H9&H10&H11).
  destruct s as [cfg st step ready queue q sb pt sc sbits [nw fs' rw lg]].
  destruct q. cbn in H1,H2,H3,H4,H5,H6,H7,H8,H9,H10,H11. subst.
  unfold pump, pump_with, state_machine_s.
  repeat (progress (sx; rewrite ?Hm; unf_final)).
  eexists; split; [reflexivity|]. split; [|reflexivity]. unfold Tail; cbn.
  repeat (split; [reflexivity|]). exact H11.
Qed.

(* the predicates do not depend on the clock / the ready counter *)
Definition adv_s (ms : Z) (s : src) : src := s <| s_env ::= (fun e => e <| e_now ::= Z.add ms |>) |>.

Lemma TailT_adv : forall ms nw t0 k s, TailT nw t0 k s -> TailT (ms + nw) t0 k (adv_s ms s).
Proof.
  intros ms nw t0 k s (H1&H2&H3&H4&H5&H6&H7&H8&H9&H10&H11&H12&H13&H14&H15&H16&H17&H18&H19).
  destruct s as [cfg st step ready queue q sb pt sc sbits [nw' fs' rw lg]].
  cbn in *. subst. unfold TailT, adv_s. cbn. repeat (split; [first [assumption|reflexivity]|]); assumption.
Qed.
Lemma Tail_adv : forall ms st qf s, Tail c p r cf tid st qf s -> Tail c p r cf tid st qf (adv_s ms s).
Proof.
  clear Hnames Hlook Hseg Hm Hck Hfin Hack Hsrc Hdst.
  intros ms st0 qf s (H1&H2&H3&H4&H5&H6&H7&H8&H9&H10&H11).
  destruct s as [cfg st step ready queue q sb pt sc sbits [nw' fs' rw lg]].
  cbn in *. subst. unfold Tail, adv_s. cbn. repeat (split; [first [assumption|reflexivity]|]); assumption.
Qed.
Lemma TailT_drain : forall nw t0 k s, TailT nw t0 k s -> TailT nw t0 k (fst (drain_s s)).
Proof.
  intros nw t0 k s (H1&H2&H3&H4&H5&H6&H7&H8&H9&H10&H11&H12&H13&H14&H15&H16&H17&H18&H19).
  destruct s as [cfg st step ready queue q sb pt sc sbits [nw' fs' rw lg]].
  cbn in *. subst. unfold TailT, drain_s. cbn. repeat (split; [first [assumption|reflexivity]|]); assumption.
Qed.
End SenderT.

(* a call on the idle sender: nothing *)
Lemma idle_pump : forall s, s_state s = ST_IDLE -> s_queue s = [] -> pump s = (fst (drain_s s), Ok []).
Proof.
  intros s H Hq. unfold pump, pump_with, state_machine_s, bind, ret, get. rewrite H.
  change (ST_IDLE =? ST_IDLE) with true. cbv iota. unfold drain_s. cbn [fst]. rewrite Hq. reflexivity.
Qed.
Lemma pump_queue : forall pkt s s' ps, pump_with pkt s = (s', Ok ps) -> s_queue s' = [].
Proof.
  intros pkt s s' ps H. unfold pump_with in H. destruct (state_machine_s pkt s) as [s1 [u|e]]; [|discriminate H].
  unfold drain_s in H. injection H as <- _. reflexivity.
Qed.

(* ================================================================== *)
(* 2. the receiver at an arbitrary clock reading                       *)
(* ================================================================== *)
Section ReceiverT.
Variables (cd : lcfg) (rd : rcfg) (x : Z) (crc large clo : bool) (srcid idw seq seqw ckt fsz : Z).
Hypothesis Hrem : get_remote (l_remotes cd) srcid = Some rd.
Hypothesis Hfin : l_ind_fin cd = true.
Hypothesis Hack : 0 < r_ack_ms rd.

Notation hA' := (hA cd crc large srcid idw seq seqw).
Notation hB' := (hB cd crc large srcid idw seq seqw).
Notation ackE' := (ackE cd crc large srcid idw seq seqw).
Notation finP' := (finP cd crc large srcid idw seq seqw).
Notation evFin' := (EvFinished srcid seq C_NO_ERROR DATA_COMPLETE FS_RETAINED None).

(* the receiver's parameter block once every byte was received in order; [tm], [k]: Positive-ACK timer and counter *)
Definition dpT (f : fin) (ck : bytes) (eof : option Z) (ls : Z) (tm : option timer) (k : Z) : dparams :=
  mkDP (Some (srcid, seq)) (Some rd) None 0 clo ckt f DISP_COMPLETED hB' fsz ck (Some fsz) [x] eof false [] false ls fsz
       false None 0 tm k.
(* the receiver at time [nw] *)
Definition dT (nw step ready : Z) (q : list pdu) (pa : dparams) (fs : tree) (lg : list event) : dst :=
  mkDst cd ST_BUSY step (Some (srcid, seq)) ready q pa (mkEnv nw fs false lg).

Definition RA (nw ls : Z) (fs : tree) (lg : list event) : dst :=
  dT nw DS_RECEIVING_FILE_DATA 0 [] (dpT fin0 [] None ls None 0) fs lg.
Definition RE (nw ready : Z) (q : list pdu) (ck : bytes) (ls : Z) (fs : tree) (lg : list event) : dst :=
  dT nw DS_SENDING_EOF_ACK ready q (dpT fin0 ck (Some fsz) ls None 0) fs lg.
Definition RW (nw t0 k ready : Z) (q : list pdu) (ck : bytes) (ls : Z) (fs : tree) (lg : list event) : dst :=
  dT nw DS_WAITING_FOR_FINISHED_ACK ready q (dpT fin1 ck (Some fsz) ls (Some (t0, r_ack_ms rd)) k) fs lg.
Definition RF (nw : Z) (fs : tree) (lg : list event) : dst :=
  mkDst cd ST_IDLE DS_IDLE (Some (srcid, seq)) 0 [] fresh_params (mkEnv nw fs false lg).

Lemma RA_DA : forall ls fs lg, DA cd rd x crc large clo srcid idw seq seqw ckt fsz fsz ls fsz fs lg = RA 0 ls fs lg.
Proof. reflexivity. Qed.

Ltac unfT := unfold RA, RE, RW, RF, dT, dpT, hB, fin0, fin1.
Ltac nifT := rewrite (sm_busy cd rd crc large srcid idw seq seqw Hrem) by reflexivity; unfold catch_abandoned; apply catch_ok;
             change 3%nat with (S 2); cbn [non_idle_fsm]; unfT; unfold fsm_advancement at 1; mrun.
Ltac nifN := rewrite dsm_busy_none by reflexivity; unfold catch_abandoned; apply catch_ok;
             change 3%nat with (S 2); cbn [non_idle_fsm]; unfT; unfold fsm_advancement at 1; mrun.

(* a call without a PDU while File Data / the EOF PDU is awaited: nothing *)
Lemma tm_none_ra : forall nw ls fs lg, Dest.state_machine None (RA nw ls fs lg) = (RA nw ls fs lg, Ok tt).
Proof. intros. nifN. reflexivity. Qed.

(* the EOF PDU: ACK (EOF) queued *)
Lemma tm_eof_ra : forall nw cks fl ls fs lg,
  Dest.state_machine (Some (PEof hA' C_NO_ERROR cks fsz fl)) (RA nw ls fs lg) =
    (RE nw 1 [ackE'] cks ls fs ((if l_ind_eof_recv cd then [EvEofRecv srcid seq] else []) ++ lg), Ok tt).
Proof.
  intros. nifT. unfold handle_eof_pdu. mrun.
  destruct (l_ind_eof_recv cd); unfold tid_or_assert; mrun;
  unfold handle_no_error_eof; mrun; dpr; rewrite Z.ltb_irrefl; cbn [andb]; mrun;
  unfold file_transfer_complete_transition; mrun; unfold prepare_eof_ack_packet, conf, add_packet; mrun;
  reflexivity.
Qed.

(* the next call: checksum verified, transfer complete, Finished PDU queued, Positive-ACK timer started now *)
Lemma tm_complete : forall nw cks ls fs lg data,
  lookup fs [x] = Some (File data) -> calculate_checksum ckt (Some data) fsz 4096 = Ok cks ->
  Dest.state_machine None (RE nw 0 [] cks ls fs lg) = (RW nw nw 0 1 [finP'] cks ls fs (evFin' :: lg), Ok tt).
Proof.
  intros nw cks ls fs lg data Hl Hck. nifN.
  unfold checksum_verify; mrun; dpr;
  (destruct (ckt =? CK_NULL) eqn:Eck; cbn [orb]; mrun;
   [| unfold vfs_checksum; mrun; rewrite Eck; mrun; rewrite Hl, Hck; cbv iota; mrun; rewrite bytes_eqb_refl; dpr; rewrite Z.leb_refl; cbn [andb]; mrun]);
  unfold handle_transfer_completion, notice_of_completion; mrun; rewrite Hfin; mrun; dpr; mrun;
  unfold prepare_finished_pdu, conf, add_packet; mrun;
  unfold handle_finished_pdu_sent; mrun; unfold start_positive_ack_procedure, rcfg_or_assert, now; mrun;
  unfold handle_waiting_for_finished_ack, handle_positive_ack_procedures, rcfg_or_assert, now; mrun;
  rewrite (timer_fresh nw (r_ack_ms rd) Hack); reflexivity.
Qed.

(* waiting for ACK (Finished), timer running: nothing *)
Lemma tm_wait : forall nw t0 k cks ls fs lg, nw - t0 < r_ack_ms rd ->
  Dest.state_machine None (RW nw t0 k 0 [] cks ls fs lg) = (RW nw t0 k 0 [] cks ls fs lg, Ok tt).
Proof.
  intros nw t0 k cks ls fs lg Hlt. nifN.
  unfold handle_waiting_for_finished_ack, handle_positive_ack_procedures, rcfg_or_assert, now; mrun.
  unfold timed_out. cbn [fst snd]. replace (r_ack_ms rd <=? nw - t0) with false by (symmetry; apply Z.leb_gt; exact Hlt).
  reflexivity.
Qed.

(* the timer has expired below the limit: the Finished PDU is sent again, the timer restarts *)
Lemma tm_resend : forall nw t0 k cks ls fs lg, r_ack_ms rd <= nw - t0 -> k + 1 < r_ack_limit rd ->
  Dest.state_machine None (RW nw t0 k 0 [] cks ls fs lg) = (RW nw nw (k + 1) 1 [finP'] cks ls fs lg, Ok tt).
Proof.
  intros nw t0 k cks ls fs lg Hge Hlim. nifN.
  unfold handle_waiting_for_finished_ack, handle_positive_ack_procedures, rcfg_or_assert, now; mrun.
  unfold timed_out. cbn [fst snd]. replace (r_ack_ms rd <=? nw - t0) with true by (symmetry; apply Z.leb_le; exact Hge).
  cbn [negb]. mrun.
  replace (r_ack_limit rd <=? k + 1) with false by (symmetry; apply Z.leb_gt; exact Hlim). mrun.
  unfold prepare_finished_pdu, conf, add_packet; mrun. reflexivity.
Qed.

(* a re-sent EOF PDU while ACK (Finished) is awaited: acknowledged again, nothing else *)
Lemma tm_eof_rw : forall nw t0 k cks fl ls fs lg,
  Dest.state_machine (Some (PEof hA' C_NO_ERROR cks fsz fl)) (RW nw t0 k 0 [] cks ls fs lg) =
    (RW nw t0 k 1 [ackE'] cks ls fs lg, Ok tt).
Proof.
  intros. nifT. unfold handle_waiting_for_finished_ack, prepare_eof_ack_packet, conf, add_packet. mrun. reflexivity.
Qed.

(* ACK (Finished): back to IDLE *)
Lemma tm_ack_fin : forall nw t0 k cond st cks ls fs lg,
  Dest.state_machine (Some (PAck hA' D_FINISHED cond st)) (RW nw t0 k 0 [] cks ls fs lg) = (RF nw fs lg, Ok tt).
Proof. intros. nifT. unfold handle_waiting_for_finished_ack, reset_internal. mrun. reflexivity. Qed.

Lemma tm_idle : forall nw fs lg, Dest.state_machine None (RF nw fs lg) = (RF nw fs lg, Ok tt).
Proof.
  intros. unfold Dest.state_machine, RF. mrun.
  unfold catch_abandoned; apply catch_ok. mrun. unfold idle_fsm. mrun. reflexivity.
Qed.

Definition adv_d (ms : Z) (s : dst) : dst := s <| d_env ::= (fun e => e <| e_now ::= Z.add ms |>) |>.
Lemma adv_RA : forall ms nw ls fs lg, adv_d ms (RA nw ls fs lg) = RA (ms + nw) ls fs lg. Proof. reflexivity. Qed.
Lemma adv_RW : forall ms nw t0 k rdy q ck ls fs lg, adv_d ms (RW nw t0 k rdy q ck ls fs lg) = RW (ms + nw) t0 k rdy q ck ls fs lg.
Proof. reflexivity. Qed.
End ReceiverT.

(* ================================================================== *)
(* 3. the scheduler of System.v on a link that drops one PDU           *)
(* ================================================================== *)
Local Opaque state_machine_s Dest.state_machine.

Ltac ypr :=
  unfold set; cbv beta;
  cbn [y_src y_dst y_s2d y_d2s y_cnt_s2d y_cnt_d2s y_delayed y_round y_src_cur y_dst_cur y_src_done y_dst_done
       y_errs y_faults fst snd].

(* the system between two API calls: nothing delayed; errors [er] recorded so far, fault schedule [fl] *)
Definition ZG (fl : list fault) (er : list (Z * Z)) (s : src) (dd : dst) (q1 q2 : list pdu) (c1 c2 rnd : Z)
           (scur dcur : option (Z * Z)) (sdone ddone : list (Z * Z)) : sys :=
  mkSys s dd q1 q2 c1 c2 [] rnd scur dcur sdone ddone er fl.

(* the bookkeeping of the surrounding entity (_note_done) *)
Definition ncur (busy : bool) (tid cur : option (Z * Z)) : option (Z * Z) :=
  if busy then match tid with Some t => Some t | None => cur end else None.
Definition ndone (busy : bool) (cur : option (Z * Z)) (done : list (Z * Z)) : list (Z * Z) :=
  if busy then done else match cur with Some t => t :: done | None => done end.

Lemma nds_g : forall fl er s dd q1 q2 c1 c2 rnd scur dcur sdone ddone,
  note_done_src (ZG fl er s dd q1 q2 c1 c2 rnd scur dcur sdone ddone) =
  ZG fl er s dd q1 q2 c1 c2 rnd (ncur (s_state s =? ST_BUSY) (q_tid (s_p s)) scur) dcur
     (ndone (s_state s =? ST_BUSY) scur sdone) ddone.
Proof.
  intros. unfold note_done_src, ZG, ncur, ndone. ypr.
  destruct (s_state s =? ST_BUSY); [destruct (q_tid (s_p s))|destruct scur]; reflexivity.
Qed.
Lemma ndd_g : forall fl er s dd q1 q2 c1 c2 rnd scur dcur sdone ddone,
  note_done_dst (ZG fl er s dd q1 q2 c1 c2 rnd scur dcur sdone ddone) =
  ZG fl er s dd q1 q2 c1 c2 rnd scur (ncur (d_state dd =? ST_BUSY) (p_tid (d_p dd)) dcur) sdone
     (ndone (d_state dd =? ST_BUSY) dcur ddone).
Proof.
  intros. unfold note_done_dst, ZG, ncur, ndone. ypr.
  destruct (d_state dd =? ST_BUSY); [destruct (p_tid (d_p dd))|destruct dcur]; reflexivity.
Qed.

(* ---- emission on a link that drops one PDU *)
Definition hit (ft : fault) (dir c : Z) : bool := (ft_dir ft =? dir) && (ft_index ft =? c).
Fixpoint surv (ft : fault) (dir c : Z) (ps : list pdu) : list pdu :=
  match ps with
  | [] => []
  | p :: t => if hit ft dir c then surv ft dir (c + 1) t else p :: surv ft dir (c + 1) t
  end.

Section Sched.
Variable ft : fault.
Hypothesis Hk : ft_kind ft = 0.

Lemma emit_g0 : forall ps er s dd q1 q2 c1 c2 rnd scur dcur sdone ddone,
  emit_pdus 0 ps (ZG [ft] er s dd q1 q2 c1 c2 rnd scur dcur sdone ddone) =
  ZG [ft] er s dd (q1 ++ surv ft 0 c1 ps) q2 (c1 + zlen ps) c2 rnd scur dcur sdone ddone.
Proof.
  unfold ZG. induction ps as [|p t IH]; intros er s dd q1 q2 c1 c2 rnd scur dcur sdone ddone.
  - cbn [emit_pdus surv]. rewrite app_nil_r. change (zlen (@nil pdu)) with 0. rewrite Z.add_0_r. reflexivity.
  - pose proof (zlen_cons _ p t) as Hz.
    cbn [emit_pdus surv]. ypr. change (0 =? 0) with true. cbv iota. ypr.
    cbn [find_fault]. fold (hit ft 0 c1). destruct (hit ft 0 c1).
    + rewrite Hk. change (0 =? 0) with true. cbv iota. rewrite IH. rewrite Hz. f_equal. lia.
    + unfold link_push. change (0 =? 0) with true. cbv iota. ypr. rewrite IH.
      rewrite <- app_assoc. cbn [app]. rewrite Hz. f_equal. lia.
Qed.

Lemma emit_g1 : forall ps er s dd q1 q2 c1 c2 rnd scur dcur sdone ddone,
  emit_pdus 1 ps (ZG [ft] er s dd q1 q2 c1 c2 rnd scur dcur sdone ddone) =
  ZG [ft] er s dd q1 (q2 ++ surv ft 1 c2 ps) c1 (c2 + zlen ps) rnd scur dcur sdone ddone.
Proof.
  unfold ZG. induction ps as [|p t IH]; intros er s dd q1 q2 c1 c2 rnd scur dcur sdone ddone.
  - cbn [emit_pdus surv]. rewrite app_nil_r. change (zlen (@nil pdu)) with 0. rewrite Z.add_0_r. reflexivity.
  - pose proof (zlen_cons _ p t) as Hz.
    cbn [emit_pdus surv]. ypr. change (1 =? 0) with false. cbv iota. ypr.
    cbn [find_fault]. fold (hit ft 1 c2). destruct (hit ft 1 c2).
    + rewrite Hk. change (0 =? 0) with true. cbv iota. rewrite IH. rewrite Hz. f_equal. lia.
    + unfold link_push. change (1 =? 0) with false. cbv iota. ypr. rewrite IH.
      rewrite <- app_assoc. cbn [app]. rewrite Hz. f_equal. lia.
Qed.

(* ---- one API call *)
Lemma nds_m : forall fl er s dd q1 q2 c1 c2 rnd scur dcur sdone ddone,
  note_done_src (mkSys s dd q1 q2 c1 c2 [] rnd scur dcur sdone ddone er fl) =
  mkSys s dd q1 q2 c1 c2 [] rnd (ncur (s_state s =? ST_BUSY) (q_tid (s_p s)) scur) dcur
     (ndone (s_state s =? ST_BUSY) scur sdone) ddone er fl.
Proof. intros. exact (nds_g fl er s dd q1 q2 c1 c2 rnd scur dcur sdone ddone). Qed.
Lemma ndd_m : forall fl er s dd q1 q2 c1 c2 rnd scur dcur sdone ddone,
  note_done_dst (mkSys s dd q1 q2 c1 c2 [] rnd scur dcur sdone ddone er fl) =
  mkSys s dd q1 q2 c1 c2 [] rnd scur (ncur (d_state dd =? ST_BUSY) (p_tid (d_p dd)) dcur) sdone
     (ndone (d_state dd =? ST_BUSY) dcur ddone) er fl.
Proof. intros. exact (ndd_g fl er s dd q1 q2 c1 c2 rnd scur dcur sdone ddone). Qed.

Lemma call_src_g : forall pkt s s' ps er dd q1 q2 c1 c2 rnd scur dcur sdone ddone,
  pump_with pkt s = (s', Ok ps) -> Forall onw ps ->
  call_src pkt (ZG [ft] er s dd q1 q2 c1 c2 rnd scur dcur sdone ddone) =
   (ZG [ft] er s' dd (q1 ++ surv ft 0 c1 ps) q2 (c1 + zlen ps) c2 rnd
       (ncur (s_state s' =? ST_BUSY) (q_tid (s_p s')) scur) dcur (ndone (s_state s' =? ST_BUSY) scur sdone) ddone,
    zlen ps).
Proof.
  intros pkt s s' ps er dd q1 q2 c1 c2 rnd scur dcur sdone ddone H Ho.
  unfold pump_with in H.
  destruct (state_machine_s pkt s) as [s1 [u|e]] eqn:Hsm; [|discriminate H].
  assert (Es1 : s_state (fst (drain_s s1)) = s_state s1) by reflexivity.
  assert (Es2 : q_tid (s_p (fst (drain_s s1))) = q_tid (s_p s1)) by reflexivity.
  destruct (drain_s s1) as [s2 ps2] eqn:Ed. cbn [fst] in Es1, Es2. injection H as -> ->.
  rewrite Es1, Es2.
  unfold call_src, ZG. ypr. rewrite Hsm. ypr. rewrite nds_m. ypr. rewrite Ed.
  change (fun p => match on_wire p with Some q => [q] | None => [] end) with ow.
  rewrite (ow_all _ Ho). exact (f_equal (fun y => (y, zlen ps)) (emit_g0 ps er s' dd q1 q2 c1 c2 rnd _ dcur _ ddone)).
Qed.

(* a refused PDU: the exception is recorded *)
Lemma call_src_err : forall pk s e er dd q1 q2 c1 c2 rnd scur dcur sdone ddone,
  state_machine_s (Some pk) s = (s, Err e) -> s_queue s = [] ->
  call_src (Some pk) (ZG [ft] er s dd q1 q2 c1 c2 rnd scur dcur sdone ddone) =
   (ZG [ft] ((0, e) :: er) (fst (drain_s s)) dd q1 q2 c1 c2 rnd
       (ncur (s_state s =? ST_BUSY) (q_tid (s_p s)) scur) dcur (ndone (s_state s =? ST_BUSY) scur sdone) ddone, 0).
Proof.
  intros pk s e er dd q1 q2 c1 c2 rnd scur dcur sdone ddone Hsm Hq.
  assert (Eq : snd (drain_s s) = []) by exact Hq.
  destruct (drain_s s) as [s2 ps2] eqn:Ed. cbn [fst snd] in *. subst ps2.
  unfold call_src, ZG. ypr. rewrite Hsm. ypr. rewrite nds_m. ypr. rewrite Ed. reflexivity.
Qed.

Lemma call_dst_g : forall pkt dd dd1 dd' outs er s q1 q2 c1 c2 rnd scur dcur sdone ddone,
  Dest.state_machine pkt dd = (dd1, Ok tt) -> drain_d dd1 = (dd', outs) -> Forall onw outs ->
  call_dst pkt (ZG [ft] er s dd q1 q2 c1 c2 rnd scur dcur sdone ddone) =
   (ZG [ft] er s dd' q1 (q2 ++ surv ft 1 c2 outs) c1 (c2 + zlen outs) rnd scur
       (ncur (d_state dd' =? ST_BUSY) (p_tid (d_p dd')) dcur) sdone (ndone (d_state dd' =? ST_BUSY) dcur ddone),
    zlen outs).
Proof.
  intros pkt dd dd1 dd' outs er s q1 q2 c1 c2 rnd scur dcur sdone ddone H1 Hdr Ho.
  assert (Es1 : d_state (fst (drain_d dd1)) = d_state dd1) by reflexivity.
  assert (Es2 : p_tid (d_p (fst (drain_d dd1))) = p_tid (d_p dd1)) by reflexivity.
  rewrite Hdr in Es1, Es2. cbn [fst] in Es1, Es2. rewrite Es1, Es2.
  unfold call_dst, ZG. ypr. rewrite H1. ypr. rewrite ndd_m. ypr. rewrite Hdr.
  change (fun p => match on_wire p with Some q => [q] | None => [] end) with ow.
  rewrite (ow_all _ Ho). exact (f_equal (fun y => (y, zlen outs)) (emit_g1 outs er s dd' q1 q2 c1 c2 rnd scur _ sdone _)).
Qed.

(* ---- the two halves of a round *)
Lemma step_round_ZG : forall er s dd qin c1 c2 rnd scur dcur sdone ddone,
  step_round (ZG [ft] er s dd [] qin c1 c2 rnd scur dcur sdone ddone) =
  (let '(y2, a2) := sphase qin (ZG [ft] er s dd [] [] c1 c2 (rnd + 1) scur dcur sdone ddone) in dphase y2 a2).
Proof.
  intros. unfold step_round, sphase. cbv zeta.
  assert (E : release_delayed (ZG [ft] er s dd [] qin c1 c2 rnd scur dcur sdone ddone <| y_round ::= (fun r => r + 1) |>) =
              ZG [ft] er s dd [] qin c1 c2 (rnd + 1) scur dcur sdone ddone) by reflexivity.
  rewrite E. unfold ZG. ypr.
  destruct (deliver_all deliver_to_source qin _ 0) as [y1 a1].
  destruct qin; [destruct (call_src None y1) as [yy n]|]; reflexivity.
Qed.

(* the sender is called without a PDU *)
Lemma sph0 : forall s s' ps er dd c1 c2 rnd scur dcur sdone ddone,
  pump s = (s', Ok ps) -> Forall onw ps ->
  sphase [] (ZG [ft] er s dd [] [] c1 c2 rnd scur dcur sdone ddone) =
   (ZG [ft] er s' dd (surv ft 0 c1 ps) [] (c1 + zlen ps) c2 rnd
       (ncur (s_state s' =? ST_BUSY) (q_tid (s_p s')) scur) dcur (ndone (s_state s' =? ST_BUSY) scur sdone) ddone,
    0 + zlen ps + (if (s_state s =? s_state s') && (s_step s =? s_step s') then 0 else 1)).
Proof.
  intros s s' ps er dd c1 c2 rnd scur dcur sdone ddone P Ho.
  unfold sphase. cbn [deliver_all]. rewrite (call_src_g None s s' ps) by assumption. cbn [app]. reflexivity.
Qed.

(* one inbound PDU for the busy sender *)
Lemma sph1 : forall pk s s' ps er dd c1 c2 rnd scur dcur sdone ddone,
  s_state s = ST_BUSY -> pump_with (Some pk) s = (s', Ok ps) -> Forall onw ps ->
  sphase [pk] (ZG [ft] er s dd [] [] c1 c2 rnd scur dcur sdone ddone) =
   (ZG [ft] er s' dd (surv ft 0 c1 ps) [] (c1 + zlen ps) c2 rnd
       (ncur (s_state s' =? ST_BUSY) (q_tid (s_p s')) scur) dcur (ndone (s_state s' =? ST_BUSY) scur sdone) ddone,
    0 + 1 + zlen ps).
Proof.
  intros pk s s' ps er dd c1 c2 rnd scur dcur sdone ddone Hb P Ho.
  unfold sphase. rewrite deliver_all_one.
  assert (E : deliver_to_source pk (ZG [ft] er s dd [] [] c1 c2 rnd scur dcur sdone ddone) =
              call_src (Some pk) (ZG [ft] er s dd [] [] c1 c2 rnd scur dcur sdone ddone)).
  { unfold deliver_to_source, ZG. ypr. rewrite Hb. reflexivity. }
  rewrite E, (call_src_g (Some pk) s s' ps) by assumption. cbn [app fst snd]. reflexivity.
Qed.

(* one inbound PDU that the busy sender refuses *)
Lemma sph1e : forall pk s e er dd c1 c2 rnd scur dcur sdone ddone,
  s_state s = ST_BUSY -> state_machine_s (Some pk) s = (s, Err e) -> s_queue s = [] ->
  sphase [pk] (ZG [ft] er s dd [] [] c1 c2 rnd scur dcur sdone ddone) =
   (ZG [ft] ((0, e) :: er) (fst (drain_s s)) dd [] [] c1 c2 rnd
       (ncur (s_state s =? ST_BUSY) (q_tid (s_p s)) scur) dcur (ndone (s_state s =? ST_BUSY) scur sdone) ddone,
    0 + 1 + 0).
Proof.
  intros pk s e er dd c1 c2 rnd scur dcur sdone ddone Hb Hsm Hq.
  unfold sphase. rewrite deliver_all_one.
  assert (E : deliver_to_source pk (ZG [ft] er s dd [] [] c1 c2 rnd scur dcur sdone ddone) =
              call_src (Some pk) (ZG [ft] er s dd [] [] c1 c2 rnd scur dcur sdone ddone)).
  { unfold deliver_to_source, ZG. ypr. rewrite Hb. reflexivity. }
  rewrite E, (call_src_err pk s e) by assumption. cbn [fst snd]. reflexivity.
Qed.

(* a Finished PDU for a sender that has closed the transaction: the surrounding entity acknowledges it *)
Lemma sph1i : forall h c dl fst0 fl0 s er dd c1 c2 rnd scur dcur sdone ddone,
  s_state s = ST_IDLE -> tid_mem (h_src h, h_seq h) sdone = true ->
  sphase [PFinished h c dl fst0 fl0] (ZG [ft] er s dd [] [] c1 c2 rnd scur dcur sdone ddone) =
   (ZG [ft] er s dd (surv ft 0 c1 [PAck (set_dir TOWARDS_RECEIVER h) D_FINISHED c TS_TERMINATED]) [] (c1 + 1) c2 rnd
       scur dcur sdone ddone, 0 + 1 + 0).
Proof.
  intros h c dl fst0 fl0 s er dd c1 c2 rnd scur dcur sdone ddone Hi Hmem.
  unfold sphase. rewrite deliver_all_one.
  assert (E : deliver_to_source (PFinished h c dl fst0 fl0) (ZG [ft] er s dd [] [] c1 c2 rnd scur dcur sdone ddone) =
              (emit_pdus 0 [PAck (set_dir TOWARDS_RECEIVER h) D_FINISHED c TS_TERMINATED]
                 (ZG [ft] er s dd [] [] c1 c2 rnd scur dcur sdone ddone), 0)).
  { unfold deliver_to_source. unfold ZG at 1 2 3. ypr. rewrite Hi. change (ST_IDLE =? ST_IDLE) with true. cbv iota.
    cbn [pdu_hdr]. rewrite Hmem. reflexivity. }
  rewrite E, emit_g0. cbn [app fst snd]. reflexivity.
Qed.

(* the receiver is called without a PDU *)
Lemma dph0 : forall dd dd1 dd' outs er s c1 c2 rnd scur dcur sdone ddone a2,
  Dest.state_machine None dd = (dd1, Ok tt) -> drain_d dd1 = (dd', outs) -> Forall onw outs ->
  dphase (ZG [ft] er s dd [] [] c1 c2 rnd scur dcur sdone ddone) a2 =
   (ZG [ft] er s dd' [] (surv ft 1 c2 outs) c1 (c2 + zlen outs) rnd scur
       (ncur (d_state dd' =? ST_BUSY) (p_tid (d_p dd')) dcur) sdone (ndone (d_state dd' =? ST_BUSY) dcur ddone),
    a2 + zlen outs + (if (d_state dd =? d_state dd') && (d_step dd =? d_step dd') then 0 else 1)).
Proof.
  intros dd dd1 dd' outs er s c1 c2 rnd scur dcur sdone ddone a2 Hd Hdr Ho.
  unfold dphase. unfold ZG at 1 2. ypr. cbn [deliver_all].
  fold (ZG [ft] er s dd [] [] c1 c2 rnd scur dcur sdone ddone).
  rewrite (call_dst_g None dd dd1 dd' outs) by assumption. cbn [app]. reflexivity.
Qed.

(* one PDU for the receiver *)
Lemma dphase_cons : forall y a2 pd rest, y_s2d y = pd :: rest ->
  dphase y a2 = deliver_all deliver_to_dest (pd :: rest) (y <| y_s2d := [] |>) a2.
Proof.
  intros y a2 pd rest H. unfold dphase. cbv zeta. rewrite H.
  destruct (deliver_all deliver_to_dest (pd :: rest) (y <| y_s2d := [] |>) a2). reflexivity.
Qed.

Lemma dph1 : forall pd dd dd1 dd' outs er s c1 c2 rnd scur dcur sdone ddone a2,
  dguard pd dd ddone ->
  Dest.state_machine (Some pd) dd = (dd1, Ok tt) -> drain_d dd1 = (dd', outs) -> Forall onw outs ->
  dphase (ZG [ft] er s dd [pd] [] c1 c2 rnd scur dcur sdone ddone) a2 =
   (ZG [ft] er s dd' [] (surv ft 1 c2 outs) c1 (c2 + zlen outs) rnd scur
       (ncur (d_state dd' =? ST_BUSY) (p_tid (d_p dd')) dcur) sdone (ndone (d_state dd' =? ST_BUSY) dcur ddone),
    a2 + 1 + zlen outs).
Proof.
  intros pd dd dd1 dd' outs er s c1 c2 rnd scur dcur sdone ddone a2 [G1 G2] Hd Hdr Ho.
  rewrite (dphase_cons (ZG [ft] er s dd [pd] [] c1 c2 rnd scur dcur sdone ddone) a2 pd [] eq_refl).
  change (ZG [ft] er s dd [pd] [] c1 c2 rnd scur dcur sdone ddone <| y_s2d := [] |>)
    with (ZG [ft] er s dd [] [] c1 c2 rnd scur dcur sdone ddone).
  rewrite deliver_all_one.
  unfold ZG at 1 2. rewrite deliver_to_dest_pass by assumption.
  fold (ZG [ft] er s dd [] [] c1 c2 rnd scur dcur sdone ddone).
  rewrite (call_dst_g (Some pd) dd dd1 dd' outs) by assumption. cbn [app fst snd]. reflexivity.
Qed.

(* a round without activity advances both clocks *)
Lemma reach_idle : forall tick y y', step_round y = (y', 0) -> quiescent y' = false -> reach tick y (advance tick y').
Proof.
  intros tick y y' R Q. exists 1%nat. intro n. change (1 + n)%nat with (S n).
  rewrite run_S, R. cbv iota beta. rewrite Q. reflexivity.
Qed.
End Sched.

(* ================================================================== *)
(* 4. whole rounds                                                     *)
(* ================================================================== *)
Section Rounds.
Variable ft : fault.
Hypothesis Hk : ft_kind ft = 0.

Notation ncs s' scur := (ncur (s_state s' =? ST_BUSY) (q_tid (s_p s')) scur).
Notation nds s' scur sdone := (ndone (s_state s' =? ST_BUSY) scur sdone).
Notation ncd dd' dcur := (ncur (d_state dd' =? ST_BUSY) (p_tid (d_p dd')) dcur).
Notation ndd dd' dcur ddone := (ndone (d_state dd' =? ST_BUSY) dcur ddone).
Notation chs s s' := (if (s_state s =? s_state s') && (s_step s =? s_step s') then 0 else 1).
Notation chd dd dd' := (if (d_state dd =? d_state dd') && (d_step dd =? d_step dd') then 0 else 1).

(* both handlers are called without a PDU (whatever the sender emits is lost) *)
Lemma r00 : forall s s' ps dd dd1 dd' outs er c1 c2 rnd scur dcur sdone ddone,
  pump s = (s', Ok ps) -> Forall onw ps -> surv ft 0 c1 ps = [] ->
  Dest.state_machine None dd = (dd1, Ok tt) -> drain_d dd1 = (dd', outs) -> Forall onw outs ->
  step_round (ZG [ft] er s dd [] [] c1 c2 rnd scur dcur sdone ddone) =
   (ZG [ft] er s' dd' [] (surv ft 1 c2 outs) (c1 + zlen ps) (c2 + zlen outs) (rnd + 1)
       (ncs s' scur) (ncd dd' dcur) (nds s' scur sdone) (ndd dd' dcur ddone),
    0 + zlen ps + chs s s' + zlen outs + chd dd dd').
Proof.
  intros s s' ps dd dd1 dd' outs er c1 c2 rnd scur dcur sdone ddone P Ho Hs Hd Hdr Hos.
  rewrite (step_round_ZG ft), (sph0 ft Hk s s' ps) by assumption. cbv beta iota. rewrite Hs.
  rewrite (dph0 ft Hk dd dd1 dd' outs) by assumption. reflexivity.
Qed.

(* the sender emits one PDU that reaches the receiver *)
Lemma r01 : forall s s' ps pd dd dd1 dd' outs er c1 c2 rnd scur dcur sdone ddone,
  pump s = (s', Ok ps) -> Forall onw ps -> surv ft 0 c1 ps = [pd] -> dguard pd dd ddone ->
  Dest.state_machine (Some pd) dd = (dd1, Ok tt) -> drain_d dd1 = (dd', outs) -> Forall onw outs ->
  step_round (ZG [ft] er s dd [] [] c1 c2 rnd scur dcur sdone ddone) =
   (ZG [ft] er s' dd' [] (surv ft 1 c2 outs) (c1 + zlen ps) (c2 + zlen outs) (rnd + 1)
       (ncs s' scur) (ncd dd' dcur) (nds s' scur sdone) (ndd dd' dcur ddone),
    0 + zlen ps + chs s s' + 1 + zlen outs).
Proof.
  intros s s' ps pd dd dd1 dd' outs er c1 c2 rnd scur dcur sdone ddone P Ho Hs G Hd Hdr Hos.
  rewrite (step_round_ZG ft), (sph0 ft Hk s s' ps) by assumption. cbv beta iota. rewrite Hs.
  rewrite (dph1 ft Hk pd dd dd1 dd' outs) by assumption. reflexivity.
Qed.

(* an inbound PDU for the busy sender; the receiver is called without a PDU *)
Lemma r10 : forall pk s s' ps dd dd1 dd' outs er c1 c2 rnd scur dcur sdone ddone,
  s_state s = ST_BUSY -> pump_with (Some pk) s = (s', Ok ps) -> Forall onw ps -> surv ft 0 c1 ps = [] ->
  Dest.state_machine None dd = (dd1, Ok tt) -> drain_d dd1 = (dd', outs) -> Forall onw outs ->
  step_round (ZG [ft] er s dd [] [pk] c1 c2 rnd scur dcur sdone ddone) =
   (ZG [ft] er s' dd' [] (surv ft 1 c2 outs) (c1 + zlen ps) (c2 + zlen outs) (rnd + 1)
       (ncs s' scur) (ncd dd' dcur) (nds s' scur sdone) (ndd dd' dcur ddone),
    0 + 1 + zlen ps + zlen outs + chd dd dd').
Proof.
  intros pk s s' ps dd dd1 dd' outs er c1 c2 rnd scur dcur sdone ddone Hb P Ho Hs Hd Hdr Hos.
  rewrite (step_round_ZG ft), (sph1 ft Hk pk s s' ps) by assumption. cbv beta iota. rewrite Hs.
  rewrite (dph0 ft Hk dd dd1 dd' outs) by assumption. reflexivity.
Qed.

(* an inbound PDU makes the busy sender emit one PDU that reaches the receiver *)
Lemma r11 : forall pk s s' ps pd dd dd1 dd' outs er c1 c2 rnd scur dcur sdone ddone,
  s_state s = ST_BUSY -> pump_with (Some pk) s = (s', Ok ps) -> Forall onw ps -> surv ft 0 c1 ps = [pd] ->
  dguard pd dd ddone ->
  Dest.state_machine (Some pd) dd = (dd1, Ok tt) -> drain_d dd1 = (dd', outs) -> Forall onw outs ->
  step_round (ZG [ft] er s dd [] [pk] c1 c2 rnd scur dcur sdone ddone) =
   (ZG [ft] er s' dd' [] (surv ft 1 c2 outs) (c1 + zlen ps) (c2 + zlen outs) (rnd + 1)
       (ncs s' scur) (ncd dd' dcur) (nds s' scur sdone) (ndd dd' dcur ddone),
    0 + 1 + zlen ps + 1 + zlen outs).
Proof.
  intros pk s s' ps pd dd dd1 dd' outs er c1 c2 rnd scur dcur sdone ddone Hb P Ho Hs G Hd Hdr Hos.
  rewrite (step_round_ZG ft), (sph1 ft Hk pk s s' ps) by assumption. cbv beta iota. rewrite Hs.
  rewrite (dph1 ft Hk pd dd dd1 dd' outs) by assumption. reflexivity.
Qed.

(* the busy sender refuses the inbound PDU; the receiver is called without a PDU *)
Lemma r1e0 : forall pk s e dd dd1 dd' outs er c1 c2 rnd scur dcur sdone ddone,
  s_state s = ST_BUSY -> state_machine_s (Some pk) s = (s, Err e) -> s_queue s = [] ->
  Dest.state_machine None dd = (dd1, Ok tt) -> drain_d dd1 = (dd', outs) -> Forall onw outs ->
  step_round (ZG [ft] er s dd [] [pk] c1 c2 rnd scur dcur sdone ddone) =
   (ZG [ft] ((0, e) :: er) (fst (drain_s s)) dd' [] (surv ft 1 c2 outs) c1 (c2 + zlen outs) (rnd + 1)
       (ncs s scur) (ncd dd' dcur) (nds s scur sdone) (ndd dd' dcur ddone),
    0 + 1 + 0 + zlen outs + chd dd dd').
Proof.
  intros pk s e dd dd1 dd' outs er c1 c2 rnd scur dcur sdone ddone Hb Hsm Hq Hd Hdr Hos.
  rewrite (step_round_ZG ft), (sph1e ft pk s e) by assumption. cbv beta iota.
  rewrite (dph0 ft Hk dd dd1 dd' outs) by assumption. reflexivity.
Qed.

(* a Finished PDU for the sender that has closed the transaction: its surrounding entity answers, the ACK reaches
   the receiver *)
Lemma r1i1 : forall h c dl fst0 fl0 s pd dd dd1 dd' outs er c1 c2 rnd scur dcur sdone ddone,
  s_state s = ST_IDLE -> tid_mem (h_src h, h_seq h) sdone = true ->
  pd = PAck (set_dir TOWARDS_RECEIVER h) D_FINISHED c TS_TERMINATED -> hit ft 0 c1 = false -> dguard pd dd ddone ->
  Dest.state_machine (Some pd) dd = (dd1, Ok tt) -> drain_d dd1 = (dd', outs) -> Forall onw outs ->
  step_round (ZG [ft] er s dd [] [PFinished h c dl fst0 fl0] c1 c2 rnd scur dcur sdone ddone) =
   (ZG [ft] er s dd' [] (surv ft 1 c2 outs) (c1 + 1) (c2 + zlen outs) (rnd + 1)
       scur (ncd dd' dcur) sdone (ndd dd' dcur ddone),
    0 + 1 + 0 + 1 + zlen outs).
Proof.
  intros h c dl fst0 fl0 s pd dd dd1 dd' outs er c1 c2 rnd scur dcur sdone ddone Hi Hmem -> Hh G Hd Hdr Hos.
  rewrite (step_round_ZG ft), (sph1i ft Hk h c dl fst0 fl0 s) by assumption. cbv beta iota. cbn [surv]. rewrite Hh.
  rewrite (dph1 ft Hk _ dd dd1 dd' outs) by assumption. reflexivity.
Qed.

Lemma reach_idle' : forall tick y y' a, step_round y = (y', a) -> a = 0 -> quiescent y' = false ->
  reach tick y (advance tick y').
Proof. intros tick y y' a R -> Q. exact (reach_idle tick y y' R Q). Qed.

Lemma qz_sbusy : forall fl er s dd q1 q2 c1 c2 rnd scur dcur sdone ddone, s_state s = ST_BUSY ->
  quiescent (ZG fl er s dd q1 q2 c1 c2 rnd scur dcur sdone ddone) = false.
Proof. intros. unfold quiescent, ZG. cbn [y_src]. rewrite H. reflexivity. Qed.
Lemma qz_dbusy : forall fl er s dd q1 q2 c1 c2 rnd scur dcur sdone ddone, d_state dd = ST_BUSY ->
  quiescent (ZG fl er s dd q1 q2 c1 c2 rnd scur dcur sdone ddone) = false.
Proof. intros. unfold quiescent, ZG. cbn [y_src y_dst]. rewrite H. rewrite andb_false_r. reflexivity. Qed.

Lemma ncur_busy : forall st tid t cur, st = ST_BUSY -> tid = Some t -> ncur (st =? ST_BUSY) tid cur = Some t.
Proof. intros st tid t cur -> ->. reflexivity. Qed.
Lemma ndone_busy : forall st (cur : option (Z * Z)) done, st = ST_BUSY -> ndone (st =? ST_BUSY) cur done = done.
Proof. intros st cur done ->. reflexivity. Qed.
End Rounds.

(* ================================================================== *)
(* 5. the two-entity system with one dropped control PDU               *)
(* ================================================================== *)
Lemma hit_00 : forall i c, hit (mkFault 0 i 0 0) 0 c = (i =? c). Proof. reflexivity. Qed.
Lemma hit_01 : forall i c, hit (mkFault 0 i 0 0) 1 c = false. Proof. reflexivity. Qed.
Lemma hit_10 : forall i c, hit (mkFault 1 i 0 0) 0 c = false. Proof. reflexivity. Qed.
Lemma hit_11 : forall i c, hit (mkFault 1 i 0 0) 1 c = (i =? c). Proof. reflexivity. Qed.

Section SysT.
Variables (cs cd : lcfg) (p : putreq) (rs rd : rcfg) (sn : path) (x : Z) (data cks : bytes) (cf : sconf)
          (seg tick : Z) (clo : bool) (fss : tree) (ft : fault).
Hypothesis Hnames : pr_names p = Some (sn, [x]).
Hypothesis Hlook : lookup fss sn = Some (File data).
Hypothesis Hseg : 1 <= seg.
Hypothesis Hm : sc_mode cf = ACKED.
Hypothesis Hck : calculate_checksum (r_cktype rs) (Some data) (zlen data) seg = Ok cks.
Hypothesis Hck2 : calculate_checksum (r_cktype rs) (Some data) (zlen data) 4096 = Ok cks.
Hypothesis Hfins : l_ind_fin cs = true.
Hypothesis Hfind : l_ind_fin cd = true.
Hypothesis Hrem : get_remote (l_remotes cd) (sc_src cf) = Some rd.
Hypothesis Hdst : sc_dst cf = l_id cd.
Hypothesis Hacks : 0 < r_ack_ms rs.
Hypothesis Hackd : 0 < r_ack_ms rd.
Hypothesis Hsrc : sc_src cf = l_id cs.
Hypothesis Hdstr : sc_dst cf = r_id rs.
Hypothesis Hk : ft_kind ft = 0.

Local Notation hRA' := (hRA cd cf).
Local Notation tid := (tidA cf).
Local Notation RT f :=
  (f cd rd x (sc_crc cf) (sc_large cf) clo (sc_src cf) (sc_srcw cf) (sc_seq cf) (sc_seqw cf) (r_cktype rs) (zlen data))
  (only parsing).
Local Notation DAx := (RT DA) (only parsing).
Local Notation RAx := (RT RA) (only parsing).
Local Notation REx := (RT RE) (only parsing).
Local Notation RWx := (RT RW) (only parsing).
Local Notation RFx := (RF cd (sc_src cf) (sc_seq cf)) (only parsing).
Local Notation InvAx := (InvA cs p rs fss data cf seg clo tid) (only parsing).
Local Notation T7 := (TailT cs p rs fss data cf seg tid) (only parsing).
Local Notation T8 := (Tail cs p rs cf tid SS_WAITING_FOR_FINISHED None) (only parsing).
Local Notation T9 := (Tail cs p rs cf tid SS_SENDING_ACK_OF_FINISHED (Some (C_NO_ERROR, DATA_COMPLETE, FS_RETAINED, None)))
  (only parsing).
Local Notation ackE' := (ackEA cd cf).
Local Notation finP' := (finPA cd cf).
Local Notation evF := (evFinD cf).

Definition eofG : pdu := PEof hRA' C_NO_ERROR cks (zlen data) None.
Definition ackFG : pdu := PAck hRA' D_FINISHED C_NO_ERROR TS_ACTIVE.

(* the system between two rounds: nothing on its way to the receiver, [q] on its way to the sender; [c1], [c2] PDUs
   emitted so far in the two directions; the sender's surrounding entity knows the transaction as current *)
Definition at_ (er : list (Z * Z)) (s : src) (dd : dst) (q : list pdu) (c1 c2 : Z) (y : sys) : Prop :=
  exists rnd dcur sdone ddone, y = ZG [ft] er s dd [] q c1 c2 rnd (Some tid) dcur sdone ddone.

Ltac at_here := unfold at_; do 4 eexists; reflexivity.

(* while File Data is sent: as on a perfect link *)
Definition SP (off c1 : Z) (y : sys) : Prop :=
  exists s ls fs lg,
    at_ [] s (DAx off ls off fs lg) [] c1 0 y /\ InvAx off s /\
    lookup fs [x] = Some (File (ztake off data)) /\ clean lg.

(* after the EOF PDU: the sender satisfies [Ps], the receiver is [mk fs lg] where [fs] holds the complete file;
   [fin]: the receiver has issued its Transaction-Finished indication *)
Definition W (er : list (Z * Z)) (Ps : src -> Prop) (mk : tree -> list event -> dst) (fin : bool) (q : list pdu)
           (c1 c2 : Z) (y : sys) : Prop :=
  exists s fs lg,
    at_ er s (mk fs (if fin then evF :: lg else lg)) q c1 c2 y /\ Ps s /\
    lookup fs [x] = Some (File data) /\ clean lg.

Definition rA (nwd ls : Z) : tree -> list event -> dst := fun fs lg => RAx nwd ls fs lg.
Definition rE (nwd ls : Z) : tree -> list event -> dst := fun fs lg => REx nwd 0 [] cks ls fs lg.
Definition rW (nwd td kd ls : Z) : tree -> list event -> dst := fun fs lg => RWx nwd td kd 0 [] cks ls fs lg.
Definition rF (nwd : Z) : tree -> list event -> dst := fun fs lg => RFx nwd fs lg.

Lemma InvA_tid : forall off s, InvAx off s -> q_tid (s_p s) = Some tid.
Proof. intros off s [(_&_&_&_&_&_&_&_&_&_&_&_&_&H&_) _]. exact H. Qed.
Lemma Tail_tid : forall st qf s, Tail cs p rs cf tid st qf s -> q_tid (s_p s) = Some tid.
Proof. intros st qf s (_&_&_&_&_&_&_&H&_). exact H. Qed.
Lemma Tail_step : forall st qf s, Tail cs p rs cf tid st qf s -> s_step s = st.
Proof. intros st qf s (_&_&H&_). exact H. Qed.

Lemma clean_eofr' : forall a b lg, clean lg -> clean ((if l_ind_eof_recv cd then [EvEofRecv a b] else []) ++ lg).
Proof.
  intros. apply clean_app; [|assumption].
  destruct (l_ind_eof_recv cd); [apply clean_cons; [reflexivity|reflexivity|apply clean_nil] | apply clean_nil].
Qed.

Ltac sbusy H := first [exact (InvA_busy _ _ _ _ _ _ _ _ _ _ _ H) | exact (Tail_busy _ _ _ _ _ _ _ H)
                       | exact (TailT_busy _ _ _ _ _ _ _ _ _ _ _ _ H)].
Ltac stid H := first [exact (InvA_tid _ _ H) | exact (Tail_tid _ _ _ H) | exact (TailT_tid _ _ _ _ _ _ _ _ _ _ _ _ H)].
(* the sender stays busy with the transaction: the bookkeeping of its surrounding entity does not change *)
Ltac keep H := rewrite (ncur_busy _ _ tid _ ltac:(sbusy H) ltac:(stid H)), (ndone_busy _ _ _ ltac:(sbusy H)).
Ltac fo := repeat (first [apply Forall_nil | apply Forall_cons; [reflexivity|]]).
Ltac norm0 := change (zlen (@nil pdu)) with 0; rewrite ?Z.add_0_r.
Ltac apos := repeat match goal with |- context[if ?b then 0 else 1] => destruct b end; unfold zlen; cbn [length]; lia.

(* ---- the rounds before the EOF PDU *)
Lemma round_md_g : forall s1 s3,
  pump s1 = (s3, Ok [PMetadata (hdr_of cf TOWARDS_RECEIVER) clo (r_cktype rs) (zlen data) (Some (sn, [x])) []]) ->
  InvAx 0 s3 -> hit ft 0 0 = false ->
  exists y', reach tick (ZG [ft] [] s1 (dst_init cd) [] [] 0 0 0 None None [] []) y' /\ SP 0 1 y'.
Proof.
  intros s1 s3 P HI Hh. rewrite (hdr_eq_a cd cf Hm Hdst) in P.
  pose proof (sm_md_a cd rd x (sc_crc cf) (sc_large cf) clo (sc_src cf) (sc_srcw cf) (sc_seq cf) (sc_seqw cf)
                (r_cktype rs) (zlen data) Hrem sn []) as Hsm.
  eexists. split.
  - eapply reach_step.
    + rewrite (r01 ft Hk s1 s3 _ _ (dst_init cd) _ _ [] [] 0 0 0 None None [] [] P
                 ltac:(fo) ltac:(cbn [surv]; rewrite Hh; reflexivity)
                 (conj eq_refl eq_refl) Hsm eq_refl ltac:(fo)).
      keep HI. reflexivity.
    + apos.
    + apply qz_sbusy. sbusy HI.
  - do 4 eexists. split; [at_here|]. split; [exact HI|]. split.
    + cbn [lookup lookup_raw path_eqb]. rewrite Z.eqb_refl. reflexivity.
    + apply clean_cons; [reflexivity|reflexivity|apply clean_nil].
Qed.

Lemma round_fd_g : forall off c1 y, SP off c1 y -> off < zlen data -> hit ft 0 c1 = false ->
  exists y', reach tick y y' /\ SP (off + Z.min seg (zlen data - off)) (c1 + 1) y'.
Proof.
  intros off c1 y (s & ls & fs & lg & (rnd & dcur & sdone & ddone & ->) & HI & Hl & Hc) Hlt Hh.
  pose proof (InvA_range _ _ _ _ _ _ _ _ _ _ _ HI) as Hr.
  destruct (step_fd_a cs p rs fss data cf seg clo tid sn [x] Hnames Hlook Hseg Hm off s HI Hlt) as (s' & P & HI').
  unfold fd_of in P. cbn [fst snd] in P. rewrite (hdr_eq_a cd cf Hm Hdst) in P.
  set (tile := ztake seg (zdrop off data)) in *.
  assert (Htl : zlen tile = Z.min seg (zlen data - off)) by (apply tile_len; lia).
  assert (How : onw (PFileData hRA' off tile)).
  { unfold onw. destruct tile; [change (zlen (@nil Z)) with 0 in Htl; lia | reflexivity]. }
  pose proof (sm_fd_a cd rd x (sc_crc cf) (sc_large cf) clo (sc_src cf) (sc_srcw cf) (sc_seq cf) (sc_seqw cf)
                (r_cktype rs) (zlen data) Hrem off ls tile fs lg _ Hl ltac:(lia)) as Hsm.
  rewrite Z.max_l in Hsm by lia. rewrite Htl in Hsm.
  assert (G : dguard (PFileData hRA' off tile) (DAx off ls off fs lg) ddone) by (apply dbusy_guard; split; reflexivity).
  eexists. split.
  - eapply reach_step.
    + rewrite (r01 ft Hk s s' _ _ _ _ _ [] [] c1 0 rnd (Some tid) dcur sdone ddone P
                 (Forall_cons _ How (Forall_nil _)) ltac:(cbn [surv]; rewrite Hh; reflexivity)
                 G Hsm eq_refl (Forall_nil _)).
      keep HI'. reflexivity.
    + apos.
    + apply qz_sbusy. sbusy HI'.
  - do 4 eexists. split; [at_here|]. split; [exact HI'|]. split.
    + rewrite lookup_set_node by discriminate. rewrite path_eqb_refl. f_equal. f_equal.
      apply write_append; lia.
    + destruct (l_ind_seg cd); [apply clean_cons; [reflexivity|reflexivity|exact Hc] | exact Hc].
Qed.

(* the number of File Data PDUs *)
Definition nfd : Z := (zlen data + seg - 1) / seg.

Lemma nfd_spec : seg * nfd <= zlen data + seg - 1 < seg * nfd + seg.
Proof.
  unfold nfd. pose proof (Z.div_mod (zlen data + seg - 1) seg ltac:(lia)) as E.
  pose proof (Z.mod_pos_bound (zlen data + seg - 1) seg ltac:(lia)) as B. lia.
Qed.

Lemma prefix_g : forall m i y, 0 <= i -> SP (Z.min (i * seg) (zlen data)) (i + 1) y ->
  (i = 0 \/ (i - 1) * seg < zlen data) -> (Z.to_nat (zlen data - i * seg) <= m)%nat ->
  (forall c, 1 <= c <= nfd -> hit ft 0 c = false) ->
  exists y', reach tick y y' /\ SP (zlen data) (nfd + 1) y'.
Proof.
  pose proof nfd_spec as HN. assert (HL : 0 <= zlen data) by (unfold zlen; lia).
  induction m as [|m IH]; intros i y Hi HS Hprev Hmm Hh;
    (destruct (Z_lt_le_dec (i * seg) (zlen data)) as [Hlt|Hge];
     [| exists y; split; [apply reach_refl|];
        rewrite Z.min_r in HS by lia; replace (nfd + 1) with (i + 1); [exact HS|];
        destruct Hprev as [->|Hp]; nia ]).
  - exfalso. lia.
  - rewrite Z.min_l in HS by lia.
    assert (Hin : i < nfd) by nia.
    destruct (round_fd_g (i * seg) (i + 1) y HS Hlt (Hh (i + 1) ltac:(lia))) as (y1 & R1 & H1).
    replace (i * seg + Z.min seg (zlen data - i * seg)) with (Z.min ((i + 1) * seg) (zlen data)) in H1 by lia.
    destruct (IH (i + 1) y1 ltac:(lia) H1 ltac:(right; replace (i + 1 - 1) with i by lia; exact Hlt) ltac:(nia) Hh)
      as (y2 & R2 & H2).
    exists y2. split; [exact (reach_trans tick _ _ _ R1 R2)|exact H2].
Qed.

(* ---- the EOF PDU *)
Lemma L_final : forall s, InvAx (zlen data) s -> exists s' nw, pump s = (s', Ok [eofG]) /\ T7 nw nw 0 s'.
Proof.
  intros s HI.
  destruct (step_final_t cs p rs fss data cks cf seg clo tid sn [x] Hnames Hlook Hm Hck Hacks s HI) as (s' & nw & P & HT).
  rewrite (hdr_eq_a cd cf Hm Hdst) in P. exists s', nw. split; assumption.
Qed.

Lemma L_eof_ra : forall nwd ls fs lg,
  Dest.state_machine (Some eofG) (RAx nwd ls fs lg) =
    (REx nwd 1 [ackE'] cks ls fs ((if l_ind_eof_recv cd then [EvEofRecv (sc_src cf) (sc_seq cf)] else []) ++ lg), Ok tt).
Proof. intros. exact (tm_eof_ra cd rd x _ _ clo _ _ _ _ _ _ Hrem nwd cks None ls fs lg). Qed.

Lemma G_busy : forall pd dd ddone, pdu_hdr pd = hRA' -> d_state dd = ST_BUSY -> p_tid (d_p dd) = Some tid -> dguard pd dd ddone.
Proof. intros pd dd ddone H H1 H2. apply dbusy_guard. split; [exact H1|]. rewrite H. exact H2. Qed.

(* the EOF PDU and its ACK pass *)
Lemma T_eof_ok : forall c1 y, SP (zlen data) c1 y -> hit ft 0 c1 = false -> hit ft 1 0 = false ->
  exists y', reach tick y y' /\ exists ls nw, W [] (T7 nw nw 0) (rE 0 ls) false [ackE'] (c1 + 1) 1 y'.
Proof.
  intros c1 y (s & ls & fs & lg & (rnd & dcur & sdone & ddone & ->) & HI & Hl & Hc) Hh Hh1.
  destruct (L_final s HI) as (s' & nw & P & HT). rewrite ztake_all in Hl.
  change (DAx (zlen data) ls (zlen data) fs lg) with (RAx 0 ls fs lg).
  pose proof (L_eof_ra 0 ls fs lg) as Hsm.
  assert (G : dguard eofG (RAx 0 ls fs lg) ddone) by (apply dbusy_guard; split; reflexivity).
  eexists. split.
  - eapply reach_step.
    + rewrite (r01 ft Hk s s' _ _ _ _ _ [ackE'] [] c1 0 rnd (Some tid) dcur sdone ddone P
                 ltac:(fo) ltac:(cbn [surv]; rewrite Hh; reflexivity)
                 G Hsm eq_refl ltac:(fo)).
      keep HT. cbn [surv]. rewrite Hh1. reflexivity.
    + apos.
    + apply qz_sbusy. sbusy HT.
  - exists ls, nw. do 3 eexists. split; [at_here|]. split; [exact HT|]. split; [exact Hl|].
    apply clean_eofr'. exact Hc.
Qed.

(* the ACK (EOF) is lost *)
Lemma T_eof_c : forall c1 y, SP (zlen data) c1 y -> hit ft 0 c1 = false -> hit ft 1 0 = true ->
  exists y', reach tick y y' /\ exists ls nw, W [] (T7 nw nw 0) (rE 0 ls) false [] (c1 + 1) 1 y'.
Proof.
  intros c1 y (s & ls & fs & lg & (rnd & dcur & sdone & ddone & ->) & HI & Hl & Hc) Hh Hh1.
  destruct (L_final s HI) as (s' & nw & P & HT). rewrite ztake_all in Hl.
  change (DAx (zlen data) ls (zlen data) fs lg) with (RAx 0 ls fs lg).
  pose proof (L_eof_ra 0 ls fs lg) as Hsm.
  assert (G : dguard eofG (RAx 0 ls fs lg) ddone) by (apply dbusy_guard; split; reflexivity).
  eexists. split.
  - eapply reach_step.
    + rewrite (r01 ft Hk s s' _ _ _ _ _ [ackE'] [] c1 0 rnd (Some tid) dcur sdone ddone P
                 ltac:(fo) ltac:(cbn [surv]; rewrite Hh; reflexivity)
                 G Hsm eq_refl ltac:(fo)).
      keep HT. cbn [surv]. rewrite Hh1. reflexivity.
    + apos.
    + apply qz_sbusy. sbusy HT.
  - exists ls, nw. do 3 eexists. split; [at_here|]. split; [exact HT|]. split; [exact Hl|].
    apply clean_eofr'. exact Hc.
Qed.

(* the EOF PDU is lost *)
Lemma T_eof_a : forall c1 y, SP (zlen data) c1 y -> hit ft 0 c1 = true ->
  exists y', reach tick y y' /\ exists ls nw, W [] (T7 nw nw 0) (rA 0 ls) false [] (c1 + 1) 0 y'.
Proof.
  intros c1 y (s & ls & fs & lg & (rnd & dcur & sdone & ddone & ->) & HI & Hl & Hc) Hh.
  destruct (L_final s HI) as (s' & nw & P & HT). rewrite ztake_all in Hl.
  change (DAx (zlen data) ls (zlen data) fs lg) with (RAx 0 ls fs lg).
  pose proof (tm_none_ra cd rd x (sc_crc cf) (sc_large cf) clo (sc_src cf) (sc_srcw cf) (sc_seq cf) (sc_seqw cf)
                (r_cktype rs) (zlen data) 0 ls fs lg) as Hsm.
  eexists. split.
  - eapply reach_step.
    + rewrite (r00 ft Hk s s' _ _ _ _ [] [] c1 0 rnd (Some tid) dcur sdone ddone P
                 ltac:(fo) ltac:(cbn [surv]; rewrite Hh; reflexivity) Hsm eq_refl ltac:(fo)).
      keep HT. reflexivity.
    + apos.
    + apply qz_sbusy. sbusy HT.
  - exists ls, nw. do 3 eexists. split; [at_here|]. split; [exact HT|]. split; [exact Hl|exact Hc].
Qed.

(* ---- what the handlers do, in the vocabulary of this section *)
Lemma L_ack : forall nw t0 k s, T7 nw t0 k s -> exists s', pump_with (Some ackE') s = (s', Ok []) /\ T8 s'.
Proof.
  intros nw t0 k s HT.
  destruct (step_ack_eof cs p rs cf tid Hm Hsrc Hdstr s C_NO_ERROR TS_ACTIVE (TailT_Tail _ _ _ _ _ _ _ _ _ _ _ _ HT))
    as (s' & P & HT').
  rewrite (hdr_eq_b cd cf Hm Hdst) in P. exists s'. split; assumption.
Qed.
Lemma L_fin : forall s, T8 s -> exists s', pump_with (Some finP') s = (s', Ok [ackFG]) /\ T9 s'.
Proof.
  intros s HT. destruct (step_finished cs p rs cf tid Hm Hsrc Hdstr s FS_RETAINED HT) as (s' & P & HT').
  rewrite (hdr_eq_b cd cf Hm Hdst), (hdr_eq_a cd cf Hm Hdst) in P. exists s'. split; assumption.
Qed.
(* the Finished PDU while the ACK (EOF) is still awaited: accepted and acknowledged in the same call (F30 repair) *)
Lemma L_fin7 : forall nw t0 k s, T7 nw t0 k s -> exists s', pump_with (Some finP') s = (s', Ok [ackFG]) /\ T9 s'.
Proof.
  intros nw t0 k s HT.
  destruct (t7_finished cs p rs fss data cf seg tid Hm Hsrc Hdstr nw t0 k s FS_RETAINED HT) as (s' & P & HT').
  rewrite (hdr_eq_b cd cf Hm Hdst), (hdr_eq_a cd cf Hm Hdst) in P. exists s'. split; assumption.
Qed.
Lemma L_complete : forall nwd ls fs lg, lookup fs [x] = Some (File data) ->
  Dest.state_machine None (REx nwd 0 [] cks ls fs lg) = (RWx nwd nwd 0 1 [finP'] cks ls fs (evF :: lg), Ok tt).
Proof.
  intros nwd ls fs lg Hl.
  exact (tm_complete cd rd x _ _ clo _ _ _ _ _ _ Hfind Hackd nwd cks ls fs lg data Hl Hck2).
Qed.
Lemma L_wait : forall nwd td kd ls fs lg, nwd - td < r_ack_ms rd ->
  Dest.state_machine None (RWx nwd td kd 0 [] cks ls fs lg) = (RWx nwd td kd 0 [] cks ls fs lg, Ok tt).
Proof. intros. apply tm_wait. assumption. Qed.
Lemma L_resend : forall nwd td kd ls fs lg, r_ack_ms rd <= nwd - td -> kd + 1 < r_ack_limit rd ->
  Dest.state_machine None (RWx nwd td kd 0 [] cks ls fs lg) = (RWx nwd nwd (kd + 1) 1 [finP'] cks ls fs lg, Ok tt).
Proof. intros. apply tm_resend; assumption. Qed.
Lemma L_eof_rw : forall nwd td kd ls fs lg,
  Dest.state_machine (Some eofG) (RWx nwd td kd 0 [] cks ls fs lg) = (RWx nwd td kd 1 [ackE'] cks ls fs lg, Ok tt).
Proof. intros. exact (tm_eof_rw cd rd x _ _ clo _ _ _ _ _ _ Hrem nwd td kd cks None ls fs lg). Qed.
Lemma L_ack_fin : forall st nwd td kd ls fs lg,
  Dest.state_machine (Some (PAck hRA' D_FINISHED C_NO_ERROR st)) (RWx nwd td kd 0 [] cks ls fs lg) = (RFx nwd fs lg, Ok tt).
Proof. intros. exact (tm_ack_fin cd rd x _ _ clo _ _ _ _ _ _ Hrem nwd td kd C_NO_ERROR st cks ls fs lg). Qed.

(* ---- the rounds every recovery shares *)
(* ACK (EOF) reaches the sender; the receiver completes the transfer and emits the Finished PDU *)
Lemma G_ackeof : forall er nw t0 k nwd ls c1 c2 y, W er (T7 nw t0 k) (rE nwd ls) false [ackE'] c1 c2 y ->
  hit ft 1 c2 = false ->
  exists y', reach tick y y' /\ W er T8 (rW nwd nwd 0 ls) true [finP'] c1 (c2 + 1) y'.
Proof.
  intros er nw t0 k nwd ls c1 c2 y (s & fs & lg & (rnd & dcur & sdone & ddone & ->) & HT & Hl & Hc) Hh.
  destruct (L_ack nw t0 k s HT) as (s' & P & HT'). pose proof (L_complete nwd ls fs lg Hl) as Hsm.
  unfold rE. eexists. split.
  - eapply reach_step.
    + rewrite (r10 ft Hk _ s s' _ _ _ _ [finP'] er c1 c2 rnd (Some tid) dcur sdone ddone ltac:(sbusy HT) P
                 ltac:(fo) eq_refl Hsm eq_refl ltac:(fo)).
      norm0. keep HT'. cbn [surv]. rewrite Hh. reflexivity.
    + apos.
    + apply qz_sbusy. sbusy HT'.
  - exists s', fs, lg. split; [at_here|]. split; [exact HT'|]. split; [exact Hl|exact Hc].
Qed.

(* the same round when the link drops the Finished PDU *)
Lemma G_ackeof_d : forall er nw t0 k nwd ls c1 c2 y, W er (T7 nw t0 k) (rE nwd ls) false [ackE'] c1 c2 y ->
  hit ft 1 c2 = true ->
  exists y', reach tick y y' /\ W er T8 (rW nwd nwd 0 ls) true [] c1 (c2 + 1) y'.
Proof.
  intros er nw t0 k nwd ls c1 c2 y (s & fs & lg & (rnd & dcur & sdone & ddone & ->) & HT & Hl & Hc) Hh.
  destruct (L_ack nw t0 k s HT) as (s' & P & HT'). pose proof (L_complete nwd ls fs lg Hl) as Hsm.
  unfold rE. eexists. split.
  - eapply reach_step.
    + rewrite (r10 ft Hk _ s s' _ _ _ _ [finP'] er c1 c2 rnd (Some tid) dcur sdone ddone ltac:(sbusy HT) P
                 ltac:(fo) eq_refl Hsm eq_refl ltac:(fo)).
      norm0. keep HT'. cbn [surv]. rewrite Hh. reflexivity.
    + apos.
    + apply qz_sbusy. sbusy HT'.
  - exists s', fs, lg. split; [at_here|]. split; [exact HT'|]. split; [exact Hl|exact Hc].
Qed.

(* the Finished PDU reaches the sender, its ACK reaches the receiver *)
Lemma G_fin : forall er nwd td kd ls c1 c2 y, W er T8 (rW nwd td kd ls) true [finP'] c1 c2 y ->
  hit ft 0 c1 = false ->
  exists y', reach tick y y' /\ W er T9 (rF nwd) true [] (c1 + 1) c2 y'.
Proof.
  intros er nwd td kd ls c1 c2 y (s & fs & lg & (rnd & dcur & sdone & ddone & ->) & HT & Hl & Hc) Hh.
  destruct (L_fin s HT) as (s' & P & HT').
  pose proof (L_ack_fin TS_ACTIVE nwd td kd ls fs (evF :: lg)) as Hsm. fold ackFG in Hsm.
  unfold rW.
  assert (G : dguard ackFG (RWx nwd td kd 0 [] cks ls fs (evF :: lg)) ddone) by (apply dbusy_guard; split; reflexivity).
  eexists. split.
  - eapply reach_step.
    + rewrite (r11 ft Hk _ s s' _ _ _ _ _ [] er c1 c2 rnd (Some tid) dcur sdone ddone ltac:(sbusy HT) P
                 ltac:(fo) ltac:(cbn [surv]; rewrite Hh; reflexivity) G Hsm eq_refl ltac:(fo)).
      norm0. keep HT'. reflexivity.
    + apos.
    + apply qz_sbusy. sbusy HT'.
  - exists s', fs, lg. split; [at_here|]. split; [exact HT'|]. split; [exact Hl|exact Hc].
Qed.

(* the same round when the link drops the ACK (Finished) *)
Lemma G_fin_b : forall er nwd td kd ls c1 c2 y, W er T8 (rW nwd td kd ls) true [finP'] c1 c2 y ->
  hit ft 0 c1 = true -> nwd - td < r_ack_ms rd ->
  exists y', reach tick y y' /\ W er T9 (rW nwd td kd ls) true [] (c1 + 1) c2 y'.
Proof.
  intros er nwd td kd ls c1 c2 y (s & fs & lg & (rnd & dcur & sdone & ddone & ->) & HT & Hl & Hc) Hh Hlt.
  destruct (L_fin s HT) as (s' & P & HT').
  pose proof (L_wait nwd td kd ls fs (evF :: lg) Hlt) as Hsm.
  unfold rW. eexists. split.
  - eapply reach_step.
    + rewrite (r10 ft Hk _ s s' _ _ _ _ [] er c1 c2 rnd (Some tid) dcur sdone ddone ltac:(sbusy HT) P
                 ltac:(fo) ltac:(cbn [surv]; rewrite Hh; reflexivity) Hsm eq_refl ltac:(fo)).
      norm0. keep HT'. reflexivity.
    + apos.
    + apply qz_sbusy. sbusy HT'.
  - exists s', fs, lg. split; [at_here|]. split; [exact HT'|]. split; [exact Hl|exact Hc].
Qed.

(* what the verdict looks at, after the last round; [er]: the exceptions the API calls have raised *)
Definition FinalG (er : list (Z * Z)) (y : sys) : Prop :=
  exists s nwd fs lgs lgd c1 c2 rnd scur dcur sdone ddone,
    y = ZG [ft] er s (RFx nwd fs (evF :: lgd)) [] [] c1 c2 rnd scur dcur sdone ddone /\
    e_log (s_env s) = EvFinished (sc_src cf) (sc_seq cf) C_NO_ERROR DATA_COMPLETE FS_RETAINED None :: lgs /\
    clean lgs /\ clean lgd /\ lookup fs [x] = Some (File data).

(* the last round: the sender issues its Transaction-Finished indication; both handlers idle *)
Lemma G_done : forall er nwd c1 c2 y, W er T9 (rF nwd) true [] c1 c2 y ->
  exists y' a, step_round y = (y', a) /\ quiescent y' = true /\ FinalG er y'.
Proof.
  intros er nwd c1 c2 y (s & fs & lg & (rnd & dcur & sdone & ddone & ->) & HT & Hl & Hc).
  destruct (step_done cs p rs cf tid Hfins s FS_RETAINED HT) as (s' & lg0 & P & Hst & Hlog & Hc0).
  pose proof (tm_idle cd (sc_src cf) (sc_seq cf) nwd fs (evF :: lg)) as Hsm.
  unfold rF. eexists. eexists. split; [|split].
  - rewrite (r00 ft Hk s s' _ _ _ _ [] er c1 c2 rnd (Some tid) dcur sdone ddone P ltac:(fo) eq_refl Hsm eq_refl ltac:(fo)).
    reflexivity.
  - unfold quiescent, ZG. cbn [y_src y_dst y_s2d y_d2s y_delayed surv]. rewrite Hst. reflexivity.
  - do 12 eexists. split; [reflexivity|]. split; [exact Hlog|]. split; [exact Hc0|]. split; [exact Hc|exact Hl].
Qed.

(* a run that ends, quiescent, in a state the verdict accepts *)
Definition fin_ok (er : list (Z * Z)) (y : sys) : Prop := exists fuel y', run fuel tick y = (y', true) /\ FinalG er y'.

Lemma fin_reach : forall er y y0, reach tick y y0 -> fin_ok er y0 -> fin_ok er y.
Proof.
  intros er y y0 [m H] (fuel & y' & R & F). exists (m + fuel)%nat, y'. split; [|exact F]. rewrite H. exact R.
Qed.
Lemma fin_last : forall er y y' a, step_round y = (y', a) -> quiescent y' = true -> FinalG er y' -> fin_ok er y.
Proof.
  intros er y y' a R Q F. exists 1%nat, y'. split; [|exact F].
  change 1%nat with (S 0). rewrite run_S, R. cbv iota beta. rewrite Q. reflexivity.
Qed.

Lemma fin_T9 : forall er nwd c1 c2 y, W er T9 (rF nwd) true [] c1 c2 y -> fin_ok er y.
Proof. intros er nwd c1 c2 y H. destruct (G_done _ _ _ _ _ H) as (y' & a & R & Q & F). exact (fin_last _ _ _ _ R Q F). Qed.

Lemma fin_T8 : forall er nwd td kd ls c1 c2 y, W er T8 (rW nwd td kd ls) true [finP'] c1 c2 y -> hit ft 0 c1 = false -> fin_ok er y.
Proof.
  intros er nwd td kd ls c1 c2 y H Hh. destruct (G_fin _ _ _ _ _ _ _ _ H Hh) as (y1 & R1 & H1).
  apply (fin_reach _ _ _ R1). exact (fin_T9 _ _ _ _ _ H1).
Qed.

Lemma TailT_step : forall nw t0 k s, T7 nw t0 k s -> s_step s = SS_WAITING_FOR_EOF_ACK.
Proof. intros nw t0 k s (_&_&H&_). exact H. Qed.
Lemma TailT_queue : forall nw t0 k s, T7 nw t0 k s -> s_queue s = [].
Proof. intros nw t0 k s (_&_&_&H&_). exact H. Qed.

Lemma L_resend_s : forall nw t0 k s, T7 nw t0 k s -> r_ack_ms rs <= nw - t0 -> k + 1 < r_ack_limit rs ->
  exists s', pump s = (s', Ok [eofG]) /\ T7 nw nw (k + 1) s'.
Proof.
  intros nw t0 k s HT Hge Hlim.
  destruct (t7_resend cs p rs fss data cks cf seg tid sn [x] Hnames Hlook Hck nw t0 k s HT Hge Hlim) as (s' & P & HT' & _).
  rewrite (hdr_eq_a cd cf Hm Hdst) in P. exists s'. split; assumption.
Qed.
Lemma L_none_ra : forall nwd ls fs lg, Dest.state_machine None (RAx nwd ls fs lg) = (RAx nwd ls fs lg, Ok tt).
Proof. intros. apply tm_none_ra. Qed.

(* ================================================================== *)
(* the lost EOF PDU *)
(* the sender's timer runs, the receiver still expects the EOF PDU: a round without activity *)
Lemma A_idle : forall er nw t0 k nwd ls c1 c2 y, W er (T7 nw t0 k) (rA nwd ls) false [] c1 c2 y ->
  nw - t0 < r_ack_ms rs ->
  exists y', reach tick y y' /\ W er (T7 (tick + nw) t0 k) (rA (tick + nwd) ls) false [] c1 c2 y'.
Proof.
  intros er nw t0 k nwd ls c1 c2 y (s & fs & lg & (rnd & dcur & sdone & ddone & ->) & HT & Hl & Hc) Hlt.
  destruct (t7_wait cs p rs fss data cf seg tid nw t0 k s HT Hlt) as (s' & P & HT' & Hst).
  pose proof (L_none_ra nwd ls fs lg) as Hsm.
  unfold rA. eexists. split.
  - eapply reach_idle'.
    + rewrite (r00 ft Hk s s' _ _ _ _ [] er c1 c2 rnd (Some tid) dcur sdone ddone P ltac:(fo) eq_refl Hsm eq_refl ltac:(fo)).
      norm0. keep HT'. reflexivity.
    + rewrite (TailT_busy _ _ _ _ _ _ _ _ _ _ _ _ HT), (TailT_busy _ _ _ _ _ _ _ _ _ _ _ _ HT'), (TailT_step _ _ _ _ HT), Hst.
      reflexivity.
    + apply qz_sbusy. sbusy HT'.
  - exists (adv_s tick s'), fs, lg. split; [at_here|]. split; [apply TailT_adv; exact HT'|]. split; [exact Hl|exact Hc].
Qed.

(* the timer has expired: the EOF PDU is sent again and acknowledged *)
Lemma A_resend : forall er nw t0 k nwd ls c1 c2 y, W er (T7 nw t0 k) (rA nwd ls) false [] c1 c2 y ->
  r_ack_ms rs <= nw - t0 -> k + 1 < r_ack_limit rs -> hit ft 0 c1 = false -> hit ft 1 c2 = false ->
  exists y', reach tick y y' /\ W er (T7 nw nw (k + 1)) (rE nwd ls) false [ackE'] (c1 + 1) (c2 + 1) y'.
Proof.
  intros er nw t0 k nwd ls c1 c2 y (s & fs & lg & (rnd & dcur & sdone & ddone & ->) & HT & Hl & Hc) Hge Hlim Hh Hh1.
  destruct (L_resend_s nw t0 k s HT Hge Hlim) as (s' & P & HT').
  pose proof (L_eof_ra nwd ls fs lg) as Hsm.
  unfold rA.
  assert (G : dguard eofG (RAx nwd ls fs lg) ddone) by (apply dbusy_guard; split; reflexivity).
  eexists. split.
  - eapply reach_step.
    + rewrite (r01 ft Hk s s' _ _ _ _ _ [ackE'] er c1 c2 rnd (Some tid) dcur sdone ddone P
                 ltac:(fo) ltac:(cbn [surv]; rewrite Hh; reflexivity) G Hsm eq_refl ltac:(fo)).
      keep HT'. cbn [surv]. rewrite Hh1. reflexivity.
    + apos.
    + apply qz_sbusy. sbusy HT'.
  - eexists s', fs, _. split; [at_here|]. split; [exact HT'|]. split; [exact Hl|].
    apply clean_eofr'. exact Hc.
Qed.

(* ================================================================== *)
(* the lost Finished PDU *)
Lemma D_idle : forall er nwd td kd ls c1 c2 y, W er T8 (rW nwd td kd ls) true [] c1 c2 y ->
  nwd - td < r_ack_ms rd ->
  exists y', reach tick y y' /\ W er T8 (rW (tick + nwd) td kd ls) true [] c1 c2 y'.
Proof.
  intros er nwd td kd ls c1 c2 y (s & fs & lg & (rnd & dcur & sdone & ddone & ->) & HT & Hl & Hc) Hlt.
  destruct (t8_wait cs p rs cf tid Hm s HT) as (s' & P & HT' & Hst).
  pose proof (L_wait nwd td kd ls fs (evF :: lg) Hlt) as Hsm.
  unfold rW. eexists. split.
  - eapply reach_idle'.
    + rewrite (r00 ft Hk s s' _ _ _ _ [] er c1 c2 rnd (Some tid) dcur sdone ddone P ltac:(fo) eq_refl Hsm eq_refl ltac:(fo)).
      norm0. keep HT'. reflexivity.
    + rewrite (Tail_busy _ _ _ _ _ _ _ HT), (Tail_busy _ _ _ _ _ _ _ HT'), (Tail_step _ _ _ HT), Hst. reflexivity.
    + apply qz_sbusy. sbusy HT'.
  - exists (adv_s tick s'), fs, lg. split; [at_here|]. split; [apply Tail_adv; exact HT'|]. split; [exact Hl|exact Hc].
Qed.

Lemma D_resend : forall er nwd td kd ls c1 c2 y, W er T8 (rW nwd td kd ls) true [] c1 c2 y ->
  r_ack_ms rd <= nwd - td -> kd + 1 < r_ack_limit rd -> hit ft 1 c2 = false ->
  exists y', reach tick y y' /\ W er T8 (rW nwd nwd (kd + 1) ls) true [finP'] c1 (c2 + 1) y'.
Proof.
  intros er nwd td kd ls c1 c2 y (s & fs & lg & (rnd & dcur & sdone & ddone & ->) & HT & Hl & Hc) Hge Hlim Hh.
  destruct (t8_wait cs p rs cf tid Hm s HT) as (s' & P & HT' & Hst).
  pose proof (L_resend nwd td kd ls fs (evF :: lg) Hge Hlim) as Hsm.
  unfold rW. eexists. split.
  - eapply reach_step.
    + rewrite (r00 ft Hk s s' _ _ _ _ [finP'] er c1 c2 rnd (Some tid) dcur sdone ddone P ltac:(fo) eq_refl Hsm eq_refl ltac:(fo)).
      norm0. keep HT'. cbn [surv]. rewrite Hh. reflexivity.
    + apos.
    + apply qz_sbusy. sbusy HT'.
  - exists s', fs, lg. split; [at_here|]. split; [exact HT'|]. split; [exact Hl|exact Hc].
Qed.

(* ================================================================== *)
(* the lost ACK (EOF) *)
(* the receiver goes on: transfer complete, Finished PDU *)
Lemma C_complete : forall er nw t0 k nwd ls c1 c2 y, W er (T7 nw t0 k) (rE nwd ls) false [] c1 c2 y ->
  nw - t0 < r_ack_ms rs -> hit ft 1 c2 = false ->
  exists y', reach tick y y' /\ W er (T7 nw t0 k) (rW nwd nwd 0 ls) true [finP'] c1 (c2 + 1) y'.
Proof.
  intros er nw t0 k nwd ls c1 c2 y (s & fs & lg & (rnd & dcur & sdone & ddone & ->) & HT & Hl & Hc) Hlt Hh.
  destruct (t7_wait cs p rs fss data cf seg tid nw t0 k s HT Hlt) as (s' & P & HT' & Hst).
  pose proof (L_complete nwd ls fs lg Hl) as Hsm.
  unfold rE. eexists. split.
  - eapply reach_step.
    + rewrite (r00 ft Hk s s' _ _ _ _ [finP'] er c1 c2 rnd (Some tid) dcur sdone ddone P ltac:(fo) eq_refl Hsm eq_refl ltac:(fo)).
      norm0. keep HT'. cbn [surv]. rewrite Hh. reflexivity.
    + apos.
    + apply qz_sbusy. sbusy HT'.
  - exists s', fs, lg. split; [at_here|]. split; [exact HT'|]. split; [exact Hl|exact Hc].
Qed.

(* the sender still waits for the ACK (EOF): the Finished PDU implies it; the sender accepts the PDU and answers
   ACK (Finished) in the same call, the receiver is done (before fix 179debf: refused with PduIgnoredForSource) *)
Lemma C_fin : forall er nw t0 k nwd td kd ls c1 c2 y, W er (T7 nw t0 k) (rW nwd td kd ls) true [finP'] c1 c2 y ->
  hit ft 0 c1 = false ->
  exists y', reach tick y y' /\ W er T9 (rF nwd) true [] (c1 + 1) c2 y'.
Proof.
  intros er nw t0 k nwd td kd ls c1 c2 y (s & fs & lg & (rnd & dcur & sdone & ddone & ->) & HT & Hl & Hc) Hh.
  destruct (L_fin7 nw t0 k s HT) as (s' & P & HT').
  pose proof (L_ack_fin TS_ACTIVE nwd td kd ls fs (evF :: lg)) as Hsm. fold ackFG in Hsm.
  unfold rW.
  assert (G : dguard ackFG (RWx nwd td kd 0 [] cks ls fs (evF :: lg)) ddone) by (apply dbusy_guard; split; reflexivity).
  eexists. split.
  - eapply reach_step.
    + rewrite (r11 ft Hk _ s s' _ _ _ _ _ [] er c1 c2 rnd (Some tid) dcur sdone ddone ltac:(sbusy HT) P
                 ltac:(fo) ltac:(cbn [surv]; rewrite Hh; reflexivity) G Hsm eq_refl ltac:(fo)).
      norm0. keep HT'. reflexivity.
    + apos.
    + apply qz_sbusy. sbusy HT'.
  - exists s', fs, lg. split; [at_here|]. split; [exact HT'|]. split; [exact Hl|exact Hc].
Qed.

(* ---- the lemmas C_idle ... C_ack' below are not on the path of the K = 1 theorem any more (since the F30 repair the lost
   ACK (EOF) is recovered without a timer expiry); they describe the system when the Finished PDU that would have
   implied the ACK (EOF) is lost as well, and remain true *)
(* both timers run: a round without activity *)
Lemma C_idle : forall er nw t0 k nwd td kd ls c1 c2 y, W er (T7 nw t0 k) (rW nwd td kd ls) true [] c1 c2 y ->
  nw - t0 < r_ack_ms rs -> nwd - td < r_ack_ms rd ->
  exists y', reach tick y y' /\ W er (T7 (tick + nw) t0 k) (rW (tick + nwd) td kd ls) true [] c1 c2 y'.
Proof.
  intros er nw t0 k nwd td kd ls c1 c2 y (s & fs & lg & (rnd & dcur & sdone & ddone & ->) & HT & Hl & Hc) Hlt Hltd.
  destruct (t7_wait cs p rs fss data cf seg tid nw t0 k s HT Hlt) as (s' & P & HT' & Hst).
  pose proof (L_wait nwd td kd ls fs (evF :: lg) Hltd) as Hsm.
  unfold rW. eexists. split.
  - eapply reach_idle'.
    + rewrite (r00 ft Hk s s' _ _ _ _ [] er c1 c2 rnd (Some tid) dcur sdone ddone P ltac:(fo) eq_refl Hsm eq_refl ltac:(fo)).
      norm0. keep HT'. reflexivity.
    + rewrite (TailT_busy _ _ _ _ _ _ _ _ _ _ _ _ HT), (TailT_busy _ _ _ _ _ _ _ _ _ _ _ _ HT'), (TailT_step _ _ _ _ HT), Hst.
      reflexivity.
    + apply qz_sbusy. sbusy HT'.
  - exists (adv_s tick s'), fs, lg. split; [at_here|]. split; [apply TailT_adv; exact HT'|]. split; [exact Hl|exact Hc].
Qed.

(* the sender's timer has expired: the EOF PDU is sent again; the receiver, waiting for the ACK (Finished),
   acknowledges it once more *)
Lemma C_resend : forall er nw t0 k nwd td kd ls c1 c2 y, W er (T7 nw t0 k) (rW nwd td kd ls) true [] c1 c2 y ->
  r_ack_ms rs <= nw - t0 -> k + 1 < r_ack_limit rs -> hit ft 0 c1 = false -> hit ft 1 c2 = false ->
  exists y', reach tick y y' /\ W er (T7 nw nw (k + 1)) (rW nwd td kd ls) true [ackE'] (c1 + 1) (c2 + 1) y'.
Proof.
  intros er nw t0 k nwd td kd ls c1 c2 y (s & fs & lg & (rnd & dcur & sdone & ddone & ->) & HT & Hl & Hc) Hge Hlim Hh Hh1.
  destruct (L_resend_s nw t0 k s HT Hge Hlim) as (s' & P & HT').
  pose proof (L_eof_rw nwd td kd ls fs (evF :: lg)) as Hsm.
  unfold rW.
  assert (G : dguard eofG (RWx nwd td kd 0 [] cks ls fs (evF :: lg)) ddone) by (apply dbusy_guard; split; reflexivity).
  eexists. split.
  - eapply reach_step.
    + rewrite (r01 ft Hk s s' _ _ _ _ _ [ackE'] er c1 c2 rnd (Some tid) dcur sdone ddone P
                 ltac:(fo) ltac:(cbn [surv]; rewrite Hh; reflexivity) G Hsm eq_refl ltac:(fo)).
      keep HT'. cbn [surv]. rewrite Hh1. reflexivity.
    + apos.
    + apply qz_sbusy. sbusy HT'.
  - exists s', fs, lg. split; [at_here|]. split; [exact HT'|]. split; [exact Hl|exact Hc].
Qed.

(* the second ACK (EOF) reaches the sender; the receiver's timer has expired too: the Finished PDU is sent again *)
Lemma C_ack : forall er nw t0 k nwd td kd ls c1 c2 y, W er (T7 nw t0 k) (rW nwd td kd ls) true [ackE'] c1 c2 y ->
  r_ack_ms rd <= nwd - td -> kd + 1 < r_ack_limit rd -> hit ft 1 c2 = false ->
  exists y', reach tick y y' /\ W er T8 (rW nwd nwd (kd + 1) ls) true [finP'] c1 (c2 + 1) y'.
Proof.
  intros er nw t0 k nwd td kd ls c1 c2 y (s & fs & lg & (rnd & dcur & sdone & ddone & ->) & HT & Hl & Hc) Hge Hlim Hh.
  destruct (L_ack nw t0 k s HT) as (s' & P & HT').
  pose proof (L_resend nwd td kd ls fs (evF :: lg) Hge Hlim) as Hsm.
  unfold rW. eexists. split.
  - eapply reach_step.
    + rewrite (r10 ft Hk _ s s' _ _ _ _ [finP'] er c1 c2 rnd (Some tid) dcur sdone ddone ltac:(sbusy HT) P
                 ltac:(fo) eq_refl Hsm eq_refl ltac:(fo)).
      norm0. keep HT'. cbn [surv]. rewrite Hh. reflexivity.
    + apos.
    + apply qz_sbusy. sbusy HT'.
  - exists s', fs, lg. split; [at_here|]. split; [exact HT'|]. split; [exact Hl|exact Hc].
Qed.

(* ================================================================== *)
(* the lost ACK (Finished) *)
(* the sender has closed the transaction *)
Definition Done (lgs : list event) (s : src) : Prop :=
  s_state s = ST_IDLE /\ s_queue s = [] /\
  e_log (s_env s) = EvFinished (sc_src cf) (sc_seq cf) C_NO_ERROR DATA_COMPLETE FS_RETAINED None :: lgs /\ clean lgs.

Lemma Done_drain : forall lgs s, Done lgs s -> Done lgs (fst (drain_s s)).
Proof. intros lgs s (H1 & H2 & H3 & H4). unfold Done, drain_s. cbn. split; [exact H1|split; [reflexivity|split; [exact H3|exact H4]]]. Qed.
Lemma Done_adv : forall ms lgs s, Done lgs s -> Done lgs (adv_s ms s).
Proof.
  intros ms lgs s (H1 & H2 & H3 & H4). destruct s as [cfg st step ready queue q sb pt sc sbits [nw' fs' rw lg]].
  cbn in H1, H2, H3. unfold Done, adv_s. cbn. split; [exact H1|split; [exact H2|split; [exact H3|exact H4]]].
Qed.

(* ... its surrounding entity has it on record; the receiver still waits for the ACK (Finished) *)
Definition WB (er : list (Z * Z)) (mk : tree -> list event -> dst) (q : list pdu) (c1 c2 : Z) (y : sys) : Prop :=
  exists s fs lg lgs rnd dcur sdone ddone,
    y = ZG [ft] er s (mk fs (evF :: lg)) [] q c1 c2 rnd None dcur sdone ddone /\
    Done lgs s /\ tid_mem tid sdone = true /\ lookup fs [x] = Some (File data) /\ clean lg.

Lemma tid_mem_hd : forall l, tid_mem tid (tid :: l) = true.
Proof. intro l. unfold tid_mem, tid_eqb. cbn [existsb]. rewrite !Z.eqb_refl. reflexivity. Qed.

(* the call after ACK (Finished) was retrieved (and lost): Transaction-Finished indication, the sender is idle *)
Lemma B_done : forall er nwd td kd ls c1 c2 y, W er T9 (rW nwd td kd ls) true [] c1 c2 y ->
  nwd - td < r_ack_ms rd ->
  exists y', reach tick y y' /\ WB er (rW nwd td kd ls) [] c1 c2 y'.
Proof.
  intros er nwd td kd ls c1 c2 y (s & fs & lg & (rnd & dcur & sdone & ddone & ->) & HT & Hl & Hc) Hlt.
  destruct (step_done cs p rs cf tid Hfins s FS_RETAINED HT) as (s' & lg0 & P & Hst & Hlog & Hc0).
  pose proof (L_wait nwd td kd ls fs (evF :: lg) Hlt) as Hsm.
  unfold rW. eexists. split.
  - eapply reach_step.
    + rewrite (r00 ft Hk s s' _ _ _ _ [] er c1 c2 rnd (Some tid) dcur sdone ddone P ltac:(fo) eq_refl Hsm eq_refl ltac:(fo)).
      norm0. rewrite Hst. change (ST_IDLE =? ST_BUSY) with false. unfold ncur at 1, ndone at 1. cbv iota. reflexivity.
    + rewrite (Tail_busy _ _ _ _ _ _ _ HT). change (ST_BUSY =? ST_IDLE) with false. cbn [andb]. apos.
    + apply qz_dbusy. reflexivity.
  - exists s', fs, lg, lg0. do 4 eexists. split; [reflexivity|].
    split; [repeat split; [exact Hst|exact (pump_queue _ _ _ _ P)|exact Hlog|apply Hc0|apply Hc0]|].
    split; [apply tid_mem_hd|]. split; [exact Hl|exact Hc].
Qed.

(* the receiver's timer runs: a round without activity *)
Lemma B_idle : forall er nwd td kd ls c1 c2 y, WB er (rW nwd td kd ls) [] c1 c2 y ->
  nwd - td < r_ack_ms rd ->
  exists y', reach tick y y' /\ WB er (rW (tick + nwd) td kd ls) [] c1 c2 y'.
Proof.
  intros er nwd td kd ls c1 c2 y (s & fs & lg & lgs & rnd & dcur & sdone & ddone & -> & HD & Hmem & Hl & Hc) Hlt.
  pose proof HD as (Hi & Hq & _). pose proof (idle_pump s Hi Hq) as P.
  pose proof (Done_drain _ _ HD) as HD'. pose proof HD' as (Hi' & _).
  pose proof (L_wait nwd td kd ls fs (evF :: lg) Hlt) as Hsm.
  unfold rW. eexists. split.
  - eapply reach_idle'.
    + rewrite (r00 ft Hk s _ _ _ _ _ [] er c1 c2 rnd None dcur sdone ddone P ltac:(fo) eq_refl Hsm eq_refl ltac:(fo)).
      norm0. rewrite Hi'. change (ST_IDLE =? ST_BUSY) with false. unfold ncur at 1, ndone at 1. cbv iota. reflexivity.
    + rewrite Hi. change (s_step (fst (drain_s s))) with (s_step s). rewrite !Z.eqb_refl. reflexivity.
    + apply qz_dbusy. reflexivity.
  - exists (adv_s tick (fst (drain_s s))), fs, lg, lgs. do 4 eexists. split; [reflexivity|].
    split; [apply Done_adv; exact HD'|]. split; [exact Hmem|]. split; [exact Hl|exact Hc].
Qed.

(* the receiver's timer has expired: the Finished PDU is sent again *)
Lemma B_resend : forall er nwd td kd ls c1 c2 y, WB er (rW nwd td kd ls) [] c1 c2 y ->
  r_ack_ms rd <= nwd - td -> kd + 1 < r_ack_limit rd -> hit ft 1 c2 = false ->
  exists y', reach tick y y' /\ WB er (rW nwd nwd (kd + 1) ls) [finP'] c1 (c2 + 1) y'.
Proof.
  intros er nwd td kd ls c1 c2 y (s & fs & lg & lgs & rnd & dcur & sdone & ddone & -> & HD & Hmem & Hl & Hc) Hge Hlim Hh.
  pose proof HD as (Hi & Hq & _). pose proof (idle_pump s Hi Hq) as P.
  pose proof (Done_drain _ _ HD) as HD'. pose proof HD' as (Hi' & _).
  pose proof (L_resend nwd td kd ls fs (evF :: lg) Hge Hlim) as Hsm.
  unfold rW. eexists. split.
  - eapply reach_step.
    + rewrite (r00 ft Hk s _ _ _ _ _ [finP'] er c1 c2 rnd None dcur sdone ddone P ltac:(fo) eq_refl Hsm eq_refl ltac:(fo)).
      norm0. rewrite Hi'. change (ST_IDLE =? ST_BUSY) with false. unfold ncur at 1, ndone at 1. cbv iota.
      cbn [surv]. rewrite Hh. reflexivity.
    + apos.
    + apply qz_dbusy. reflexivity.
  - exists (fst (drain_s s)), fs, lg, lgs. do 4 eexists. split; [reflexivity|].
    split; [exact HD'|]. split; [exact Hmem|]. split; [exact Hl|exact Hc].
Qed.

(* the Finished PDU meets an idle sender whose entity remembers the transaction: ACK (Finished, terminated);
   the receiver is done *)
Lemma B_last : forall er nwd td kd ls c1 c2 y, WB er (rW nwd td kd ls) [finP'] c1 c2 y -> hit ft 0 c1 = false ->
  exists y' a, step_round y = (y', a) /\ quiescent y' = true /\ FinalG er y'.
Proof.
  intros er nwd td kd ls c1 c2 y (s & fs & lg & lgs & rnd & dcur & sdone & ddone & -> & HD & Hmem & Hl & Hc) Hh.
  destruct HD as (Hi & Hq & Hlog & Hcs).
  pose proof (L_ack_fin TS_TERMINATED nwd td kd ls fs (evF :: lg)) as Hsm.
  unfold rW.
  assert (G : dguard (PAck hRA' D_FINISHED C_NO_ERROR TS_TERMINATED) (RWx nwd td kd 0 [] cks ls fs (evF :: lg)) ddone)
    by (apply dbusy_guard; split; reflexivity).
  unfold finPA.
  eexists. eexists. split; [|split].
  - rewrite (r1i1 ft Hk (hRB cd cf) C_NO_ERROR DATA_COMPLETE FS_RETAINED None s (PAck hRA' D_FINISHED C_NO_ERROR TS_TERMINATED)
               _ _ _ [] er c1 c2 rnd None dcur sdone ddone Hi Hmem eq_refl Hh G Hsm eq_refl ltac:(fo)).
    reflexivity.
  - unfold quiescent, ZG. cbn [y_src y_dst y_s2d y_d2s y_delayed surv]. rewrite Hi. reflexivity.
  - do 12 eexists. split; [reflexivity|]. split; [exact Hlog|]. split; [exact Hcs|]. split; [exact Hc|exact Hl].
Qed.

(* ================================================================== *)
(* idle rounds until a timer expires: every idle round advances both clocks by [tick] > 0 *)
Hypothesis Htick : 0 < tick.

Lemma A_loop : forall m er nw t0 k nwd ls c1 c2 y, W er (T7 nw t0 k) (rA nwd ls) false [] c1 c2 y ->
  (Z.to_nat (r_ack_ms rs - (nw - t0)) <= m)%nat -> k + 1 < r_ack_limit rs -> hit ft 0 c1 = false -> hit ft 1 c2 = false ->
  exists y' nw' nwd', reach tick y y' /\ W er (T7 nw' nw' (k + 1)) (rE nwd' ls) false [ackE'] (c1 + 1) (c2 + 1) y'.
Proof.
  induction m as [|m IH]; intros er nw t0 k nwd ls c1 c2 y H Hm' Hlim Hh Hh1;
    (destruct (Z_lt_le_dec (nw - t0) (r_ack_ms rs)) as [Hlt|Hge];
     [| destruct (A_resend _ _ _ _ _ _ _ _ _ H Hge Hlim Hh Hh1) as (y1 & R1 & H1); exists y1, nw, nwd; split; assumption]).
  - exfalso. lia.
  - destruct (A_idle _ _ _ _ _ _ _ _ _ H Hlt) as (y1 & R1 & H1).
    destruct (IH _ _ _ _ _ _ _ _ _ H1 ltac:(lia) Hlim Hh Hh1) as (y2 & nw' & nwd' & R2 & H2).
    exists y2, nw', nwd'. split; [exact (reach_trans tick _ _ _ R1 R2)|exact H2].
Qed.

Lemma D_loop : forall m er nwd td kd ls c1 c2 y, W er T8 (rW nwd td kd ls) true [] c1 c2 y ->
  (Z.to_nat (r_ack_ms rd - (nwd - td)) <= m)%nat -> kd + 1 < r_ack_limit rd -> hit ft 1 c2 = false ->
  exists y' nwd', reach tick y y' /\ W er T8 (rW nwd' nwd' (kd + 1) ls) true [finP'] c1 (c2 + 1) y'.
Proof.
  induction m as [|m IH]; intros er nwd td kd ls c1 c2 y H Hm' Hlim Hh;
    (destruct (Z_lt_le_dec (nwd - td) (r_ack_ms rd)) as [Hlt|Hge];
     [| destruct (D_resend _ _ _ _ _ _ _ _ H Hge Hlim Hh) as (y1 & R1 & H1); exists y1, nwd; split; assumption]).
  - exfalso. lia.
  - destruct (D_idle _ _ _ _ _ _ _ _ H Hlt) as (y1 & R1 & H1).
    destruct (IH _ _ _ _ _ _ _ _ H1 ltac:(lia) Hlim Hh) as (y2 & nwd' & R2 & H2).
    exists y2, nwd'. split; [exact (reach_trans tick _ _ _ R1 R2)|exact H2].
Qed.

Lemma B_loop : forall m er nwd td kd ls c1 c2 y, WB er (rW nwd td kd ls) [] c1 c2 y ->
  (Z.to_nat (r_ack_ms rd - (nwd - td)) <= m)%nat -> kd + 1 < r_ack_limit rd -> hit ft 1 c2 = false ->
  exists y' nwd', reach tick y y' /\ WB er (rW nwd' nwd' (kd + 1) ls) [finP'] c1 (c2 + 1) y'.
Proof.
  induction m as [|m IH]; intros er nwd td kd ls c1 c2 y H Hm' Hlim Hh;
    (destruct (Z_lt_le_dec (nwd - td) (r_ack_ms rd)) as [Hlt|Hge];
     [| destruct (B_resend _ _ _ _ _ _ _ _ H Hge Hlim Hh) as (y1 & R1 & H1); exists y1, nwd; split; assumption]).
  - exfalso. lia.
  - destruct (B_idle _ _ _ _ _ _ _ _ H Hlt) as (y1 & R1 & H1).
    destruct (IH _ _ _ _ _ _ _ _ H1 ltac:(lia) Hlim Hh) as (y2 & nwd' & R2 & H2).
    exists y2, nwd'. split; [exact (reach_trans tick _ _ _ R1 R2)|exact H2].
Qed.

(* both timers were started at the same reading of the two clocks, [j] idle rounds ago; the sender's does not expire in
   a later idle round than the receiver's *)
(* [sender_first] and [C_loop] were the timer argument of the lost-ACK (EOF) recovery before the F30 repair; the theorem
   does not use them any more *)
Definition sender_first : Prop := forall j, 0 <= j -> r_ack_ms rd <= j * tick -> r_ack_ms rs <= j * tick.

Lemma C_loop : forall m er nw t0 k nwd td kd ls c1 c2 j y, W er (T7 nw t0 k) (rW nwd td kd ls) true [] c1 c2 y ->
  sender_first -> 0 <= j -> nw - t0 = j * tick -> nwd - td = j * tick ->
  (Z.to_nat (r_ack_ms rs - j * tick) <= m)%nat -> k + 1 < r_ack_limit rs -> hit ft 0 c1 = false -> hit ft 1 c2 = false ->
  exists y' nw' nwd', reach tick y y' /\ W er (T7 nw' nw' (k + 1)) (rW nwd' td kd ls) true [ackE'] (c1 + 1) (c2 + 1) y'.
Proof.
  induction m as [|m IH]; intros er nw t0 k nwd td kd ls c1 c2 j y H Hsf Hj Es Ed Hm' Hlim Hh Hh1;
    (destruct (Z_lt_le_dec (j * tick) (r_ack_ms rs)) as [Hlt|Hge];
     [| destruct (C_resend _ _ _ _ _ _ _ _ _ _ _ H ltac:(lia) Hlim Hh Hh1) as (y1 & R1 & H1); exists y1, nw, nwd; split; assumption]).
  - exfalso. lia.
  - assert (Hltd : j * tick < r_ack_ms rd).
    { destruct (Z_lt_le_dec (j * tick) (r_ack_ms rd)) as [?|Hx]; [assumption|]. pose proof (Hsf j Hj Hx). lia. }
    destruct (C_idle _ _ _ _ _ _ _ _ _ _ _ H ltac:(lia) ltac:(lia)) as (y1 & R1 & H1).
    destruct (IH _ _ _ _ _ _ _ _ _ _ (j + 1) _ H1 Hsf ltac:(lia) ltac:(lia) ltac:(lia) ltac:(lia) Hlim Hh Hh1)
      as (y2 & nw' & nwd' & R2 & H2).
    exists y2, nw', nwd'. split; [exact (reach_trans tick _ _ _ R1 R2)|exact H2].
Qed.

(* the second ACK (EOF) reaches the sender while the receiver's timer still runs *)
Lemma C_ack' : forall er nw t0 k nwd td kd ls c1 c2 y, W er (T7 nw t0 k) (rW nwd td kd ls) true [ackE'] c1 c2 y ->
  nwd - td < r_ack_ms rd ->
  exists y', reach tick y y' /\ W er T8 (rW nwd td kd ls) true [] c1 c2 y'.
Proof.
  intros er nw t0 k nwd td kd ls c1 c2 y (s & fs & lg & (rnd & dcur & sdone & ddone & ->) & HT & Hl & Hc) Hlt.
  destruct (L_ack nw t0 k s HT) as (s' & P & HT').
  pose proof (L_wait nwd td kd ls fs (evF :: lg) Hlt) as Hsm.
  unfold rW. eexists. split.
  - eapply reach_step.
    + rewrite (r10 ft Hk _ s s' _ _ _ _ [] er c1 c2 rnd (Some tid) dcur sdone ddone ltac:(sbusy HT) P
                 ltac:(fo) eq_refl Hsm eq_refl ltac:(fo)).
      norm0. keep HT'. reflexivity.
    + apos.
    + apply qz_sbusy. sbusy HT'.
  - exists s', fs, lg. split; [at_here|]. split; [exact HT'|]. split; [exact Hl|exact Hc].
Qed.

(* ================================================================== *)
(* the four recoveries *)
(* the EOF PDU is lost: idle rounds until the sender's timer expires, second EOF PDU, then as on a perfect link *)
Lemma fin_A : forall c1 y, SP (zlen data) c1 y ->
  hit ft 0 c1 = true -> hit ft 0 (c1 + 1) = false -> hit ft 0 (c1 + 1 + 1) = false -> (forall c, hit ft 1 c = false) ->
  2 <= r_ack_limit rs -> fin_ok [] y.
Proof.
  intros c1 y HS Hh0 Hh1 Hh2 Hd Hls.
  destruct (T_eof_a c1 y HS Hh0) as (y1 & R1 & ls & nw & H1). apply (fin_reach _ _ _ R1).
  edestruct A_loop as (y3 & nw' & nwd' & R3 & H3); [exact H1|apply le_n|lia|exact Hh1|apply Hd|]. apply (fin_reach _ _ _ R3).
  edestruct G_ackeof as (y4 & R4 & H4); [exact H3|apply Hd|]. apply (fin_reach _ _ _ R4).
  exact (fin_T8 _ _ _ _ _ _ _ _ H4 Hh2).
Qed.

(* the Finished PDU is lost: idle rounds until the receiver's timer expires, second Finished PDU *)
Lemma fin_D : forall c1 y, SP (zlen data) c1 y ->
  hit ft 0 c1 = false -> hit ft 0 (c1 + 1) = false -> hit ft 1 0 = false -> hit ft 1 1 = true -> hit ft 1 (1 + 1) = false ->
  2 <= r_ack_limit rd -> fin_ok [] y.
Proof.
  intros c1 y HS Hh0 Hh1 Hd0 Hd1 Hd2 Hld.
  destruct (T_eof_ok c1 y HS Hh0 Hd0) as (y1 & R1 & ls & nw & H1). apply (fin_reach _ _ _ R1).
  edestruct G_ackeof_d as (y2 & R2 & H2); [exact H1|exact Hd1|]. apply (fin_reach _ _ _ R2).
  edestruct D_loop as (y4 & nwd' & R4 & H4); [exact H2|apply le_n|lia|exact Hd2|]. apply (fin_reach _ _ _ R4).
  exact (fin_T8 _ _ _ _ _ _ _ _ H4 Hh1).
Qed.

(* the ACK (EOF) is lost: the receiver completes and sends the Finished PDU; the sender, still waiting for the ACK (EOF),
   takes the Finished PDU for it and answers ACK (Finished) in the same call; both are done.  No timer expires, no
   exception is raised, neither timer interval nor limit matters.  (Before fix 179debf the sender refused the Finished
   PDU, both entities had to run into their Positive-ACK timers, and the recovery needed the sender's timer to expire no
   later than the receiver's.) *)
Lemma fin_C : forall c1 y, SP (zlen data) c1 y ->
  (forall c, hit ft 0 c = false) -> hit ft 1 0 = true -> (forall c, 0 < c -> hit ft 1 c = false) -> fin_ok [] y.
Proof.
  intros c1 y HS Hh Hd0 Hd.
  destruct (T_eof_c c1 y HS (Hh _) Hd0) as (y1 & R1 & ls & nw & H1). apply (fin_reach _ _ _ R1).
  edestruct C_complete as (y2 & R2 & H2); [exact H1|lia|apply Hd; lia|]. apply (fin_reach _ _ _ R2).
  edestruct C_fin as (y3 & R3 & H3); [exact H2|apply Hh|]. apply (fin_reach _ _ _ R3).
  exact (fin_T9 _ _ _ _ _ H3).
Qed.

(* the ACK (Finished) is lost: the sender finishes; idle rounds until the receiver's timer expires, second Finished
   PDU, answered by the sender's entity *)
Lemma fin_B : forall c1 y, SP (zlen data) c1 y ->
  hit ft 0 c1 = false -> hit ft 0 (c1 + 1) = true -> hit ft 0 (c1 + 1 + 1) = false -> (forall c, hit ft 1 c = false) ->
  2 <= r_ack_limit rd -> fin_ok [] y.
Proof.
  intros c1 y HS Hh0 Hh1 Hh2 Hd Hld.
  destruct (T_eof_ok c1 y HS Hh0 (Hd _)) as (y1 & R1 & ls & nw & H1). apply (fin_reach _ _ _ R1).
  edestruct G_ackeof as (y2 & R2 & H2); [exact H1|apply Hd|]. apply (fin_reach _ _ _ R2).
  edestruct G_fin_b as (y3 & R3 & H3); [exact H2|exact Hh1|lia|]. apply (fin_reach _ _ _ R3).
  edestruct B_done as (y4 & R4 & H4); [exact H3|lia|]. apply (fin_reach _ _ _ R4).
  edestruct B_loop as (y6 & nwd' & R6 & H6); [exact H4|apply le_n|lia|apply Hd|]. apply (fin_reach _ _ _ R6).
  destruct (B_last _ _ _ _ _ _ _ _ H6 Hh2) as (y7 & a & R7 & Q7 & F). exact (fin_last _ _ _ _ R7 Q7 F).
Qed.

(* from the put request to the state in which the EOF PDU is due *)
Lemma to_eof : forall s1 s3,
  pump s1 = (s3, Ok [PMetadata (hdr_of cf TOWARDS_RECEIVER) clo (r_cktype rs) (zlen data) (Some (sn, [x])) []]) ->
  InvAx 0 s3 -> (forall c, 0 <= c <= nfd -> hit ft 0 c = false) ->
  exists y', reach tick (ZG [ft] [] s1 (dst_init cd) [] [] 0 0 0 None None [] []) y' /\ SP (zlen data) (nfd + 1) y'.
Proof.
  intros s1 s3 P HI Hh. assert (HL : 0 <= zlen data) by (unfold zlen; lia).
  destruct (round_md_g s1 s3 P HI (Hh 0 ltac:(pose proof nfd_spec; nia))) as (y1 & R1 & H1).
  destruct (prefix_g (Z.to_nat (zlen data)) 0 y1 ltac:(lia) ltac:(rewrite Z.mul_0_l, Z.min_l by lia; exact H1)
              ltac:(left; reflexivity) ltac:(lia) ltac:(intros c Hc; apply Hh; lia)) as (y2 & R2 & H2).
  exists y2. split; [exact (reach_trans tick _ _ _ R1 R2)|exact H2].
Qed.

Lemma final_verdict_g : forall er y, FinalG er y -> delivered_ok [x] data (y, true) = true /\ y_errs y = er.
Proof.
  intros er y (s & nwd & fs & lgs & lgd & c1 & c2 & rnd & scur & dcur & sdone & ddone & -> & Hs & [S1' S2'] & [D1 D2] & Hl).
  split; [|reflexivity].
  unfold delivered_ok, ZG, RF, evFinD, file_content.
  cbn [y_src y_dst y_errs d_env e_fs e_log]. rewrite Hs, Hl.
  cbn [filter success_event existsb fault_event hd andb orb]. rewrite S2', D2.
  rewrite bytes_eqb_refl. reflexivity.
Qed.

(* without a raised exception the run also passes the verdict of the fault-free runs: no fault event in either log,
   exactly one Transaction-Finished indication of the receiver *)
Lemma final_fault_free_g : forall y, FinalG [] y -> fault_free_ok [x] data (y, true) = true.
Proof.
  intros y F. destruct (final_verdict_g _ _ F) as [Hd He]. unfold fault_free_ok. rewrite Hd. cbn [fst andb]. rewrite He.
  destruct F as (s & nwd & fs & lgs & lgd & c1 & c2 & rnd & scur & dcur & sdone & ddone & -> & Hs & [S1' S2'] & [D1 D2] & Hl).
  unfold ZG, RF, evFinD. cbn [y_src y_dst d_env e_log]. rewrite Hs.
  cbn [filter success_event existsb fault_event negb andb orb]. rewrite S1', D1, D2. reflexivity.
Qed.

(* the whole run *)
Lemma main_g : forall s1 s3,
  pump s1 = (s3, Ok [PMetadata (hdr_of cf TOWARDS_RECEIVER) clo (r_cktype rs) (zlen data) (Some (sn, [x])) []]) ->
  InvAx 0 s3 ->
  (ft = mkFault 0 (nfd + 1) 0 0 \/ ft = mkFault 0 (nfd + 2) 0 0 \/ ft = mkFault 1 0 0 0 \/ ft = mkFault 1 1 0 0) ->
  2 <= r_ack_limit rs -> 2 <= r_ack_limit rd ->
  fin_ok [] (ZG [ft] [] s1 (dst_init cd) [] [] 0 0 0 None None [] []).
Proof.
  intros s1 s3 P HI Hft Hls Hld.
  assert (HN : 0 <= nfd) by (pose proof nfd_spec; assert (0 <= zlen data) by (unfold zlen; lia); nia).
  assert (Hpre : forall c, 0 <= c <= nfd -> hit ft 0 c = false).
  { intros c Hc. destruct Hft as [E|[E|[E|E]]]; rewrite E; rewrite ?hit_00, ?hit_10; try reflexivity; apply Z.eqb_neq; lia. }
  destruct (to_eof s1 s3 P HI Hpre) as (y1 & R1 & H1). apply (fin_reach _ _ _ R1).
  destruct Hft as [E|[E|[E|E]]].
  - apply (fin_A _ _ H1);
      [rewrite E, hit_00; apply Z.eqb_eq; lia | rewrite E, hit_00; apply Z.eqb_neq; lia
      | rewrite E, hit_00; apply Z.eqb_neq; lia | intro c; rewrite E; apply hit_01 | exact Hls].
  - apply (fin_B _ _ H1);
      [rewrite E, hit_00; apply Z.eqb_neq; lia | rewrite E, hit_00; apply Z.eqb_eq; lia
      | rewrite E, hit_00; apply Z.eqb_neq; lia | intro c; rewrite E; apply hit_01 | exact Hld].
  - apply (fin_C _ _ H1);
      [intro c; rewrite E; apply hit_10 | rewrite E; reflexivity
      | intros c Hc; rewrite E, hit_11; apply Z.eqb_neq; lia].
  - apply (fin_D _ _ H1);
      [rewrite E; apply hit_10 | rewrite E; apply hit_10 | rewrite E; reflexivity | rewrite E; reflexivity
      | rewrite E; reflexivity | exact Hld].
Qed.
End SysT.


(* ================================================================== *)
(* 6. property C03, K = 1, control PDUs                                *)
(* ================================================================== *)
(* the strongest form: the run passes the verdict of the fault-free runs (delivery, no exception raised by an API call,
   no fault event in either log, exactly one Transaction-Finished indication on each side) *)
Lemma control_pdu_loss_fault_free :
  forall (cs cd : lcfg) (seq0 bits : Z) (p : putreq) (rs rd : rcfg) (sn dn : path) (data : bytes) (tick : Z) (ft : fault),
  let w := Z.max (l_idw cs) (pr_dstw p) in
  let large := 4294967295 <? zlen data in
  let derived := r_max_packet rs - (4 + 2 * w + bits / 8) - (if large then 8 else 4) - (if r_crc rs then 2 else 0) in
  let seg := match r_max_seg rs with Some m => Z.min m derived | None => derived end in
  get_remote (l_remotes cs) (pr_dst p) = Some rs ->
  pr_names p = Some (sn, dn) -> sn <> [] -> dn <> [] -> pr_msgs p = None ->
  (match pr_mode p with Some m => m | None => r_mode rs end) = ACKED ->
  2 <= r_ack_limit rs -> 2 <= r_ack_limit rd -> 0 < tick ->
  let n := (zlen data + seg - 1) / seg in
  (ft = mkFault 0 (n + 1) 0 0 \/ ft = mkFault 0 (n + 2) 0 0 \/ ft = mkFault 1 0 0 0 \/ ft = mkFault 1 1 0 0) ->
  0 < r_ack_ms rs -> 0 < r_ack_ms rd ->
  (bits = 8 \/ bits = 16 \/ bits = 32) -> 0 <= seq0 < 2 ^ bits -> 1 <= seg -> 6 <= derived ->
  (r_cktype rs = CK_CRC32 \/ r_cktype rs = CK_CRC32C \/ r_cktype rs = CK_NULL \/ r_cktype rs = CK_MODULAR) ->
  bytes_ok data = true ->
  l_id cd = pr_dst p -> get_remote (l_remotes cd) (l_id cs) = Some rd -> length dn = 1%nat ->
  get_fault_handler (l_faults cd) C_CHECKSUM_FAILURE <> None ->
  l_ind_fin cs = true -> l_ind_fin cd = true ->
  exists fuel,
    let res := transfer cs cd seq0 bits p sn data [ft] fuel tick in
    fault_free_ok dn data res = true.
Proof.
  intros cs cd seq0 bits p rs rd sn dn data tick ft w large derived seg
         Hrs Hn Hsn Hdn Hmsgs Hmode Hls Hld Htick n Hft Hacks Hackd Hbits Hseq Hseg Hd6 Hck Hbytes Hid Hrd Hlen
         Hfh Hfs Hfd.
  destruct dn as [|x [|x' dn']]; try discriminate Hlen.
  set (fss := [(sn, File data)]).
  assert (Hlook : lookup fss sn = Some (File data)).
  { destruct sn as [|a sn']; [contradiction|]. unfold fss. cbn [lookup lookup_raw].
    rewrite path_eqb_refl. reflexivity. }
  destruct (ck_agree (r_cktype rs) data seg Hck Hseg) as (cks & C1 & C2).
  set (cf := mkSconf (l_id cs) w (pr_dst p) w seq0 (bits / 8) ACKED large (r_crc rs)).
  set (clo := match pr_closure p with Some b => b | None => r_closure rs end).
  destruct (first_call_a cs seq0 bits fss p rs sn [x] data Hrs Hn Hlook Hmode Hbits Hseq Hseg Hd6)
    as (s1 & s3 & P1 & P2 & HI).
  rewrite Hmsgs in P2.
  assert (Hdst : sc_dst cf = l_id cd) by (symmetry; exact Hid).
  assert (Hdstr : sc_dst cf = r_id rs) by (symmetry; exact (get_remote_id _ _ _ Hrs)).
  assert (Hk : ft_kind ft = 0) by (destruct Hft as [E|[E|[E|E]]]; rewrite E; reflexivity).
  destruct (main_g cs cd p rs rd sn x data cks cf seg tick clo fss ft Hn Hlook Hseg eq_refl C1 C2 Hfs Hfd Hrd Hdst
              Hacks Hackd eq_refl Hdstr Hk Htick s1 s3 P2 HI Hft Hls Hld) as (fuel & y' & Rr & F).
  exists fuel.
  assert (Et : transfer cs cd seq0 bits p sn data [ft] fuel tick = (y', true)).
  { unfold transfer, sys_init. cbn [y_src]. fold fss. rewrite P1. exact Rr. }
  cbv zeta. rewrite Et.
  exact (final_fault_free_g cd x data cf ft y' F).
Qed.

Lemma fault_free_delivered : forall dn data res, fault_free_ok dn data res = true ->
  delivered_ok dn data res = true /\ y_errs (fst res) = [].
Proof.
  intros dn data res H. unfold fault_free_ok in H. cbv zeta in H.
  destruct (delivered_ok dn data res); [|discriminate H]. split; [reflexivity|].
  destruct (y_errs (fst res)); [reflexivity|discriminate H].
Qed.

(* the statement of props/C03r.v: the file is delivered and no API call of either entity has raised an exception
   (no PDU is refused: in none of the four recoveries does a late duplicate reach a handler that must reject it) *)
Lemma control_pdu_loss :
  forall (cs cd : lcfg) (seq0 bits : Z) (p : putreq) (rs rd : rcfg) (sn dn : path) (data : bytes) (tick : Z) (ft : fault),
  let w := Z.max (l_idw cs) (pr_dstw p) in
  let large := 4294967295 <? zlen data in
  let derived := r_max_packet rs - (4 + 2 * w + bits / 8) - (if large then 8 else 4) - (if r_crc rs then 2 else 0) in
  let seg := match r_max_seg rs with Some m => Z.min m derived | None => derived end in
  get_remote (l_remotes cs) (pr_dst p) = Some rs ->
  pr_names p = Some (sn, dn) -> sn <> [] -> dn <> [] -> pr_msgs p = None ->
  (match pr_mode p with Some m => m | None => r_mode rs end) = ACKED ->
  2 <= r_ack_limit rs -> 2 <= r_ack_limit rd -> 0 < tick ->
  let n := (zlen data + seg - 1) / seg in
  (ft = mkFault 0 (n + 1) 0 0 \/ ft = mkFault 0 (n + 2) 0 0 \/ ft = mkFault 1 0 0 0 \/ ft = mkFault 1 1 0 0) ->
  0 < r_ack_ms rs -> 0 < r_ack_ms rd ->
  (bits = 8 \/ bits = 16 \/ bits = 32) -> 0 <= seq0 < 2 ^ bits -> 1 <= seg -> 6 <= derived ->
  (r_cktype rs = CK_CRC32 \/ r_cktype rs = CK_CRC32C \/ r_cktype rs = CK_NULL \/ r_cktype rs = CK_MODULAR) ->
  bytes_ok data = true ->
  l_id cd = pr_dst p -> get_remote (l_remotes cd) (l_id cs) = Some rd -> length dn = 1%nat ->
  get_fault_handler (l_faults cd) C_CHECKSUM_FAILURE <> None ->
  l_ind_fin cs = true -> l_ind_fin cd = true ->
  exists fuel,
    let res := transfer cs cd seq0 bits p sn data [ft] fuel tick in
    delivered_ok dn data res = true /\ y_errs (fst res) = [].
Proof.
  intros cs cd seq0 bits p rs rd sn dn data tick ft w large derived seg
         Hrs Hn Hsn Hdn Hmsgs Hmode Hls Hld Htick n Hft Hacks Hackd Hbits Hseq Hseg Hd6 Hck Hbytes Hid Hrd Hlen
         Hfh Hfs Hfd.
  destruct (control_pdu_loss_fault_free cs cd seq0 bits p rs rd sn dn data tick ft Hrs Hn Hsn Hdn Hmsgs Hmode Hls Hld Htick
              Hft Hacks Hackd Hbits Hseq Hseg Hd6 Hck Hbytes Hid Hrd Hlen Hfh Hfs Hfd) as [fuel H].
  exists fuel. exact (fault_free_delivered _ _ _ H).
Qed.

(* the form in which one idle round lets every pending timer expire (both intervals <= tick) is an instance; since the
   F30 repair the general statement needs no relation between the two timers any more, so this is merely a special case *)
Corollary control_pdu_loss_one_idle_round :
  forall (cs cd : lcfg) (seq0 bits : Z) (p : putreq) (rs rd : rcfg) (sn dn : path) (data : bytes) (tick : Z) (ft : fault),
  let w := Z.max (l_idw cs) (pr_dstw p) in
  let large := 4294967295 <? zlen data in
  let derived := r_max_packet rs - (4 + 2 * w + bits / 8) - (if large then 8 else 4) - (if r_crc rs then 2 else 0) in
  let seg := match r_max_seg rs with Some m => Z.min m derived | None => derived end in
  get_remote (l_remotes cs) (pr_dst p) = Some rs ->
  pr_names p = Some (sn, dn) -> sn <> [] -> dn <> [] -> pr_msgs p = None ->
  (match pr_mode p with Some m => m | None => r_mode rs end) = ACKED ->
  2 <= r_ack_limit rs -> 2 <= r_ack_limit rd -> 0 < tick ->
  let n := (zlen data + seg - 1) / seg in
  (ft = mkFault 0 (n + 1) 0 0 \/ ft = mkFault 0 (n + 2) 0 0 \/ ft = mkFault 1 0 0 0 \/ ft = mkFault 1 1 0 0) ->
  r_ack_ms rs <= tick -> r_ack_ms rd <= tick ->
  0 < r_ack_ms rs -> 0 < r_ack_ms rd ->
  (bits = 8 \/ bits = 16 \/ bits = 32) -> 0 <= seq0 < 2 ^ bits -> 1 <= seg -> 6 <= derived ->
  (r_cktype rs = CK_CRC32 \/ r_cktype rs = CK_CRC32C \/ r_cktype rs = CK_NULL \/ r_cktype rs = CK_MODULAR) ->
  bytes_ok data = true ->
  l_id cd = pr_dst p -> get_remote (l_remotes cd) (l_id cs) = Some rd -> length dn = 1%nat ->
  get_fault_handler (l_faults cd) C_CHECKSUM_FAILURE <> None ->
  l_ind_fin cs = true -> l_ind_fin cd = true ->
  exists fuel,
    let res := transfer cs cd seq0 bits p sn data [ft] fuel tick in
    delivered_ok dn data res = true /\ y_errs (fst res) = [].
Proof.
  intros cs cd seq0 bits p rs rd sn dn data tick ft w large derived seg
         Hrs Hn Hsn Hdn Hmsgs Hmode Hls Hld Htick n Hft Hts Htd Hacks Hackd.
  apply control_pdu_loss; assumption.
Qed.

(* the configuration that was the counterexample before fix 179debf of the Python code (finding F30): lost ACK (EOF), the
   receiver's Positive-ACK timer (1000 ms) expires in earlier idle rounds than the sender's (5000 ms), idle rounds of
   1000 ms, limits 2.  Then the sender refused the Finished PDU while it waited for the ACK (EOF) (PduIgnoredForSource),
   the receiver re-sent it into the same refusal until its Positive ACK Limit was reached and gave the transaction up,
   and the sender was left waiting for a Finished PDU forever; the theorem needed the hypothesis that the sender's timer
   does not expire later than the receiver's.  Now the sender takes the Finished PDU for the lost ACK (EOF): the file is
   delivered after 6 rounds, neither clock has advanced (no timer expiry), no exception, no fault event. *)
Example ack_eof_timer_example :
  let rs := mkRcfg 2 2 (Some 4) 64 false false ACKED CK_CRC32 5000 2 2 false false 1000 2 in
  let rd := mkRcfg 1 2 (Some 4) 64 false false ACKED CK_CRC32 1000 2 2 false false 1000 2 in
  let cs := mkLcfg 1 2 true true true true default_fault_table 1000 [rs] in
  let cd := mkLcfg 2 2 true true true true default_fault_table 1000 [rd] in
  let data := map (fun i => (7 * Z.of_nat i + 3) mod 256) (seq 0 3) in
  let res fuel := transfer cs cd 0 16 (mkPut 2 2 None None (Some ([1], [2])) None) [1] data [mkFault 1 0 0 0] fuel 1000 in
  forallb (fun fuel => negb (snd (res fuel))) (seq 0 6) = true /\
  forallb (fun fuel => fault_free_ok [2] data (res fuel)) (seq 6 58) = true /\
  y_round (fst (res 64%nat)) = 6 /\
  e_now (s_env (y_src (fst (res 64%nat)))) = 0 /\ e_now (d_env (y_dst (fst (res 64%nat)))) = 0 /\
  d_state (y_dst (fst (res 64%nat))) = ST_IDLE /\ s_state (y_src (fst (res 64%nat))) = ST_IDLE /\
  y_errs (fst (res 64%nat)) = [].
Proof. vm_compute. repeat split; reflexivity. Qed.
