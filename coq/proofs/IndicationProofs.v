(* IndicationProofs.v — proofs for property C15 (props/C15.v): user indications are faithful,
   causally ordered and gated by the local configuration.

   Method for the gating theorems: one compositional predicate [Gate log cfg P c m] on monadic
   computations,
     "started on a state whose configuration is c, m only pushes events e with P c e = true on
      the head of the log, and leaves the configuration alone",
   closed under ret / raise / bind / when / catch / fold_left / case analysis, and one tactic
   ([gate]) that walks through the model code.  Instances: P = gated (the switches), and
   P = "is a fault callback" (for the ordering statements). *)
From CFDP Require Import Base LostSeg Fs Crc Checksum Handler Dest Source HandlerSpec.
From CFDP.gen Require Import Tables.
From RecordUpdate Require Import RecordSet.
Import RecordSetNotations.
Open Scope monad_scope.

Local Opaque calculate_checksum.

(* local copies of the vocabulary of props/C15.v (same bodies) *)
Definition gated (c : lcfg) (e : event) : bool :=
  match e with
  | EvEofSent _ _ => l_ind_eof_sent c
  | EvEofRecv _ _ => l_ind_eof_recv c
  | EvSegmentRecv _ _ _ _ => l_ind_seg c
  | EvFinished _ _ _ _ _ _ => l_ind_fin c
  | _ => true
  end.
Definition extends {A} (l' l : list A) : Prop := exists new, l' = new ++ l.

Definition is_fault (e : event) : bool := match e with EvFault _ _ _ _ _ => true | _ => false end.
Definition only_faults (c : lcfg) (e : event) : bool := is_fault e.

(* ------------------------------------------------------------------ the predicate *)
Section GateSec.
  Context {S C : Type}.
  Variable log : S -> list event.
  Variable cfg : S -> C.
  Variable P : C -> event -> bool.
  Variable c : C.

  Definition Grow (s s' : S) : Prop :=
    exists new, log s' = new ++ log s /\ forallb (P c) new = true /\ cfg s' = c.

  Definition Gate {A} (m : M S A) : Prop := forall s, cfg s = c -> Grow s (fst (m s)).

  Lemma grow_refl : forall s, cfg s = c -> Grow s s.
  Proof. intros s H. exists []. split; [reflexivity | split; [reflexivity | exact H]]. Qed.

  Lemma grow_trans : forall s1 s2 s3, Grow s1 s2 -> Grow s2 s3 -> Grow s1 s3.
  Proof.
    intros s1 s2 s3 [n1 [H1 [H2 H3]]] [n2 [K1 [K2 K3]]].
    exists (n2 ++ n1). split; [|split].
    - rewrite K1, H1. apply app_assoc.
    - rewrite forallb_app, K2, H2. reflexivity.
    - exact K3.
  Qed.

  Lemma grow_cfg : forall s s', Grow s s' -> cfg s' = c.
  Proof. intros s s' [n [_ [_ H]]]. exact H. Qed.

  Lemma gate_ret {A} (a : A) : Gate (ret a).
  Proof. intros s H. apply grow_refl, H. Qed.

  Lemma gate_raise {A} (e : Z) : Gate (@raise S A e).
  Proof. intros s H. apply grow_refl, H. Qed.

  Lemma gate_get : Gate (@get S).
  Proof. intros s H. apply grow_refl, H. Qed.

  Lemma gate_gets {A} (f : S -> A) : Gate (gets f).
  Proof. intros s H. apply grow_refl, H. Qed.

  (* a modification that touches neither the log nor the configuration *)
  Lemma gate_modify (f : S -> S) : (forall s, log (f s) = log s /\ cfg (f s) = cfg s) -> Gate (modify f).
  Proof.
    intros Hf s H. destruct (Hf s) as [H1 H2]. unfold modify; cbn [fst]. exists []. split; [exact H1 | split; [reflexivity | congruence]].
  Qed.

  (* a modification that pushes one admissible event *)
  Lemma gate_push (f : S -> S) (e : event) :
    P c e = true -> (forall s, log (f s) = e :: log s /\ cfg (f s) = cfg s) -> Gate (modify f).
  Proof.
    intros He Hf s H. destruct (Hf s) as [H1 H2]. unfold modify; cbn [fst]. exists [e]. split; [exact H1|]. split; [|congruence].
    cbn [forallb]. rewrite He. reflexivity.
  Qed.

  Lemma gate_bind {A B} (m : M S A) (f : A -> M S B) :
    Gate m -> (forall a, Gate (f a)) -> Gate (bind m f).
  Proof.
    intros Hm Hf s H. unfold bind. specialize (Hm s H).
    destruct (m s) as [s1 [a|e]]; cbn [fst] in *; [|exact Hm].
    eapply grow_trans; [exact Hm|]. apply Hf. eapply grow_cfg, Hm.
  Qed.

  (* reading the configuration yields c *)
  Lemma gate_bind_cfg {B} (f : C -> M S B) : Gate (f c) -> Gate (bind (gets cfg) f).
  Proof. intros Hf s H. unfold bind, gets. rewrite H. apply Hf, H. Qed.

  (* s <- get ;; put (g s) ;;; k s *)
  Lemma gate_get_put {B} (g : S -> S) (k : S -> M S B) :
    (forall s, log (g s) = log s /\ cfg (g s) = cfg s) -> (forall s0, Gate (k s0)) ->
    Gate (bind get (fun s => bind (put (g s)) (fun _ => k s))).
  Proof.
    intros Hg Hk s H. unfold bind, get, put. destruct (Hg s) as [H1 H2].
    eapply grow_trans; [|apply Hk; congruence].
    exists []. split; [exact H1 | split; [reflexivity | congruence]].
  Qed.

  Lemma gate_when (b : bool) (m : M S unit) : (b = true -> Gate m) -> Gate (when b m).
  Proof. intro Hm. unfold when. destruct b; [apply Hm; reflexivity | apply gate_ret]. Qed.

  Lemma gate_catch {A} (m : M S A) (h : Z -> option (M S A)) :
    Gate m -> (forall e k, h e = Some k -> Gate k) -> Gate (catch m h).
  Proof.
    intros Hm Hh s H. unfold catch. specialize (Hm s H).
    destruct (m s) as [s1 [a|e]]; cbn [fst] in *; [exact Hm|].
    destruct (h e) as [k|] eqn:Hk; [|exact Hm].
    eapply grow_trans; [exact Hm|]. apply (Hh e k Hk). eapply grow_cfg, Hm.
  Qed.

  Lemma gate_fold {B} (g : B -> M S unit) (l : list B) : forall m0,
    Gate m0 -> (forall b, Gate (g b)) -> Gate (fold_left (fun m b => bind m (fun _ => g b)) l m0).
  Proof.
    induction l as [|b l IH]; intros m0 H0 Hg; cbn [fold_left]; [exact H0|].
    apply IH; [|exact Hg]. apply gate_bind; [exact H0 | intros _; apply Hg].
  Qed.

  (* running a bind whose first part is gated *)
  Lemma gate_bind_run {A B} (m : M S A) (f : A -> M S B) s0 s s' b :
    Gate m -> Grow s0 s -> bind m f s = (s', Ok b) -> exists a s1, Grow s0 s1 /\ f a s1 = (s', Ok b).
  Proof.
    intros Hm G H. unfold bind in H. specialize (Hm s (grow_cfg _ _ G)).
    destruct (m s) as [s1 [a|e]]; cbn [fst] in Hm; [|discriminate H].
    exists a, s1. split; [eapply grow_trans; eassumption | exact H].
  Qed.
End GateSec.

(* ------------------------------------------------------------------ the walking tactic *)
Create HintDb gate discriminated.

Ltac ghead t := match t with ?f _ => ghead f | _ => t end.

(* side conditions: frame of a modification / admissibility of the pushed event *)
Ltac gframe := intros; split; reflexivity.
Ltac gadm := first [ reflexivity | assumption | (cbn; assumption) ].

Ltac ghandler :=
  let e := fresh "e" in let k := fresh "k" in let Hh := fresh "Hh" in
  intros e k Hh; cbv beta in Hh;
  match type of Hh with
  | (if ?c then Some _ else None) = Some _ => destruct c; [inversion Hh; subst k; clear Hh | discriminate Hh]
  end.

Ltac gate_step :=
  cbv beta zeta;
  match goal with
  | |- Gate _ _ _ _ _ => solve [auto with gate nocore]
  | |- Gate _ ?cfg _ _ (bind (gets ?cfg) _) => apply gate_bind_cfg
  | |- Gate _ _ _ _ (bind get (fun s => bind (put (@?g s)) (fun _ => @?k s))) =>
      apply (gate_get_put _ _ _ _ g k); [gframe | intro]
  | |- Gate _ _ _ _ (bind _ _) => apply gate_bind; [|intro]
  | |- Gate _ _ _ _ (ret _) => apply gate_ret
  | |- Gate _ _ _ _ (raise _) => apply gate_raise
  | |- Gate _ _ _ _ get => apply gate_get
  | |- Gate _ _ _ _ (gets _) => apply gate_gets
  | |- Gate _ _ _ _ (emit ?e) => unfold emit; apply (gate_push _ _ _ _ _ e); [gadm | gframe]
  | |- Gate _ _ _ _ (semit ?e) => unfold semit; apply (gate_push _ _ _ _ _ e); [gadm | gframe]
  | |- Gate _ _ _ _ (modify _) => apply gate_modify; gframe
  | |- Gate _ _ _ _ (when _ _) => apply gate_when; intro
  | |- Gate _ _ _ _ (catch _ _) => apply gate_catch; [|ghandler]
  | |- Gate _ _ _ _ (fold_left _ _ _) => apply gate_fold; [|intro]
  | |- Gate _ _ _ _ (if ?b then _ else _) => destruct b
  | |- Gate _ _ _ _ (match ?x with _ => _ end) => destruct x
  | |- Gate _ _ _ _ ?m => let h := ghead m in unfold h
  end.
Ltac gate := repeat gate_step.

(* ------------------------------------------------------------------ destination handler *)
(* handle_fd_pdu after the File-Segment-Recv indication *)
Definition fd_tail (offset : Z) (data : bytes) : D unit :=
  catch
    (let next_expected := offset + zlen data in
     acked <- mode_is ACKED ;;
     when acked (lost_segment_handling offset (zlen data)) ;;;
     name <- gp p_file_name ;;
     vfs_write name data offset ;;;
     setp (fun p => p <| p_fin ::= (fun f => f <| f_fstatus := FS_RETAINED |>) |>) ;;;
     eof <- gp p_file_size_eof ;;
     stop <-
       (match eof with
        | Some sz =>
            if sz <? offset + zlen data then
              (fh <- declare_fault C_FILE_SIZE_ERROR ;; ret (negb (fh =? FH_IGNORE)))
            else ret false
        | None => ret false
        end) ;;
     if stop then ret tt
     else setp (fun p => p <| p_progress ::= Z.max next_expected |>))
    (fun e => if (e =? E_FILE_NOT_FOUND) || (e =? E_PERMISSION) then Some filestore_rejection else None).

Lemma handle_fd_pdu_eq : forall off data,
  handle_fd_pdu off data =
  (c <- gets d_cfg ;;
   when (l_ind_seg c)
     (t <- gp p_tid ;;
      let '(src, seq) := match t with Some x => x | None => (-1, -1) end in
      emit (EvSegmentRecv src seq off (zlen data))) ;;;
   fd_tail off data).
Proof. reflexivity. Qed.

Section DestGate.
  Variable P : lcfg -> event -> bool.
  Variable c : lcfg.
  Hypothesis P_fault : forall k a b cond pr, P c (EvFault k a b cond pr) = true.
  Hypothesis P_md : forall a b sid fsz names msgs, P c (EvMetadataRecv a b sid fsz names msgs) = true.
  Hypothesis P_seg : forall a b o l, l_ind_seg c = true -> P c (EvSegmentRecv a b o l) = true.
  Hypothesis P_eof : forall a b, l_ind_eof_recv c = true -> P c (EvEofRecv a b) = true.
  Hypothesis P_fin : forall a b cd dl fs fl, l_ind_fin c = true -> P c (EvFinished a b cd dl fs fl) = true.

  Notation DG m := (Gate log_d d_cfg P c m).

  Ltac gadm ::= first [ apply P_fault | apply P_md | (apply P_seg; assumption) | (apply P_eof; assumption)
                      | (apply P_fin; assumption) ].

  Lemma dg_declare_fault : forall cond, DG (declare_fault cond).
  Proof. intro. gate. Qed.
  #[local] Hint Resolve dg_declare_fault : gate.

  Lemma dg_checksum_verify : DG checksum_verify.
  Proof. gate. Qed.
  #[local] Hint Resolve dg_checksum_verify : gate.

  Lemma dg_add_packet : forall p, DG (add_packet p).
  Proof. intro. gate. Qed.
  #[local] Hint Resolve dg_add_packet : gate.

  Lemma dg_deferred_lost_segment_handling : DG deferred_lost_segment_handling.
  Proof. gate. Qed.
  #[local] Hint Resolve dg_deferred_lost_segment_handling : gate.

  Lemma dg_start_deferred_lost_segment_handling : DG start_deferred_lost_segment_handling.
  Proof. gate. Qed.
  #[local] Hint Resolve dg_start_deferred_lost_segment_handling : gate.

  Lemma dg_fsm_advancement : DG fsm_advancement.
  Proof. gate. Qed.
  #[local] Hint Resolve dg_fsm_advancement : gate.

  Lemma dg_common_first_packet_handler : forall h, DG (common_first_packet_handler h).
  Proof.
    intros h s H. unfold common_first_packet_handler, bind, get, put, ret.
    destruct (negb (d_state s =? ST_IDLE)); cbn [fst]; exists []; (split; [reflexivity | split; [reflexivity | exact H]]).
  Qed.
  #[local] Hint Resolve dg_common_first_packet_handler : gate.

  Lemma dg_file_transfer_complete_transition : DG file_transfer_complete_transition.
  Proof. gate. Qed.
  #[local] Hint Resolve dg_file_transfer_complete_transition : gate.

  Lemma dg_lost_segment_handling : forall o l, DG (lost_segment_handling o l).
  Proof. intros. gate. Qed.
  #[local] Hint Resolve dg_lost_segment_handling : gate.

  Lemma dg_filestore_rejection : DG filestore_rejection.
  Proof. gate. Qed.
  #[local] Hint Resolve dg_filestore_rejection : gate.

  Lemma dg_fd_tail : forall o d, DG (fd_tail o d).
  Proof. intros. gate. Qed.

  Lemma dg_handle_fd_pdu : forall o d, DG (handle_fd_pdu o d).
  Proof. intros. gate. Qed.
  #[local] Hint Resolve dg_handle_fd_pdu : gate.

  Lemma dg_handle_no_error_eof : DG handle_no_error_eof.
  Proof. gate. Qed.
  #[local] Hint Resolve dg_handle_no_error_eof : gate.

  Lemma dg_handle_eof_pdu : forall cd ck sz, DG (handle_eof_pdu cd ck sz).
  Proof. intros. gate. Qed.
  #[local] Hint Resolve dg_handle_eof_pdu : gate.

  Lemma dg_init_vfs_handling : forall b, DG (init_vfs_handling b).
  Proof. intros. gate. Qed.
  #[local] Hint Resolve dg_init_vfs_handling : gate.

  Lemma dg_handle_metadata_packet : forall h cl ck sz names msgs, DG (handle_metadata_packet h cl ck sz names msgs).
  Proof. intros. gate. Qed.
  #[local] Hint Resolve dg_handle_metadata_packet : gate.

  Lemma dg_handle_eof_without_previous_metadata : forall c ck sz, DG (handle_eof_without_previous_metadata c ck sz).
  Proof. intros. gate. Qed.
  #[local] Hint Resolve dg_handle_eof_without_previous_metadata : gate.

  Lemma dg_handle_fd_without_previous_metadata : forall f o d, DG (handle_fd_without_previous_metadata f o d).
  Proof. intros. gate. Qed.
  #[local] Hint Resolve dg_handle_fd_without_previous_metadata : gate.

  Lemma dg_idle_fsm : forall pkt, DG (idle_fsm pkt).
  Proof. intros. gate. Qed.
  #[local] Hint Resolve dg_idle_fsm : gate.

  Lemma dg_handle_waiting_for_missing_metadata : forall pkt, DG (handle_waiting_for_missing_metadata pkt).
  Proof. intros. gate. Qed.
  #[local] Hint Resolve dg_handle_waiting_for_missing_metadata : gate.

  Lemma dg_check_limit_handling : DG check_limit_handling.
  Proof. gate. Qed.
  #[local] Hint Resolve dg_check_limit_handling : gate.

  Lemma dg_notice_of_completion : DG notice_of_completion.
  Proof. gate. Qed.
  #[local] Hint Resolve dg_notice_of_completion : gate.

  Lemma dg_handle_transfer_completion : DG handle_transfer_completion.
  Proof. gate. Qed.
  #[local] Hint Resolve dg_handle_transfer_completion : gate.

  Lemma dg_prepare_finished_pdu : DG prepare_finished_pdu.
  Proof. gate. Qed.
  #[local] Hint Resolve dg_prepare_finished_pdu : gate.

  Lemma dg_handle_finished_pdu_sent : DG handle_finished_pdu_sent.
  Proof. gate. Qed.
  #[local] Hint Resolve dg_handle_finished_pdu_sent : gate.

  Lemma dg_handle_waiting_for_finished_ack : forall again pkt,
    DG again -> DG (handle_waiting_for_finished_ack again pkt).
  Proof. intros again pkt Hagain. gate. Qed.

  Lemma dg_non_idle_fsm : forall fuel pkt, DG (non_idle_fsm fuel pkt).
  Proof.
    induction fuel as [|k IH]; intro pkt; cbn [non_idle_fsm]; gate;
      apply dg_handle_waiting_for_finished_ack; gate.
  Qed.
  #[local] Hint Resolve dg_non_idle_fsm : gate.

  Lemma dg_check_inserted_packet : forall p, DG (check_inserted_packet p).
  Proof. intro. gate. Qed.
  #[local] Hint Resolve dg_check_inserted_packet : gate.

  Lemma dg_state_machine : forall pkt, DG (Dest.state_machine pkt).
  Proof. intro. gate. Qed.
End DestGate.

(* ------------------------------------------------------------------ source handler *)
Section SourceGate.
  Variable P : lcfg -> event -> bool.
  Variable c : lcfg.
  Hypothesis P_fault : forall k a b cond pr, P c (EvFault k a b cond pr) = true.
  Hypothesis P_tx : forall a b o, P c (EvTransaction a b o) = true.
  Hypothesis P_eof : forall a b, l_ind_eof_sent c = true -> P c (EvEofSent a b) = true.
  Hypothesis P_fin : forall a b cd dl fs fl, l_ind_fin c = true -> P c (EvFinished a b cd dl fs fl) = true.

  Notation SG m := (Gate log_s s_cfg P c m).

  Ltac gadm ::= first [ apply P_fault | apply P_tx | (apply P_eof; assumption) | (apply P_fin; assumption) ].

  Lemma sg_checksum_calculation : forall size, SG (checksum_calculation size).
  Proof. intro. gate. Qed.
  #[local] Hint Resolve sg_checksum_calculation : gate.

  Lemma sg_sadd_packet : forall p, SG (sadd_packet p).
  Proof. intro. gate. Qed.
  #[local] Hint Resolve sg_sadd_packet : gate.

  Lemma sg_prepare_file_data_pdu : forall o l, SG (prepare_file_data_pdu o l).
  Proof. intros. gate. Qed.
  #[local] Hint Resolve sg_prepare_file_data_pdu : gate.

  Lemma sg_prepare_metadata_pdu : SG prepare_metadata_pdu.
  Proof. gate. Qed.
  #[local] Hint Resolve sg_prepare_metadata_pdu : gate.

  Lemma sg_prepare_eof_pdu : forall ck, SG (prepare_eof_pdu ck).
  Proof. intro. gate. Qed.
  #[local] Hint Resolve sg_prepare_eof_pdu : gate.

  Lemma sg_handle_eof_sent : forall b, SG (handle_eof_sent b).
  Proof. intro. gate. Qed.
  #[local] Hint Resolve sg_handle_eof_sent : gate.

  Lemma sg_notice_of_cancellation_s : forall cd, SG (notice_of_cancellation_s cd).
  Proof. intro. gate. Qed.
  #[local] Hint Resolve sg_notice_of_cancellation_s : gate.

  Lemma sg_declare_fault_s : forall cd, SG (declare_fault_s cd).
  Proof. intro. gate. Qed.
  #[local] Hint Resolve sg_declare_fault_s : gate.

  Lemma sg_transaction_start : SG transaction_start.
  Proof. gate. Qed.
  #[local] Hint Resolve sg_transaction_start : gate.

  Lemma sg_retransmit_chunks : forall fuel o m seg, SG (retransmit_chunks fuel o m seg).
  Proof. induction fuel; intros; cbn [retransmit_chunks]; gate. Qed.
  #[local] Hint Resolve sg_retransmit_chunks : gate.

  Lemma sg_handle_segment_req : forall rq, SG (handle_segment_req rq).
  Proof. intro. gate. Qed.
  #[local] Hint Resolve sg_handle_segment_req : gate.

  Lemma sg_handle_retransmission : forall pkt, SG (handle_retransmission pkt).
  Proof. intro. gate. Qed.
  #[local] Hint Resolve sg_handle_retransmission : gate.

  Lemma sg_sending_file_data_fsm : forall pkt, SG (sending_file_data_fsm pkt).
  Proof. intro. gate. Qed.
  #[local] Hint Resolve sg_sending_file_data_fsm : gate.

  Lemma sg_handle_positive_ack_procedures_s : SG handle_positive_ack_procedures_s.
  Proof. gate. Qed.
  #[local] Hint Resolve sg_handle_positive_ack_procedures_s : gate.

  Lemma sg_handle_waiting_for_ack : forall pkt, SG (handle_waiting_for_ack pkt).
  Proof. intro. gate. Qed.
  #[local] Hint Resolve sg_handle_waiting_for_ack : gate.

  Lemma sg_handle_wait_for_finish : forall pkt, SG (handle_wait_for_finish pkt).
  Proof. intro. gate. Qed.
  #[local] Hint Resolve sg_handle_wait_for_finish : gate.

  Lemma sg_notice_of_completion_s : SG notice_of_completion_s.
  Proof. gate. Qed.
  #[local] Hint Resolve sg_notice_of_completion_s : gate.

  Lemma sg_fsm_advancement_s : SG fsm_advancement_s.
  Proof. gate. Qed.
  #[local] Hint Resolve sg_fsm_advancement_s : gate.

  Lemma sg_fsm_non_idle : forall pkt, SG (fsm_non_idle pkt).
  Proof. intro. gate. Qed.
  #[local] Hint Resolve sg_fsm_non_idle : gate.

  Lemma sg_check_inserted_packet_s : forall p, SG (check_inserted_packet_s p).
  Proof. intro. gate. Qed.
  #[local] Hint Resolve sg_check_inserted_packet_s : gate.

  Lemma sg_state_machine_s : forall pkt, SG (state_machine_s pkt).
  Proof. intro. gate. Qed.

  Lemma sg_cancel_request_s : forall a b, SG (cancel_request_s a b).
  Proof. intros. gate. Qed.
End SourceGate.

(* ------------------------------------------------------------------ C15: gating *)
Lemma dest_gated : forall pkt s,
  exists new, log_d (fst (Dest.state_machine pkt s)) = new ++ log_d s /\ forallb (gated (d_cfg s)) new = true.
Proof.
  intros pkt s.
  destruct (dg_state_machine gated (d_cfg s)) with (pkt := pkt) (s := s) as [new [H1 [H2 _]]];
    try reflexivity; try (intros; assumption).
  exists new. split; assumption.
Qed.

Lemma source_gated : forall pkt s,
  exists new, log_s (fst (state_machine_s pkt s)) = new ++ log_s s /\ forallb (gated (s_cfg s)) new = true.
Proof.
  intros pkt s.
  destruct (sg_state_machine_s gated (s_cfg s)) with (pkt := pkt) (s := s) as [new [H1 [H2 _]]];
    try reflexivity; try (intros; assumption).
  exists new. split; assumption.
Qed.

Lemma dest_cancel_log : forall a b sd, log_d (fst (Dest.cancel_request a b sd)) = log_d sd.
Proof.
  intros a b sd. unfold Dest.cancel_request, bind, get, ret, raise.
  destruct (d_state sd =? ST_IDLE); [reflexivity|].
  destruct (0 <? d_ready sd); [reflexivity|].
  destruct (p_tid (d_p sd)) as [[x y]|]; [|reflexivity].
  destruct ((x =? a) && (y =? b)); reflexivity.
Qed.

Lemma cancel_gated : forall a b s sd,
  (exists new, log_s (fst (cancel_request_s a b s)) = new ++ log_s s /\ forallb (gated (s_cfg s)) new = true) /\
  log_d (fst (Dest.cancel_request a b sd)) = log_d sd.
Proof.
  intros a b s sd. split; [|apply dest_cancel_log].
  destruct (sg_cancel_request_s gated (s_cfg s)) with (a := a) (b := b) (s := s) as [new [H1 [H2 _]]];
    try reflexivity; try (intros; assumption).
  exists new. split; assumption.
Qed.

(* ------------------------------------------------------------------ C15: File-Segment-Recv *)
Lemma segment_params : forall off data s a b,
  l_ind_seg (d_cfg s) = true -> p_tid (d_p s) = Some (a, b) ->
  exists evs, log_d (fst (handle_fd_pdu off data s)) = evs ++ EvSegmentRecv a b off (zlen data) :: log_d s /\
              forallb (fun e => match e with EvFault _ _ _ _ _ => true | _ => false end) evs = true.
Proof.
  intros off data s a b Hs Ht.
  set (s1 := s <| d_env ::= (fun en => en <| e_log ::= cons (EvSegmentRecv a b off (zlen data)) |>) |>).
  assert (E : handle_fd_pdu off data s = fd_tail off data s1).
  { rewrite handle_fd_pdu_eq. unfold bind at 1, gets at 1. rewrite Hs. unfold when.
    unfold bind at 1 2. unfold gp, gets at 1. rewrite Ht. reflexivity. }
  rewrite E.
  destruct (dg_fd_tail only_faults (d_cfg s) (fun _ _ _ _ _ => eq_refl) off data s1 eq_refl) as [evs [H1 [H2 _]]].
  exists evs. split; [exact H1 | exact H2].
Qed.

(* ------------------------------------------------------------------ C15: Metadata-Recv *)
(* the filestore set-up never touches the log or the transaction id: its PermissionError handler is dead code,
   truncate/create only fail with FileNotFoundError / IsADirectoryError *)
Lemma init_vfs_frame : forall base s,
  log_d (fst (init_vfs_handling base s)) = log_d s /\ p_tid (d_p (fst (init_vfs_handling base s))) = p_tid (d_p s).
Proof.
  intros base s.
  unfold init_vfs_handling, vfs_op_tree, gp, setp, catch, bind, gets, modify, ret, raise.
  cbv beta iota zeta.
  destruct (fs_file_exists _ _).
  - unfold fs_truncate_file. destruct (lookup _ _) as [[d|]|]; cbn; split; reflexivity.
  - cbn. split; reflexivity.
Qed.

Definition tidf (s : dst) : option (Z * Z) := p_tid (d_p s).
Definition nof (c : option (Z * Z)) (e : event) : bool := false.
Notation TG c m := (Gate log_d tidf nof c m).

Lemma grow_nof : forall c s s', Grow log_d tidf nof c s s' -> log_d s' = log_d s /\ p_tid (d_p s') = c.
Proof.
  intros c s s' [new [H1 [H2 H3]]]. destruct new as [|e new]; [|discriminate H2].
  split; [exact H1 | exact H3].
Qed.

Lemma tg_init_vfs_handling : forall c base, TG c (init_vfs_handling base).
Proof.
  intros c base s Hs. destruct (init_vfs_frame base s) as [F1 F2].
  exists []. split; [exact F1 | split; [reflexivity|]]. unfold tidf in *. rewrite F2. exact Hs.
Qed.
#[local] Hint Resolve tg_init_vfs_handling : gate.

Ltac grun H G :=
  match type of G with Grow ?lg ?cf ?P ?c _ _ =>
  match type of H with bind ?m ?f _ = _ =>
    let Hm := fresh in assert (Hm : Gate lg cf P c m) by gate;
    apply (gate_bind_run lg cf P c m f _ _ _ _ Hm G) in H; clear Hm G
  end end.

Lemma metadata_params : forall h cl ck sz names msgs s a b s',
  p_tid (d_p s) = Some (a, b) -> handle_metadata_packet h cl ck sz names msgs s = (s', Ok tt) ->
  exists evs, log_d s' = EvMetadataRecv a b (h_src h) (match names with Some _ => Some sz | None => None end) names msgs
                          :: evs ++ log_d s /\
              forallb (fun e => match e with EvFault _ _ _ _ _ => true | _ => false end) evs = true.
Proof.
  intros h cl ck sz names msgs s a b s' Ht H.
  exists []. split; [|reflexivity]. cbn [app].
  assert (G : Grow log_d tidf nof (Some (a, b)) s s) by (apply grow_refl; exact Ht).
  unfold handle_metadata_packet in H.
  grun H G. destruct H as [u1 [s1 [G H]]].
  grun H G. destruct H as [u2 [s2 [G H]]].
  grun H G. destruct H as [u3 [s3 [G H]]].
  grun H G. destruct H as [r [s4 [G H]]].
  destruct r as [r|]; [|discriminate H].
  grun H G. destruct H as [mdo [s5 [G H]]].
  grun H G. destruct H as [u6 [s6 [G H]]].
  apply grow_nof in G. destruct G as [G1 G2].
  unfold bind, gp, gets in H. rewrite G2 in H. cbv beta iota in H.
  unfold emit, modify in H. inversion H; subst s'; clear H.
  unfold log_d in *. cbn. rewrite G1. reflexivity.
Qed.

(* ------------------------------------------------------------------ C15: Transaction-Finished at the receiver *)
(* a run of the body of state_machine that ends normally passes through the try / except of state_machine *)
Lemma sm_none_run : forall (m : D unit) s s',
  m s = (s', Ok tt) -> ((ret tt : D unit) ;;; catch_abandoned m) s = (s', Ok tt).
Proof.
  intros m s s' H. unfold catch_abandoned, catch, bind at 1, ret at 1. rewrite H. reflexivity.
Qed.

Lemma completion_reports_finished_pdu : forall s r a b,
  d_state s = ST_BUSY -> d_step s = DS_TRANSFER_COMPLETION -> d_queue s = [] -> d_ready s = 0 ->
  p_rcfg (d_p s) = Some r -> p_tid (d_p s) = Some (a, b) -> 0 < r_ack_ms r -> l_ind_fin (d_cfg s) = true ->
  (h_mode (p_conf (d_p s)) = ACKED \/ (h_mode (p_conf (d_p s)) = UNACKED /\ p_closure (d_p s) = true)) ->
  exists s' c dl fs fl,
    Dest.state_machine None s = (s', Ok tt) /\
    log_d s' = EvFinished a b c dl fs fl :: log_d s /\
    d_queue s' = [PFinished (set_dir TOWARDS_SENDER (p_conf (d_p s))) c dl fs fl].
Proof.
  intros s r a b Hst Hstep Hq Hrd Hr Ht Hack Hfin Hmode.
  destruct s as [cfg st step stid ready q p env]. destruct env as [nw fs rw lg].
  destruct p as [tid rc ct cc clo ckt fin disp conf prog crc fsz fname fseof mdo trk mdm ls le dfr pt nc atm ac].
  destruct fin as [dl fstat cd fl]. destruct conf as [dir mode crcf large src dstid idw seq seqw].
  destruct cfg as [lid lidw ies ier iseg ifin faults chk rem].
  cbn in Hst, Hstep, Hq, Hrd, Hr, Ht, Hfin, Hmode. subst.
  destruct r as [rid ridw rms rmp rcl rcrc rmode rck rackms racklim rchk rdisp rimm rnakms rnaklim].
  cbn in Hack.
  unfold Dest.state_machine. cbv iota.
  assert (Hleb : (rackms <=? 0) = false) by (apply Z.leb_gt; exact Hack).
  destruct Hmode as [Hm|[Hm Hc]]; subst;
    (destruct disp as [|[p|p|]|p];
     [ | | | destruct rdisp; [destruct dl as [|[p|p|]|p]|] | ]);
    (do 5 eexists; split;
     [ apply sm_none_run; cbn; try (unfold timed_out; cbn [Datatypes.fst Datatypes.snd]; rewrite Z.sub_diag, Hleb; cbn [negb]); reflexivity
     | split; reflexivity ]).
Qed.

(* ------------------------------------------------------------------ C15: Transaction-Finished at the sender *)
Lemma source_finished_copies_pdu : forall s a b,
  l_ind_fin (s_cfg s) = true -> q_tid (s_p s) = Some (a, b) ->
  exists s', notice_of_completion_s s = (s', Ok tt) /\ s_state s' = ST_IDLE /\
    log_s s' = (match q_fin (s_p s) with
                | Some (c, d, f, fl) => EvFinished a b c d f fl
                | None => EvFinished a b C_NO_ERROR DATA_COMPLETE FS_UNREPORTED None end) :: log_s s.
Proof.
  intros s a b Hf Ht.
  unfold notice_of_completion_s, stid_or_assert, gq.
  unfold bind at 1, gets at 1. rewrite Hf. unfold when.
  unfold bind, gets. rewrite Ht. unfold ret, setq, semit, sreset_internal, modify. cbv beta iota.
  destruct (q_fin (s_p s)) as [[[[c d] f] fl]|]; cbv beta iota;
    (eexists; split; [reflexivity | split; reflexivity]).
Qed.

(* ------------------------------------------------------------------ C15: Transaction-Finished of the cancelled
   unacknowledged transaction (F21 repair): the sender's transaction ends with its EOF (cancel) PDU, and the user is
   told through _notice_of_completion *)
(* the checksum computation leaves the state alone and reads only the request, the metadata-only flag, the remote
   configuration, the segment length and the filestore *)
Lemma checksum_calculation_transfer : forall size s s' ck,
  s_put s' = s_put s -> q_md_only (s_p s') = q_md_only (s_p s) -> q_rcfg (s_p s') = q_rcfg (s_p s) ->
  q_segment_len (s_p s') = q_segment_len (s_p s) -> e_fs (s_env s') = e_fs (s_env s) ->
  snd (checksum_calculation size s) = Ok ck -> checksum_calculation size s' = (s', Ok ck).
Proof.
  intros size s s' ck H1 H2 H3 H4 H5.
  unfold checksum_calculation, put_or_assert, srcfg_or_assert, gq, gets, bind, ret, raise.
  cbv beta. rewrite H1. destruct (s_put s) as [p|]; [|intro H; discriminate H].
  rewrite H2. destruct (q_md_only (s_p s)); [cbn [snd]; intro H; rewrite H; reflexivity|].
  destruct (pr_names p) as [[sn dn]|]; [|intro H; discriminate H].
  rewrite H3. destruct (q_rcfg (s_p s)) as [r|]; [|intro H; discriminate H].
  rewrite H4, H5.
  destruct (r_cktype r =? CK_NULL); [cbn [snd]; intro H; rewrite H; reflexivity|].
  destruct (lookup (e_fs (s_env s)) sn) as [[d|]|]; try (intro H; discriminate H).
  destruct (calculate_checksum (r_cktype r) (Some d) size (q_segment_len (s_p s))) as [c|[]];
    cbn [snd]; intro H; try discriminate H. rewrite H. reflexivity.
Qed.

Lemma source_cancel_unacked_reports : forall s a b cond ck,
  sc_mode (q_conf (s_p s)) = UNACKED -> q_tid (s_p s) = Some (a, b) ->
  (q_cond_eof (s_p s) = None \/ q_cond_eof (s_p s) = Some C_NO_ERROR) ->
  snd (checksum_calculation (q_progress (s_p s)) s) = Ok ck ->
  exists s', notice_of_cancellation_s cond s = (s', Ok true) /\
    log_s s' = (if l_ind_fin (s_cfg s) then [EvFinished a b cond DATA_INCOMPLETE FS_UNREPORTED None] else []) ++
               (if l_ind_eof_sent (s_cfg s) then [EvEofSent a b] else []) ++ log_s s /\
    s_queue s' = s_queue s ++ [PEof (hdr_of (q_conf (s_p s)) TOWARDS_RECEIVER) cond ck (q_progress (s_p s)) None] /\
    s_state s' = ST_IDLE /\ s_step s' = SS_IDLE /\ s_p s' = reset_sparams.
Proof.
  intros s a b cond ck Hm Htid Hce Hck.
  assert (Hn : notice_of_cancellation_s cond s =
               (setq (fun q => q <| q_cond_eof := Some cond |>) ;;;
                pr <- gq q_progress ;; ck <- checksum_calculation pr ;;
                prepare_eof_pdu ck ;;; handle_eof_sent true ;;; ret true) s).
  { unfold notice_of_cancellation_s, gq. unfold bind at 1. unfold gets at 1.
    destruct Hce as [H|H]; rewrite H; reflexivity. }
  rewrite Hn. clear Hn Hce.
  unfold setq. unfold bind at 1. unfold modify at 1.
  unfold bind at 1. unfold gq at 1, gets at 1. cbv beta iota.
  unfold bind at 1.
  rewrite (checksum_calculation_transfer _ s _ ck); try reflexivity; [|exact Hck].
  cbv beta iota. clear Hck.
  destruct s as [cfg st step rdy qu q sb pt sc sbits env].
  destruct q as [tid ckt akt akc ce pr sl fsz ef mdo fn rc cl conf].
  destruct cfg as [lid lidw ieof i2 i3 ifin lf lck lrem].
  destruct env as [nw fs rw lg].
  cbn in Htid, Hm |- *. subst.
  unfold prepare_eof_pdu, handle_eof_sent, notice_of_completion_s, srcfg_or_assert, stid_or_assert,
    smode_is, stmode, sadd_packet, semit, snow, sset_step, sreset_internal, setq, gq, when, modify, gets, get, bind, ret, raise.
  destruct ieof, ifin; cbn; destruct (st =? ST_IDLE); cbn; rewrite ?Hm; cbn; (eexists; split; [reflexivity|]); cbn; repeat split; reflexivity.
Qed.
Definition oid (k : Z) : Z * Z := ((k - 1000) / 100, (k - 1000) mod 100).

Lemma orig_response : forall msgs found, originating_id msgs found true = None.
Proof.
  induction msgs as [|m t IH]; intro found; cbn [originating_id]; [reflexivity|].
  destruct (1000 <=? m); [apply IH|]. destruct (m =? 1); apply IH.
Qed.

Lemma orig_has_response : forall msgs found,
  existsb (Z.eqb 1) msgs = true -> originating_id msgs found false = None.
Proof.
  induction msgs as [|m t IH]; intros found H; cbn [existsb] in H; [discriminate H|].
  cbn [originating_id].
  destruct (1000 <=? m) eqn:E1.
  - apply Z.leb_le in E1. destruct (1 =? m) eqn:E2; [apply Z.eqb_eq in E2; lia|].
    apply IH. exact H.
  - destruct (m =? 1) eqn:E2; [apply orig_response|].
    destruct (1 =? m) eqn:E3; [apply Z.eqb_eq in E3; apply Z.eqb_neq in E2; lia|].
    apply IH. exact H.
Qed.

Lemma orig_no_response : forall msgs found,
  existsb (Z.eqb 1) msgs = false ->
  (exists k', In k' msgs /\ 1000 <= k' /\ originating_id msgs found false = Some ((k' - 1000) / 100, (k' - 1000) mod 100)) \/
  ((forall k, In k msgs -> k < 1000) /\ originating_id msgs found false = found).
Proof.
  induction msgs as [|m t IH]; intros found H.
  - right. split; [intros k []| reflexivity].
  - cbn [existsb] in H. apply orb_false_iff in H. destruct H as [H1 H2].
    cbn [originating_id].
    destruct (1000 <=? m) eqn:E1.
    + apply Z.leb_le in E1.
      destruct (IH (Some ((m - 1000) / 100, (m - 1000) mod 100)) H2) as [[k' [I1 [I2 I3]]]|[I1 I2]].
      * left. exists k'. split; [right; exact I1 | split; [exact I2 | exact I3]].
      * left. exists m. split; [left; reflexivity | split; [exact E1 | exact I2]].
    + apply Z.leb_gt in E1.
      destruct (m =? 1) eqn:E2; [apply Z.eqb_eq in E2; subst m; discriminate H1|].
      destruct (IH found H2) as [[k' [I1 [I2 I3]]]|[I1 I2]].
      * left. exists k'. split; [right; exact I1 | split; [exact I2 | exact I3]].
      * right. split; [|exact I2]. intros k [Hk|Hk]; [subst k; exact E1 | apply I1; exact Hk].
Qed.

Lemma orig_small : forall msgs r,
  forallb (fun m => m <? 1000) msgs = true -> originating_id msgs None r = None.
Proof.
  induction msgs as [|m t IH]; intros r H; cbn [originating_id].
  - destruct r; reflexivity.
  - cbn [forallb] in H. apply andb_true_iff in H. destruct H as [H1 H2].
    apply Z.ltb_lt in H1. destruct (1000 <=? m) eqn:E1; [apply Z.leb_le in E1; lia|].
    destruct (m =? 1); apply IH; exact H2.
Qed.

Lemma originating_id_spec : forall msgs,
  (existsb (Z.eqb 1) msgs = true -> originating_id msgs None false = None) /\
  (existsb (Z.eqb 1) msgs = false -> forall k, 1000 <= k -> In k msgs ->
     exists k', In k' msgs /\ 1000 <= k' /\ originating_id msgs None false = Some ((k' - 1000) / 100, (k' - 1000) mod 100)) /\
  (forallb (fun m => m <? 1000) msgs = true -> originating_id msgs None false = None).
Proof.
  intro msgs. split; [|split].
  - apply orig_has_response.
  - intros H k Hk Hin. destruct (orig_no_response msgs None H) as [X|[X _]]; [exact X|].
    specialize (X k Hin). lia.
  - apply orig_small.
Qed.

Print Assumptions dest_gated.
Print Assumptions source_gated.
Print Assumptions cancel_gated.
Print Assumptions metadata_params.
Print Assumptions segment_params.
Print Assumptions completion_reports_finished_pdu.
Print Assumptions source_finished_copies_pdu.
Print Assumptions source_cancel_unacked_reports.
Print Assumptions originating_id_spec.
