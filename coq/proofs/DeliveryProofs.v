(* DeliveryProofs.v — proofs for property C01 (props/C01.v): "data complete" is set at the receiver
   only by a successful checksum verification of the destination file as it is at that moment, or
   for a metadata-only transaction; a rejected write is never stored; the sender's report is a copy
   of the Finished PDU it received. *)
From CFDP Require Import Base LostSeg Fs Crc Checksum Handler Dest Source HandlerSpec.
From CFDP.gen Require Import Tables.
From CFDP.proofs Require Import ChecksumProofs GuardProofs.
From RecordUpdate Require Import RecordSet.
Import RecordSetNotations.

Local Opaque calculate_checksum.
Arguments Z.max : simpl never.

Definition verified (s : dst) : Prop :=
  let p := d_p s in
  p_md_only p = true \/ p_cktype p = CK_NULL \/
  exists d, lookup (fs_d s) (p_file_name p) = Some (File d) /\
            calculate_checksum (p_cktype p) (Some d) (p_progress p) 4096 = Ok (p_crc32 p).

(* ------------------------------------------------------------------ stepping lemmas *)
Lemma bind_assoc {S A B C} (m : M S A) (f : A -> M S B) (g : B -> M S C) s :
  bind (bind m f) g s = bind m (fun a => bind (f a) g) s.
Proof. unfold bind. destruct (m s) as [s1 [a|e]]; reflexivity. Qed.
Lemma b_ret {S A B} (a : A) (k : A -> M S B) s : bind (ret a) k s = k a s.
Proof. reflexivity. Qed.
Lemma b_raise {S A B} e (k : A -> M S B) s : bind (raise e) k s = (s, Err e).
Proof. reflexivity. Qed.
Lemma b_gets {S A B} (f : S -> A) (k : A -> M S B) s : bind (gets f) k s = k (f s) s.
Proof. reflexivity. Qed.
Lemma b_modify {S B} (f : S -> S) (k : unit -> M S B) s : bind (modify f) k s = k tt (f s).
Proof. reflexivity. Qed.
Lemma when_true {S} (m : M S unit) : when true m = m.
Proof. reflexivity. Qed.
Lemma when_false {S} (m : M S unit) : when false m = ret tt.
Proof. reflexivity. Qed.
Lemma b_gp {A B} (f : dparams -> A) (k : A -> D B) s : bind (gp f) k s = k (f (d_p s)) s.
Proof. reflexivity. Qed.
Lemma b_setp {B} f (k : unit -> D B) s : bind (setp f) k s = k tt (s <| d_p ::= f |>).
Proof. reflexivity. Qed.
Lemma b_set_step {B} v (k : unit -> D B) s : bind (set_step v) k s = k tt (s <| d_step := v |>).
Proof. reflexivity. Qed.
Lemma b_emit {B} e (k : unit -> D B) s :
  bind (emit e) k s = k tt (s <| d_env ::= (fun en => en <| e_log ::= cons e |>) |>).
Proof. reflexivity. Qed.

Ltac mrun :=
  repeat first
    [ rewrite bind_assoc | rewrite b_ret | rewrite b_raise | rewrite b_gets | rewrite b_gp
    | rewrite b_setp | rewrite b_set_step | rewrite b_emit | rewrite b_modify
    | rewrite when_true | rewrite when_false ];
  cbv beta.
Ltac mrun_in H :=
  repeat first
    [ rewrite bind_assoc in H | rewrite b_ret in H | rewrite b_raise in H | rewrite b_gets in H | rewrite b_gp in H
    | rewrite b_setp in H | rewrite b_set_step in H | rewrite b_emit in H | rewrite b_modify in H
    | rewrite when_true in H | rewrite when_false in H ];
  cbv beta in H.

(* ------------------------------------------------------------------ a fault declaration and the delivery code *)
(* R s s': the handler was reset, or it kept its state and its delivery code *)
Definition R (s s' : dst) : Prop :=
  d_state s' = ST_IDLE \/ (d_state s' = d_state s /\ f_deliv (p_fin (d_p s')) = f_deliv (p_fin (d_p s))).
Definition PresR {A} (m : D A) : Prop := forall s, R s (fst (m s)).

Lemma R_refl : forall s, R s s.
Proof. intro s. right. split; reflexivity. Qed.
Lemma R_trans : forall s1 s2 s3, R s1 s2 -> R s2 s3 -> R s1 s3.
Proof.
  unfold R. intros s1 s2 s3 [H1|[H1 H1']] [H2|[H2 H2']]; try (left; congruence).
  right. split; congruence.
Qed.

Lemma presR_bind {A B} (m : D A) (k : A -> D B) : PresR m -> (forall a, PresR (k a)) -> PresR (bind m k).
Proof.
  intros Hm Hk s. specialize (Hm s). unfold bind. destruct (m s) as [s1 [a|e]]; cbn [fst] in *.
  - eapply R_trans; [exact Hm | apply Hk].
  - exact Hm.
Qed.
Lemma presR_catch {A} (m : D A) h : PresR m -> (forall e k, h e = Some k -> PresR k) -> PresR (catch m h).
Proof.
  intros Hm Hh s. specialize (Hm s). unfold catch. destruct (m s) as [s1 [a|e]]; cbn [fst] in *; [exact Hm|].
  destruct (h e) as [k|] eqn:Hk; [|exact Hm]. eapply R_trans; [exact Hm | apply (Hh e k Hk)].
Qed.
Lemma presR_ret {A} (a : A) : PresR (ret a).
Proof. intro s. apply R_refl. Qed.

(* state and delivery code as a measure preserved by most functions *)
Definition sd (s : dst) : Z * Z := (d_state s, f_deliv (p_fin (d_p s))).
Lemma presR_of_minv {A} (m : D A) : MInv sd Any m -> PresR m.
Proof.
  intros H s. pose proof (minv_state _ _ _ s H) as X. unfold sd in X. inversion X. right. split; assumption.
Qed.

Lemma presR_declare_fault : forall c, PresR (declare_fault c).
Proof.
  intros c s. unfold declare_fault. mrun.
  destruct (p_tid (d_p s)) as [[a b]|]; [|apply R_refl].
  destruct (get_fault_handler (l_faults (d_cfg s)) c) as [fh|]; [|apply R_refl].
  destruct (fh =? FH_CANCEL).
  - unfold notice_of_cancellation. mrun. destruct (fh =? FH_ABANDON); cbn; right; split; reflexivity.
  - destruct (fh =? FH_ABANDON).
    + unfold reset_internal. mrun. cbn. left. reflexivity.
    + mrun. cbn. right. split; reflexivity.
Qed.

(* ------------------------------------------------------------------ checksum verification *)
Lemma verify_true_means_verified : forall s s',
  checksum_verify s = (s', Ok true) ->
  verified s /\ f_deliv (p_fin (d_p s')) = DATA_COMPLETE /\ f_cond (p_fin (d_p s')) = C_NO_ERROR /\
  fs_d s' = fs_d s /\ p_file_name (d_p s') = p_file_name (d_p s) /\ p_progress (d_p s') = p_progress (d_p s) /\
  p_crc32 (d_p s') = p_crc32 (d_p s) /\ p_cktype (d_p s') = p_cktype (d_p s) /\ p_md_only (d_p s') = p_md_only (d_p s) /\
  (* (F31 repair) with a real check, no data is known to be missing: the progress reaches the EOF's file size *)
  (p_md_only (d_p s) = false -> p_cktype (d_p s) <> CK_NULL ->
   match p_file_size_eof (d_p s) with None => True | Some n => n <= p_progress (d_p s) end).
Proof.
  intros s s' H. unfold checksum_verify in H. mrun_in H.
  destruct ((p_cktype (d_p s) =? CK_NULL) || p_md_only (d_p s)) eqn:E.
  - mrun_in H. inversion H; subst s'. split.
    + apply orb_true_iff in E. destruct E as [E|E]; [right; left; apply Z.eqb_eq; exact E | left; exact E].
    + cbn. repeat split; try reflexivity. intros Hm Hn. exfalso.
      apply orb_true_iff in E. destruct E as [E|E]; [apply Z.eqb_eq in E; contradiction | congruence].
  - apply orb_false_iff in E. destruct E as [E1 E2].
    unfold vfs_checksum in H. mrun_in H. rewrite E1 in H.
    destruct (lookup (e_fs (d_env s)) (p_file_name (d_p s))) as [[d|]|] eqn:Hl; mrun_in H; try discriminate H.
    destruct (calculate_checksum (p_cktype (d_p s)) (Some d) (p_progress (d_p s)) 4096) as [r|[]] eqn:Hc;
      mrun_in H; try discriminate H.
    destruct (bytes_eqb r (p_crc32 (d_p s)) &&
              match p_file_size_eof (d_p s) with None => true | Some n => n <=? p_progress (d_p s) end) eqn:Hb; mrun_in H.
    + apply andb_true_iff in Hb. destruct Hb as [Hb Hsz]. inversion H; subst s'. split.
      * right. right. exists d. split; [exact Hl|]. cbv zeta. rewrite Hc. f_equal. apply bytes_eqb_eq. exact Hb.
      * cbn. repeat split; try reflexivity. intros _ _.
        destruct (p_file_size_eof (d_p s)) as [n|]; [apply Z.leb_le; exact Hsz | exact I].
    + exfalso. unfold bind in H. destruct (declare_fault C_CHECKSUM_FAILURE s) as [s1 [fh|e]]; discriminate H.
Qed.

Lemma verify_false_keeps_incomplete : forall s s',
  checksum_verify s = (s', Ok false) -> d_state s' = ST_BUSY ->
  f_deliv (p_fin (d_p s')) = f_deliv (p_fin (d_p s)).
Proof.
  intros s s' H Hb. unfold checksum_verify in H. mrun_in H.
  destruct ((p_cktype (d_p s) =? CK_NULL) || p_md_only (d_p s)) eqn:E.
  - mrun_in H. discriminate H.
  - unfold vfs_checksum in H. mrun_in H.
    destruct (p_cktype (d_p s) =? CK_NULL); mrun_in H.
    + destruct (bytes_eqb [0; 0; 0; 0] (p_crc32 (d_p s)) &&
                match p_file_size_eof (d_p s) with None => true | Some n => n <=? p_progress (d_p s) end);
        mrun_in H; [discriminate H|].
      pose proof (presR_declare_fault C_CHECKSUM_FAILURE s) as X.
      unfold bind in H. destruct (declare_fault C_CHECKSUM_FAILURE s) as [s1 [fh|e]]; [|discriminate H].
      inversion H; subst s'. cbn [fst] in X. destruct X as [X|[_ X]]; [rewrite X in Hb; discriminate Hb | exact X].
    + destruct (lookup (e_fs (d_env s)) (p_file_name (d_p s))) as [[d|]|]; mrun_in H; try discriminate H.
      destruct (calculate_checksum (p_cktype (d_p s)) (Some d) (p_progress (d_p s)) 4096) as [r|[]];
        mrun_in H; try discriminate H.
      destruct (bytes_eqb r (p_crc32 (d_p s)) &&
                match p_file_size_eof (d_p s) with None => true | Some n => n <=? p_progress (d_p s) end);
        mrun_in H; [discriminate H|].
      pose proof (presR_declare_fault C_CHECKSUM_FAILURE s) as X.
      unfold bind in H. destruct (declare_fault C_CHECKSUM_FAILURE s) as [s1 [fh|e]]; [|discriminate H].
      inversion H; subst s'. cbn [fst] in X. destruct X as [X|[_ X]]; [rewrite X in Hb; discriminate Hb | exact X].
Qed.

(* ------------------------------------------------------------------ equal CRC: identical or a collision *)
Lemma ztake_all : forall (l : bytes), ztake (zlen l) l = l.
Proof. intro l. unfold ztake, zlen. rewrite Nat2Z.id. apply firstn_all. Qed.

Lemma crc_equal_means_identical_or_collision : forall ty src_data dst_data n ck,
  (ty = CK_CRC32 \/ ty = CK_CRC32C) -> 0 <= n <= zlen dst_data -> n = zlen src_data ->
  calculate_checksum ty (Some src_data) n 4096 = Ok ck -> calculate_checksum ty (Some dst_data) n 4096 = Ok ck ->
  ztake n dst_data = src_data \/
  (ztake n dst_data <> src_data /\
   crc_spec (if ty =? CK_CRC32 then poly_crc32 else poly_crc32c) (ztake n dst_data) =
   crc_spec (if ty =? CK_CRC32 then poly_crc32 else poly_crc32c) src_data).
Proof.
  intros ty src_data dst_data n ck Hty Hn Hlen H1 H2.
  rewrite calc_crc_chunk_independent in H1 by (try assumption; lia).
  rewrite calc_crc_chunk_independent in H2 by (try assumption; lia).
  rewrite Hlen, ztake_all in H1. inversion H1 as [X1]. inversion H2 as [X2].
  destruct (list_eq_dec Z.eq_dec (ztake n dst_data) src_data) as [He|Hne]; [left; exact He|].
  right. split; [exact Hne | congruence].
Qed.

(* ------------------------------------------------------------------ metadata *)
Lemma presR_init_vfs_handling : forall b, PresR (init_vfs_handling b).
Proof.
  intro b. unfold init_vfs_handling. apply presR_catch.
  - apply presR_of_minv. minv.
  - intros e k Hh. destruct (e =? E_PERMISSION); [|discriminate Hh]. inversion Hh; subst k.
    apply presR_bind; [apply presR_of_minv; minv | intros _].
    apply presR_bind; [apply presR_declare_fault | intros _; apply presR_ret].
Qed.

Local Opaque init_vfs_handling.

Lemma metadata_only_sets_md_only : forall h cl ck sz msgs s,
  p_md_only (d_p (fst (handle_metadata_packet h cl ck sz None msgs s))) = true.
Proof.
  intros h cl ck sz msgs s. unfold handle_metadata_packet. mrun.
  destruct (p_rcfg (d_p _)) as [rc|]; mrun; [|reflexivity].
  match goal with |- context [negb (p_md_only (d_p ?S))] => change (p_md_only (d_p S)) with true end.
  cbn [negb]. mrun.
  destruct (match p_tid (d_p _) with Some x => x | None => (-1, -1) end) as [a b]. reflexivity.
Qed.

Lemma metadata_sets_complete_only_for_md_only : forall h cl ck sz names msgs s s' r,
  handle_metadata_packet h cl ck sz names msgs s = (s', r) -> d_state s' = ST_BUSY ->
  f_deliv (p_fin (d_p s')) <> f_deliv (p_fin (d_p s)) -> names = None /\ p_md_only (d_p s') = true.
Proof.
  intros h cl ck sz names msgs s s' r H Hb Hd.
  destruct names as [[sn dn]|].
  - exfalso.
    assert (PresR (handle_metadata_packet h cl ck sz (Some (sn, dn)) msgs)) as HP.
    { unfold handle_metadata_packet.
      apply presR_bind; [apply presR_of_minv; minv | intros _].
      apply presR_bind; [apply presR_of_minv; minv | intros _].
      apply presR_bind; [apply presR_of_minv; minv | intros _].
      apply presR_bind; [apply presR_of_minv; minv | intros rc].
      destruct rc as [rc|]; [|apply presR_of_minv; minv].
      apply presR_bind; [apply presR_of_minv; minv | intros mdo].
      apply presR_bind.
      - destruct (negb mdo); [|apply presR_of_minv; minv].
        apply presR_bind; [apply presR_of_minv; minv | intros _]. apply presR_init_vfs_handling.
      - intros _. apply presR_of_minv. minv. }
    specialize (HP s). rewrite H in HP. cbn [fst] in HP.
    destruct HP as [X|[_ X]]; [rewrite X in Hb; discriminate Hb | contradiction (Hd X)].
  - split; [reflexivity|].
    pose proof (metadata_only_sets_md_only h cl ck sz msgs s) as X. rewrite H in X. exact X.
Qed.

(* ------------------------------------------------------------------ rejected writes *)
(* the filestore content, observed only while writes are rejected *)
Definition rfs (s : dst) : option tree := if e_reject_writes (d_env s) then Some (e_fs (d_env s)) else None.

Lemma rfs_vfs_write : forall n d o, MInv rfs Any (vfs_write n d o).
Proof.
  intros n d o s. split; [|intros e _; exact I].
  unfold vfs_write. mrun. unfold rfs. destruct (e_reject_writes (d_env s)) eqn:E; [cbn; rewrite E; reflexivity|].
  destruct (fs_write_data (e_fs (d_env s)) n d o); cbn; rewrite E; reflexivity.
Qed.
#[local] Hint Resolve rfs_vfs_write : minv.

Lemma rfs_handle_fd_pdu : forall o d, MInv rfs Any (handle_fd_pdu o d).
Proof. intros. minv. Qed.

Lemma rejected_write_not_stored : forall s off data s' r,
  e_reject_writes (d_env s) = true -> handle_fd_pdu off data s = (s', r) -> fs_d s' = fs_d s.
Proof.
  intros s off data s' r Hr H.
  pose proof (minv_state _ _ _ s (rfs_handle_fd_pdu off data)) as X. rewrite H in X. cbn [fst] in X.
  unfold rfs in X. rewrite Hr in X. unfold fs_d. destruct (e_reject_writes (d_env s')); [|discriminate X].
  inversion X. reflexivity.
Qed.

(* ------------------------------------------------------------------ sender *)
Lemma sender_copies_finished : forall s h c d f fl,
  sc_mode (q_conf (s_p s)) = UNACKED -> s_state s = ST_BUSY ->
  q_fin (s_p (fst (handle_wait_for_finish (Some (PFinished h c d f fl)) s))) = Some (c, d, f, fl).
Proof.
  intros s h c d f fl Hm Hs. unfold handle_wait_for_finish, smode_is, stmode. mrun.
  unfold bind at 1, get. rewrite Hs, Hm. change (ST_BUSY =? ST_IDLE) with false. cbv iota.
  mrun. change (UNACKED =? ACKED) with false. cbv iota. mrun.
  unfold setq. mrun. unfold bind at 1, get. cbn [s_state s_p set]. cbn. rewrite Hs, Hm.
  change (ST_BUSY =? ST_IDLE) with false. cbv iota. mrun. change (UNACKED =? ACKED) with false. cbv iota.
  reflexivity.
Qed.

Print Assumptions verify_true_means_verified.
Print Assumptions verify_false_keeps_incomplete.
Print Assumptions crc_equal_means_identical_or_collision.
Print Assumptions metadata_sets_complete_only_for_md_only.
Print Assumptions rejected_write_not_stored.
Print Assumptions sender_copies_finished.
