(* LostSegProofs.v — proofs for property C18 (props/C18.v).
   Model: LostSeg.v; abstract reading: LostSegSpec.v.  Stdlib only. *)
From CFDP Require Import Base LostSeg LostSegSpec.
Open Scope Z_scope.

(* ------------------------------------------------------------------ *)
(* Part 1: key-uniqueness, strict sortedness, membership of dict ops   *)
(* ------------------------------------------------------------------ *)

(* keys are pairwise distinct *)
Fixpoint KU (l : tracker) : Prop :=
  match l with
  | [] => True
  | p :: t => (forall q, In q t -> fst q <> fst p) /\ KU t
  end.

(* strictly ascending by key *)
Fixpoint SS (l : tracker) : Prop :=
  match l with
  | [] => True
  | p :: t => (forall q, In q t -> fst p < fst q) /\ SS t
  end.

(* permutation-invariant well-formedness: non-empty, pairwise disjoint *)
Definition WF (l : tracker) : Prop :=
  (forall p, In p l -> fst p < snd p) /\
  (forall p q, In p l -> In q l ->
     fst p = fst q \/ snd p <= fst q \/ snd q <= fst p).

Lemma SS_KU : forall l, SS l -> KU l.
Proof.
  induction l as [|p t IH]; simpl; intros H; [exact I|].
  destruct H as [H1 H2]. split; [|apply IH; exact H2].
  intros q Hq. specialize (H1 q Hq). lia.
Qed.

Lemma KU_inj : forall l p q, KU l -> In p l -> In q l -> fst p = fst q -> p = q.
Proof.
  induction l as [|r t IH]; simpl; intros p q HK Hp Hq Hf; [contradiction|].
  destruct HK as [HK1 HK2].
  destruct Hp as [Hp|Hp]; destruct Hq as [Hq|Hq].
  - congruence.
  - subst r. exfalso. apply (HK1 q Hq). symmetry; exact Hf.
  - subst r. exfalso. apply (HK1 p Hp). exact Hf.
  - apply IH; assumption.
Qed.

Lemma KU_app_mid : forall acc p c, KU (acc ++ p :: c) ->
  forall q, In q acc -> fst q <> fst p.
Proof.
  induction acc as [|r t IH]; simpl; intros p c HK q Hq; [contradiction|].
  destruct HK as [HK1 HK2]. destruct Hq as [Hq|Hq].
  - subst r. intro Hf. apply (HK1 p).
    + apply in_or_app. right. left. reflexivity.
    + symmetry; exact Hf.
  - apply (IH p c HK2 q Hq).
Qed.

(* pop *)
Lemma In_pop_sub : forall k l p, In p (pop k l) -> In p l.
Proof.
  induction l as [|[s e] t IH]; simpl; intros p Hp; [exact Hp|].
  destruct (s =? k) eqn:E.
  - right; exact Hp.
  - simpl in Hp. destruct Hp as [Hp|Hp]; [left; exact Hp|right; apply IH; exact Hp].
Qed.

Lemma KU_pop : forall k l, KU l -> KU (pop k l).
Proof.
  induction l as [|[s e] t IH]; simpl; intros HK; [exact I|].
  destruct HK as [HK1 HK2].
  destruct (s =? k) eqn:E; [exact HK2|].
  simpl. split; [|apply IH; exact HK2].
  intros q Hq. apply HK1. apply In_pop_sub in Hq. exact Hq.
Qed.

Lemma In_pop : forall k l p, KU l -> (In p (pop k l) <-> In p l /\ fst p <> k).
Proof.
  induction l as [|[s e] t IH]; simpl; intros p HK.
  - tauto.
  - destruct HK as [HK1 HK2]. destruct (s =? k) eqn:E.
    + apply Z.eqb_eq in E. subst k. split.
      * intros Hp. split; [right; exact Hp|]. apply (HK1 p Hp).
      * intros [[Hp|Hp] Hn]; [subst p; simpl in Hn; congruence|exact Hp].
    + apply Z.eqb_neq in E. simpl. rewrite (IH p HK2). split.
      * intros [Hp|[Hp Hn]]; [subst p; simpl; tauto|tauto].
      * intros [[Hp|Hp] Hn]; [left; exact Hp|right; tauto].
Qed.

(* update *)
Lemma In_update_sub : forall k v l p, In p (update k v l) -> p = (k, v) \/ In p l.
Proof.
  induction l as [|[s e] t IH]; simpl; intros p Hp.
  - destruct Hp as [Hp|Hp]; [left; symmetry; exact Hp|contradiction].
  - destruct (s =? k) eqn:E.
    + apply Z.eqb_eq in E. subst k. simpl in Hp.
      destruct Hp as [Hp|Hp]; [left; symmetry; exact Hp|right; right; exact Hp].
    + simpl in Hp. destruct Hp as [Hp|Hp]; [right; left; exact Hp|].
      destruct (IH p Hp) as [H|H]; [left; exact H|right; right; exact H].
Qed.

Lemma KU_update : forall k v l, KU l -> KU (update k v l).
Proof.
  induction l as [|[s e] t IH]; simpl; intros HK.
  - split; [intros q Hq; contradiction|exact I].
  - destruct HK as [HK1 HK2]. destruct (s =? k) eqn:E.
    + simpl. split; assumption.
    + apply Z.eqb_neq in E. simpl. split; [|apply IH; exact HK2].
      intros q Hq. destruct (In_update_sub k v t q Hq) as [H|H].
      * subst q. simpl. congruence.
      * apply (HK1 q H).
Qed.

Lemma In_update : forall k v l p, KU l ->
  (In p (update k v l) <-> p = (k, v) \/ (In p l /\ fst p <> k)).
Proof.
  induction l as [|[s e] t IH]; simpl; intros p HK.
  - split.
    + intros [Hp|Hp]; [left; symmetry; exact Hp|contradiction].
    + intros [Hp|[Hp _]]; [left; symmetry; exact Hp|contradiction].
  - destruct HK as [HK1 HK2]. destruct (s =? k) eqn:E.
    + apply Z.eqb_eq in E. subst k. simpl. split.
      * intros [Hp|Hp]; [left; symmetry; exact Hp|].
        right. split; [right; exact Hp|apply (HK1 p Hp)].
      * intros [Hp|[[Hp|Hp] Hn]].
        -- left; symmetry; exact Hp.
        -- subst p. simpl in Hn. congruence.
        -- right; exact Hp.
    + apply Z.eqb_neq in E. simpl. rewrite (IH p HK2). split.
      * intros [Hp|[Hp|[Hp Hn]]].
        -- subst p. right. simpl. split; [left; reflexivity|exact E].
        -- left; exact Hp.
        -- right. split; [right; exact Hp|exact Hn].
      * intros [Hp|[[Hp|Hp] Hn]].
        -- right; left; exact Hp.
        -- left; exact Hp.
        -- right; right; split; assumption.
Qed.

Lemma update_notin : forall k v l, (forall q, In q l -> fst q <> k) ->
  update k v l = l ++ [(k, v)].
Proof.
  induction l as [|[s e] t IH]; simpl; intros H; [reflexivity|].
  destruct (s =? k) eqn:E.
  - apply Z.eqb_eq in E. exfalso. apply (H (s, e)); [left; reflexivity|exact E].
  - f_equal. apply IH. intros q Hq. apply H. right; exact Hq.
Qed.

(* get *)
Lemma get_none : forall k l, (forall q, In q l -> fst q <> k) -> get k l = None.
Proof.
  induction l as [|[s e] t IH]; simpl; intros H; [reflexivity|].
  destruct (s =? k) eqn:E.
  - apply Z.eqb_eq in E. exfalso. apply (H (s, e)); [left; reflexivity|exact E].
  - apply IH. intros q Hq. apply H. right; exact Hq.
Qed.

Lemma get_some : forall k v l, KU l -> In (k, v) l -> get k l = Some v.
Proof.
  induction l as [|[s e] t IH]; simpl; intros HK Hin; [contradiction|].
  destruct HK as [HK1 HK2]. destruct (s =? k) eqn:E.
  - apply Z.eqb_eq in E. subst k. destruct Hin as [Hin|Hin]; [congruence|].
    exfalso. apply (HK1 (s, v) Hin). reflexivity.
  - apply Z.eqb_neq in E. destruct Hin as [Hin|Hin]; [congruence|].
    apply IH; assumption.
Qed.

(* find_enclosing *)
Lemma find_enclosing_some : forall x l r, find_enclosing x l = Some r ->
  In r l /\ fst r < x < snd r.
Proof.
  induction l as [|[s e] t IH]; simpl; intros r H; [discriminate|].
  destruct ((s <? x) && (x <? e)) eqn:E.
  - injection H as H. subst r. apply andb_true_iff in E. destruct E as [E1 E2].
    apply Z.ltb_lt in E1. apply Z.ltb_lt in E2. simpl. split; [left; reflexivity|lia].
  - destruct (IH r H) as [H1 H2]. split; [right; exact H1|exact H2].
Qed.

Lemma find_enclosing_none : forall x l, find_enclosing x l = None ->
  forall r, In r l -> ~ (fst r < x < snd r).
Proof.
  induction l as [|[s e] t IH]; simpl; intros H r Hr; [contradiction|].
  destruct ((s <? x) && (x <? e)) eqn:E; [discriminate|].
  destruct Hr as [Hr|Hr].
  - subst r. simpl. apply andb_false_iff in E. destruct E as [E|E].
    + apply Z.ltb_ge in E. lia.
    + apply Z.ltb_ge in E. lia.
  - apply IH; assumption.
Qed.

(* sort_items *)
Lemma In_insert_sorted : forall p l x, In x (insert_sorted p l) <-> x = p \/ In x l.
Proof.
  induction l as [|q t IH]; simpl; intros x.
  - split; intros [H|H]; try contradiction; left; symmetry; exact H.
  - destruct (fst p <? fst q) eqn:E; simpl.
    + split.
      * intros [H|H]; [left; symmetry; exact H|right; exact H].
      * intros [H|H]; [left; symmetry; exact H|right; exact H].
    + rewrite IH. tauto.
Qed.

Lemma In_sort_items : forall l x, In x (sort_items l) <-> In x l.
Proof.
  induction l as [|p t IH]; simpl; intros x; [tauto|].
  rewrite In_insert_sorted. rewrite IH. split; intros [H|H]; auto.
Qed.

Lemma SS_insert_sorted : forall p l, SS l -> (forall q, In q l -> fst q <> fst p) ->
  SS (insert_sorted p l).
Proof.
  induction l as [|q t IH]; simpl; intros HS Hn.
  - split; [intros q Hq; contradiction|exact I].
  - destruct HS as [HS1 HS2]. destruct (fst p <? fst q) eqn:E.
    + apply Z.ltb_lt in E. simpl. split; [|split; assumption].
      intros r [Hr|Hr]; [subst r; exact E|]. specialize (HS1 r Hr). lia.
    + apply Z.ltb_ge in E. simpl. split.
      * intros r Hr. apply In_insert_sorted in Hr. destruct Hr as [Hr|Hr].
        -- subst r. assert (fst q <> fst p) by (apply Hn; left; reflexivity). lia.
        -- apply HS1; exact Hr.
      * apply IH; [exact HS2|]. intros r Hr. apply Hn. right; exact Hr.
Qed.

Lemma SS_sort_items : forall l, KU l -> SS (sort_items l).
Proof.
  induction l as [|p t IH]; simpl; intros HK; [exact I|].
  destruct HK as [HK1 HK2]. apply SS_insert_sorted; [apply IH; exact HK2|].
  intros q Hq. apply HK1. apply (proj1 (In_sort_items t q)). exact Hq.
Qed.

(* ------------------------------------------------------------------ *)
(* Part 2: Inv as sorted + well-formed; den depends on membership only *)
(* ------------------------------------------------------------------ *)

Lemma Inv_tail : forall p t, Inv (p :: t) -> Inv t.
Proof.
  intros p t H. inversion H; subst; [constructor|assumption].
Qed.

Lemma Inv_head : forall s e t, Inv ((s, e) :: t) ->
  s < e /\ forall q, In q t -> e <= fst q /\ fst q < snd q.
Proof.
  intros s e t. revert s e.
  induction t as [|[s' e'] t IH]; intros s e H.
  - inversion H; subst. split; [assumption|intros q Hq; contradiction].
  - inversion H as [| |s1 e1 s2 e2 t2 Hlt Hle Hinv]; subst.
    destruct (IH s' e' Hinv) as [Hlt' Hall].
    split; [exact Hlt|].
    intros q [Hq|Hq].
    + subst q. simpl. lia.
    + destruct (Hall q Hq) as [H1 H2]. lia.
Qed.

Lemma Inv_SS : forall l, Inv l -> SS l.
Proof.
  induction l as [|[s e] t IH]; intros H; simpl; [exact I|].
  destruct (Inv_head s e t H) as [Hlt Hall].
  split; [|apply IH; apply (Inv_tail _ _ H)].
  intros q Hq. destruct (Hall q Hq) as [H1 H2]. lia.
Qed.

Lemma Inv_WF : forall l, Inv l -> WF l.
Proof.
  induction l as [|[s e] t IH]; intros H.
  - split; [intros p Hp; contradiction|intros p q Hp; contradiction].
  - destruct (Inv_head s e t H) as [Hlt Hall].
    destruct (IH (Inv_tail _ _ H)) as [W1 W2].
    split.
    + intros p [Hp|Hp]; [subst p; exact Hlt|apply W1; exact Hp].
    + intros p q [Hp|Hp] [Hq|Hq].
      * subst p q. left; reflexivity.
      * subst p. simpl. destruct (Hall q Hq) as [H1 H2]. right; left; exact H1.
      * subst q. simpl. destruct (Hall p Hp) as [H1 H2]. right; right; exact H1.
      * apply W2; assumption.
Qed.

Lemma WF_tail : forall p t, WF (p :: t) -> WF t.
Proof.
  intros p t [W1 W2]. split.
  - intros q Hq. apply W1. right; exact Hq.
  - intros q r Hq Hr. apply W2; right; assumption.
Qed.

Lemma SS_WF_Inv : forall l, SS l -> WF l -> Inv l.
Proof.
  induction l as [|[s e] t IH]; intros HS HW; [constructor|].
  simpl in HS. destruct HS as [HS1 HS2].
  assert (Ht : Inv t) by (apply IH; [exact HS2|apply (WF_tail _ _ HW)]).
  destruct HW as [W1 W2].
  assert (Hlt : s < e) by (apply (W1 (s, e)); left; reflexivity).
  destruct t as [|[s' e'] t'].
  - constructor; exact Hlt.
  - constructor; [exact Hlt| |exact Ht].
    assert (Hk : s < s') by (apply (HS1 (s', e')); left; reflexivity).
    assert (Hlt' : s' < e') by (apply (W1 (s', e')); right; left; reflexivity).
    destruct (W2 (s, e) (s', e')) as [H|[H|H]]; simpl in *;
      [left; reflexivity|right; left; reflexivity|lia|exact H|lia].
Qed.

Lemma Inv_KU : forall l, Inv l -> KU l.
Proof. intros l H. apply SS_KU. apply Inv_SS. exact H. Qed.

Lemma den_ext : forall l l' x, (forall p, In p l <-> In p l') -> (den l x <-> den l' x).
Proof.
  intros l l' x H. unfold den. split; intros [s [e [Hin Hr]]]; exists s, e;
    (split; [apply H; exact Hin|exact Hr]).
Qed.

Lemma den_cons : forall s e t x, den ((s, e) :: t) x <-> s <= x < e \/ den t x.
Proof.
  intros s e t x. unfold den. split.
  - intros [s1 [e1 [[Hin|Hin] Hr]]].
    + injection Hin as H1 H2. subst. left; exact Hr.
    + right. exists s1, e1. split; assumption.
  - intros [Hr|[s1 [e1 [Hin Hr]]]].
    + exists s, e. split; [left; reflexivity|exact Hr].
    + exists s1, e1. split; [right; exact Hin|exact Hr].
Qed.

Lemma den_sort : forall l x, den (sort_items l) x <-> den l x.
Proof. intros l x. apply den_ext. intros p. apply In_sort_items. Qed.

Lemma WF_ext : forall l l', (forall p, In p l <-> In p l') -> WF l -> WF l'.
Proof.
  intros l l' H [W1 W2]. split.
  - intros p Hp. apply W1. apply H. exact Hp.
  - intros p q Hp Hq. apply W2; apply H; assumption.
Qed.

Lemma Inv_sort : forall m, KU m -> WF m -> Inv (sort_items m).
Proof.
  intros m HK HW. apply SS_WF_Inv.
  - apply SS_sort_items. exact HK.
  - apply (WF_ext m); [|exact HW]. intros p. symmetry. apply In_sort_items.
Qed.

(* ------------------------------------------------------------------ *)
(* Part 3: add                                                         *)
(* ------------------------------------------------------------------ *)

Lemma disjoint_from_den : forall l s e, WF l -> s < e ->
  (forall x, s <= x < e -> ~ den l x) ->
  forall r, In r l -> snd r <= s \/ e <= fst r.
Proof.
  intros l s e [W1 W2] Hse H r Hr.
  destruct (Z_le_gt_dec (snd r) s) as [H1|H1]; [left; exact H1|].
  destruct (Z_le_gt_dec e (fst r)) as [H2|H2]; [right; exact H2|].
  exfalso. specialize (W1 r Hr).
  apply (H (Z.max (fst r) s)); [lia|].
  destruct r as [rs re]. simpl in *. exists rs, re. split; [exact Hr|lia].
Qed.

Lemma add_spec : forall l s e,
  Inv l -> s < e -> (forall x, s <= x < e -> ~ den l x) ->
  Inv (add (s, e) l) /\ (forall x, den (add (s, e) l) x <-> den l x \/ s <= x < e).
Proof.
  intros l s e HI Hse Hdis.
  assert (HK : KU l) by (apply Inv_KU; exact HI).
  assert (HW : WF l) by (apply Inv_WF; exact HI).
  assert (Hsep := disjoint_from_den l s e HW Hse Hdis).
  destruct HW as [W1 W2].
  unfold add. simpl fst. simpl snd.
  split.
  - apply Inv_sort; [apply KU_update; exact HK|].
    split.
    + intros p Hp. apply (In_update s e l p HK) in Hp.
      destruct Hp as [Hp|[Hp _]]; [subst p; exact Hse|apply W1; exact Hp].
    + intros p q Hp Hq.
      apply (In_update s e l p HK) in Hp. apply (In_update s e l q HK) in Hq.
      destruct Hp as [Hp|[Hp _]]; destruct Hq as [Hq|[Hq _]].
      * subst p q. left; reflexivity.
      * subst p. simpl. specialize (Hsep q Hq). specialize (W1 q Hq). lia.
      * subst q. simpl. specialize (Hsep p Hp). specialize (W1 p Hp). lia.
      * apply W2; assumption.
  - intros x. rewrite den_sort. unfold den. split.
    + intros [s1 [e1 [Hin Hr]]]. apply (In_update s e l _ HK) in Hin.
      destruct Hin as [Hin|[Hin _]].
      * injection Hin as H1 H2. subst. right; exact Hr.
      * left. exists s1, e1. split; assumption.
    + intros [[s1 [e1 [Hin Hr]]]|Hr].
      * exists s1, e1. split; [|exact Hr].
        apply (In_update s e l _ HK). right. split; [exact Hin|]. simpl.
        specialize (Hsep _ Hin). simpl in Hsep. lia.
      * exists s, e. split; [|exact Hr].
        apply (In_update s e l _ HK). left; reflexivity.
Qed.

(* ------------------------------------------------------------------ *)
(* Part 4: remove                                                      *)
(* ------------------------------------------------------------------ *)

Lemma sep_from : forall l a b, Inv l -> In (a, b) l ->
  a < b /\
  (forall r, In r l -> fst r = a -> r = (a, b)) /\
  (forall r, In r l -> fst r <> a -> fst r < snd r /\ (snd r <= a \/ b <= fst r)).
Proof.
  intros l a b HI Hin.
  assert (HK : KU l) by (apply Inv_KU; exact HI).
  destruct (Inv_WF l HI) as [W1 W2].
  split; [apply (W1 (a, b) Hin)|]. split.
  - intros r Hr Hf. apply (KU_inj l r (a, b) HK Hr Hin). simpl. exact Hf.
  - intros r Hr Hf. split; [apply W1; exact Hr|].
    destruct (W2 r (a, b) Hr Hin) as [H|[H|H]]; simpl in H.
    + contradiction.
    + left; exact H.
    + right; exact H.
Qed.

Lemma remove_core : forall l a b s e m,
  Inv l -> In (a, b) l -> a <= s -> s < e -> e <= b -> KU m ->
  (forall p, In p m <->
     (p = (a, s) /\ a < s) \/ (p = (e, b) /\ e < b) \/ (In p l /\ fst p <> a)) ->
  Inv (sort_items m) /\
  (forall x, den (sort_items m) x <-> den l x /\ ~ (s <= x < e)).
Proof.
  intros l a b s e m HI Hin Has Hse Heb HKm Hm.
  destruct (sep_from l a b HI Hin) as [Hab [Heq Hsep]].
  destruct (Inv_WF l HI) as [W1 W2].
  split.
  - apply Inv_sort; [exact HKm|]. split.
    + intros p Hp. apply Hm in Hp.
      destruct Hp as [[Hp Hp']|[[Hp Hp']|[Hp Hp']]].
      * subst p. simpl. exact Hp'.
      * subst p. simpl. exact Hp'.
      * apply W1; exact Hp.
    + intros p q Hp Hq. apply Hm in Hp. apply Hm in Hq.
      destruct Hp as [[Hp Hp']|[[Hp Hp']|[Hp Hp']]];
      destruct Hq as [[Hq Hq']|[[Hq Hq']|[Hq Hq']]];
      try subst p; try subst q;
      try (apply W2; assumption);
      try (pose proof (Hsep _ Hp Hp') as Sp);
      try (pose proof (Hsep _ Hq Hq') as Sq);
      simpl; lia.
  - intros x. rewrite den_sort. unfold den. split.
    + intros [s1 [e1 [Hi Hr]]]. apply Hm in Hi.
      destruct Hi as [[Hi Hi']|[[Hi Hi']|[Hi Hi']]].
      * injection Hi as H1 H2. subst s1 e1.
        split; [exists a, b; split; [exact Hin|lia]|lia].
      * injection Hi as H1 H2. subst s1 e1.
        split; [exists a, b; split; [exact Hin|lia]|lia].
      * pose proof (Hsep _ Hi Hi') as Sp. simpl in Sp.
        split; [exists s1, e1; split; [exact Hi|exact Hr]|lia].
    + intros [[s1 [e1 [Hi Hr]]] Hn].
      destruct (Z.eq_dec s1 a) as [Ea|Ea].
      * pose proof (Heq _ Hi Ea) as Hp. injection Hp as H1 H2. subst s1 e1.
        destruct (Z_lt_le_dec x s) as [Hx|Hx].
        -- exists a, s. split; [|lia]. apply Hm. left. split; [reflexivity|lia].
        -- exists e, b. split; [|lia]. apply Hm. right. left. split; [reflexivity|lia].
      * exists s1, e1. split; [|exact Hr]. apply Hm. right. right.
        split; [exact Hi|simpl; exact Ea].
Qed.

Lemma remove_inside_spec : forall l s e a b,
  Inv l -> s < e -> In (a, b) l -> a <= s -> e <= b ->
  exists l', remove (s, e) l = Ok (l', true) /\ Inv l' /\
             (forall x, den l' x <-> den l x /\ ~ (s <= x < e)).
Proof.
  intros l s e a b HI Hse Hin Has Heb.
  assert (HK : KU l) by (apply Inv_KU; exact HI).
  destruct (sep_from l a b HI Hin) as [Hab [Heq Hsep]].
  unfold remove. simpl fst. simpl snd.
  destruct (e - s =? 0) eqn:E0; [apply Z.eqb_eq in E0; lia|].
  destruct (Z.eq_dec s a) as [Esa|Esa].
  - subst s. rewrite (get_some a b l HK Hin).
    destruct (b <? e) eqn:E1; [apply Z.ltb_lt in E1; lia|].
    destruct (e =? b) eqn:E2.
    + apply Z.eqb_eq in E2. subst e.
      eexists. split; [reflexivity|].
      apply (remove_core l a b a b (pop a l) HI Hin Has Hse Heb).
      * apply KU_pop; exact HK.
      * intros p. rewrite (In_pop a l p HK). split.
        -- intros [Hp Hn]. right. right. split; assumption.
        -- intros [[_ Hlt]|[[_ Hlt]|[Hp Hn]]]; [lia|lia|split; assumption].
    + apply Z.eqb_neq in E2.
      eexists. split; [reflexivity|].
      apply (remove_core l a b a e (update e b (pop a l)) HI Hin Has Hse Heb).
      * apply KU_update. apply KU_pop; exact HK.
      * intros p. rewrite (In_update e b (pop a l) p (KU_pop a l HK)).
        rewrite (In_pop a l p HK). split.
        -- intros [Hp|[[Hp Hn] Hne]].
           ++ right. left. split; [exact Hp|lia].
           ++ right. right. split; assumption.
        -- intros [[_ Hlt]|[[Hp Hlt]|[Hp Hn]]]; [lia|left; exact Hp|].
           right. split; [split; assumption|].
           pose proof (Hsep _ Hp Hn) as Sp. lia.
  - assert (Hg : get s l = None).
    { apply get_none. intros q Hq Hf.
      destruct (Z.eq_dec (fst q) a) as [Ea|Ea]; [lia|].
      pose proof (Hsep _ Hq Ea) as Sp. lia. }
    rewrite Hg.
    assert (Hf : find_enclosing s l = Some (a, b)).
    { destruct (find_enclosing s l) as [r|] eqn:F.
      - destruct (find_enclosing_some s l r F) as [Hr Hrs].
        destruct (Z.eq_dec (fst r) a) as [Ea|Ea].
        + rewrite (Heq _ Hr Ea). reflexivity.
        + pose proof (Hsep _ Hr Ea) as Sp. lia.
      - exfalso. apply (find_enclosing_none s l F (a, b) Hin). simpl. lia. }
    rewrite Hf.
    destruct (b <? e) eqn:E1; [apply Z.ltb_lt in E1; lia|].
    destruct (e =? b) eqn:E2.
    + apply Z.eqb_eq in E2. subst e.
      eexists. split; [reflexivity|].
      apply (remove_core l a b s b (update a s l) HI Hin Has Hse Heb).
      * apply KU_update; exact HK.
      * intros p. rewrite (In_update a s l p HK). split.
        -- intros [Hp|[Hp Hn]].
           ++ left. split; [exact Hp|lia].
           ++ right. right. split; assumption.
        -- intros [[Hp Hlt]|[[_ Hlt]|[Hp Hn]]]; [left; exact Hp|lia|].
           right. split; assumption.
    + apply Z.eqb_neq in E2.
      eexists. split; [reflexivity|].
      apply (remove_core l a b s e (update e b (update a s l)) HI Hin Has Hse Heb).
      * apply KU_update. apply KU_update; exact HK.
      * intros p. rewrite (In_update e b (update a s l) p (KU_update a s l HK)).
        rewrite (In_update a s l p HK). split.
        -- intros [Hp|[[Hp|[Hp Hn]] Hne]].
           ++ right. left. split; [exact Hp|lia].
           ++ left. split; [exact Hp|lia].
           ++ right. right. split; assumption.
        -- intros [[Hp Hlt]|[[Hp Hlt]|[Hp Hn]]].
           ++ right. split; [left; exact Hp|]. subst p. simpl. lia.
           ++ left; exact Hp.
           ++ right. split; [right; split; assumption|].
              pose proof (Hsep _ Hp Hn) as Sp. lia.
Qed.

Lemma remove_untouched_spec : forall l s e,
  Inv l -> s <= e -> (forall x, s <= x < e -> ~ den l x) ->
  remove (s, e) l = Ok (l, false).
Proof.
  intros l s e HI Hse Hdis.
  destruct (Inv_WF l HI) as [W1 W2].
  unfold remove. simpl fst. simpl snd.
  destruct (e - s =? 0) eqn:E0; [reflexivity|].
  apply Z.eqb_neq in E0.
  assert (Hg : get s l = None).
  { apply get_none. intros q Hq Hf. apply (Hdis s); [lia|].
    destruct q as [qs qe]. simpl in Hf. subst qs.
    exists s, qe. split; [exact Hq|]. specialize (W1 _ Hq). simpl in W1. lia. }
  rewrite Hg.
  destruct (find_enclosing s l) as [r|] eqn:F; [|reflexivity].
  exfalso. destruct (find_enclosing_some s l r F) as [Hr Hrs].
  apply (Hdis s); [lia|]. destruct r as [rs re]. simpl in Hrs.
  exists rs, re. split; [exact Hr|lia].
Qed.

Lemma remove_reports_change : forall l s e l' b,
  Inv l -> op_pre l (ORemove s e) -> remove (s, e) l = Ok (l', b) ->
  (b = true <-> exists x, ~ (den l' x <-> den l x)).
Proof.
  intros l s e l' b HI Hpre Hrm.
  simpl in Hpre. destruct Hpre as [Hse Hcase].
  assert (Hsame : remove (s, e) l = Ok (l, false) ->
                  (b = true <-> exists x, ~ (den l' x <-> den l x))).
  { intros Hu. rewrite Hu in Hrm. injection Hrm as H1 H2. subst l' b. split.
    - intros H; discriminate.
    - intros [x Hx]. exfalso. apply Hx. tauto. }
  destruct Hcase as [[a [b0 [Hin [Has Heb]]]]|Hdis].
  - destruct (Z.eq_dec s e) as [Ese|Ese].
    + apply Hsame. subst e. unfold remove. simpl fst. simpl snd.
      rewrite Z.sub_diag. reflexivity.
    + assert (Hlt : s < e) by lia.
      destruct (remove_inside_spec l s e a b0 HI Hlt Hin Has Heb)
        as [l2 [Hr2 [HI2 Hden]]].
      rewrite Hr2 in Hrm. injection Hrm as H1 H2. subst l2 b.
      split; [intros _|reflexivity].
      exists s. intros Hiff.
      assert (Hd : den l s) by (exists a, b0; split; [exact Hin|lia]).
      apply Hiff in Hd. apply Hden in Hd. lia.
  - apply Hsame. apply remove_untouched_spec; assumption.
Qed.

Lemma remove_straddle_refused : forall l s e a b,
  Inv l -> In (a, b) l -> a <= s < b -> b < e ->
  remove (s, e) l = Err ValueError.
Proof.
  intros l s e a b HI Hin Hasb Hbe.
  assert (HK : KU l) by (apply Inv_KU; exact HI).
  destruct (sep_from l a b HI Hin) as [Hab [Heq Hsep]].
  unfold remove. simpl fst. simpl snd.
  destruct (e - s =? 0) eqn:E0; [apply Z.eqb_eq in E0; lia|].
  destruct (Z.eq_dec s a) as [Esa|Esa].
  - subst s. rewrite (get_some a b l HK Hin).
    destruct (b <? e) eqn:E1; [reflexivity|apply Z.ltb_ge in E1; lia].
  - assert (Hg : get s l = None).
    { apply get_none. intros q Hq Hf.
      destruct (Z.eq_dec (fst q) a) as [Ea|Ea]; [lia|].
      pose proof (Hsep _ Hq Ea) as Sp. lia. }
    rewrite Hg.
    assert (Hf : find_enclosing s l = Some (a, b)).
    { destruct (find_enclosing s l) as [r|] eqn:F.
      - destruct (find_enclosing_some s l r F) as [Hr Hrs].
        destruct (Z.eq_dec (fst r) a) as [Ea|Ea].
        + rewrite (Heq _ Hr Ea). reflexivity.
        + pose proof (Hsep _ Hr Ea) as Sp. lia.
      - exfalso. apply (find_enclosing_none s l F (a, b) Hin). simpl. lia. }
    rewrite Hf.
    destruct (b <? e) eqn:E1; [reflexivity|apply Z.ltb_ge in E1; lia].
Qed.

Lemma remove_pre_no_error : forall l s e,
  Inv l -> op_pre l (ORemove s e) -> exists l' b, remove (s, e) l = Ok (l', b).
Proof.
  intros l s e HI Hpre. simpl in Hpre. destruct Hpre as [Hse Hcase].
  destruct Hcase as [[a [b0 [Hin [Has Heb]]]]|Hdis].
  - destruct (Z.eq_dec s e) as [Ese|Ese].
    + exists l, false. subst e. unfold remove. simpl fst. simpl snd.
      rewrite Z.sub_diag. reflexivity.
    + assert (Hlt : s < e) by lia.
      destruct (remove_inside_spec l s e a b0 HI Hlt Hin Has Heb)
        as [l2 [Hr2 _]].
      exists l2, true. exact Hr2.
  - exists l, false. apply remove_untouched_spec; assumption.
Qed.

(* ------------------------------------------------------------------ *)
(* Part 5: coalesce                                                    *)
(* ------------------------------------------------------------------ *)

Lemma invgap_inv : forall l, InvGap l -> Inv l.
Proof.
  intros l H. induction H as [|s e Hse|s e s' e' t Hse Hes HG IH].
  - constructor.
  - constructor; exact Hse.
  - constructor; [exact Hse|lia|exact IH].
Qed.

(* the loop as a structural recursion *)
Fixpoint coal (cs ce : Z) (l : tracker) : list seg :=
  match l with
  | [] => [(cs, ce)]
  | p :: t => if fst p =? ce then coal cs (snd p) t
              else (cs, ce) :: coal (fst p) (snd p) t
  end.

Lemma fold_coal : forall l m cs ce m' cs' ce',
  fold_left coalesce_step l (m, cs, ce) = (m', cs', ce') ->
  m' ++ [(cs', ce')] = m ++ coal cs ce l.
Proof.
  induction l as [|p t IH]; intros m cs ce m' cs' ce' H.
  - simpl in H. injection H as H1 H2 H3. subst. reflexivity.
  - change (fold_left coalesce_step (p :: t) (m, cs, ce))
      with (fold_left coalesce_step t (coalesce_step (m, cs, ce) p)) in H.
    simpl coal.
    assert (Hs : coalesce_step (m, cs, ce) p =
                 if fst p =? ce then (m, cs, snd p)
                 else (m ++ [(cs, ce)], fst p, snd p)) by reflexivity.
    rewrite Hs in H. clear Hs.
    destruct (fst p =? ce) eqn:E.
    + apply IH. exact H.
    + rewrite (IH _ _ _ _ _ _ H). rewrite <- app_assoc. reflexivity.
Qed.

Lemma coal_head : forall l cs ce, exists e' r, coal cs ce l = (cs, e') :: r.
Proof.
  induction l as [|p t IH]; intros cs ce; simpl.
  - exists ce, []. reflexivity.
  - destruct (fst p =? ce).
    + apply IH.
    + exists ce, (coal (fst p) (snd p) t). reflexivity.
Qed.

Lemma coal_gap : forall t cs ce,
  cs < ce -> Inv t -> (forall q, In q t -> ce <= fst q) -> InvGap (coal cs ce t).
Proof.
  induction t as [|[ps pe] t IH]; intros cs ce Hlt HI Hall; simpl.
  - constructor; exact Hlt.
  - destruct (Inv_head ps pe t HI) as [Hp Hall'].
    assert (Hce : ce <= ps) by (apply (Hall (ps, pe)); left; reflexivity).
    assert (HIt : Inv t) by (apply (Inv_tail _ _ HI)).
    assert (Hall2 : forall q, In q t -> pe <= fst q)
      by (intros q Hq; apply (Hall' q Hq)).
    destruct (ps =? ce) eqn:E.
    + apply Z.eqb_eq in E. apply IH; [lia|exact HIt|exact Hall2].
    + apply Z.eqb_neq in E.
      assert (HG : InvGap (coal ps pe t)) by (apply IH; [exact Hp|exact HIt|exact Hall2]).
      destruct (coal_head t ps pe) as [e' [r Hr]]. rewrite Hr in *.
      constructor; [exact Hlt|lia|exact HG].
Qed.

Lemma coal_den : forall t cs ce x,
  cs < ce -> Inv t -> (forall q, In q t -> ce <= fst q) ->
  (den (coal cs ce t) x <-> cs <= x < ce \/ den t x).
Proof.
  induction t as [|[ps pe] t IH]; intros cs ce x Hlt HI Hall; simpl.
  - apply den_cons.
  - destruct (Inv_head ps pe t HI) as [Hp Hall'].
    assert (Hce : ce <= ps) by (apply (Hall (ps, pe)); left; reflexivity).
    assert (HIt : Inv t) by (apply (Inv_tail _ _ HI)).
    assert (Hall2 : forall q, In q t -> pe <= fst q)
      by (intros q Hq; apply (Hall' q Hq)).
    rewrite (den_cons ps pe t x).
    destruct (ps =? ce) eqn:E.
    + apply Z.eqb_eq in E.
      rewrite (IH cs pe x); [|lia|exact HIt|exact Hall2].
      split.
      * intros [H|H]; [|right; right; exact H].
        destruct (Z_lt_le_dec x ce); [left; lia|right; left; lia].
      * intros [H|[H|H]]; [left; lia|left; lia|right; exact H].
    + rewrite (den_cons cs ce _ x).
      rewrite (IH ps pe x Hp HIt Hall2). tauto.
Qed.

Lemma fold_update_KU : forall c acc, KU (acc ++ c) ->
  fold_left (fun d p => update (fst p) (snd p) d) c acc = acc ++ c.
Proof.
  induction c as [|[k v] c IH]; intros acc HK; simpl.
  - rewrite app_nil_r. reflexivity.
  - rewrite (update_notin k v acc).
    + rewrite IH.
      * rewrite <- app_assoc. reflexivity.
      * rewrite <- app_assoc. exact HK.
    + intros q Hq. apply (KU_app_mid acc (k, v) c HK q Hq).
Qed.

Lemma dict_of_list_KU : forall c, KU c -> dict_of_list c = c.
Proof.
  intros c HK. unfold dict_of_list. apply (fold_update_KU c [] HK).
Qed.

Lemma dict_of_list_dup_head : forall k v v' r,
  dict_of_list ((k, v) :: (k, v') :: r) = dict_of_list ((k, v') :: r).
Proof.
  intros k v v' r. unfold dict_of_list. simpl. rewrite Z.eqb_refl. reflexivity.
Qed.

Lemma coalesce_eq : forall s0 e0 q t, s0 <> e0 ->
  coalesce ((s0, e0) :: q :: t) = dict_of_list ((s0, e0) :: coal s0 e0 (q :: t)).
Proof.
  intros s0 e0 q t Hne. unfold coalesce.
  destruct (fold_left coalesce_step ((s0, e0) :: q :: t) ([], s0, e0))
    as [[m cs] ce] eqn:F.
  change (fold_left coalesce_step ((s0, e0) :: q :: t) ([], s0, e0))
    with (fold_left coalesce_step (q :: t)
            (coalesce_step ([], s0, e0) (s0, e0))) in F.
  assert (Hs : coalesce_step ([], s0, e0) (s0, e0) = ([(s0, e0)], s0, e0)).
  { unfold coalesce_step. simpl fst. simpl snd.
    rewrite (proj2 (Z.eqb_neq s0 e0) Hne). reflexivity. }
  rewrite Hs in F. apply fold_coal in F. rewrite F. reflexivity.
Qed.

Lemma coalesce_spec : forall l,
  Inv l -> InvGap (coalesce l) /\ (forall x, den (coalesce l) x <-> den l x).
Proof.
  intros l HI. destruct l as [|[s0 e0] [|q t]].
  - simpl. split; [constructor|tauto].
  - simpl. split; [|tauto]. inversion HI; subst. constructor; assumption.
  - destruct (Inv_head s0 e0 (q :: t) HI) as [Hlt Hall].
    assert (HIt : Inv (q :: t)) by (apply (Inv_tail _ _ HI)).
    assert (Hall2 : forall r, In r (q :: t) -> e0 <= fst r)
      by (intros r Hr; apply (Hall r Hr)).
    assert (HG : InvGap (coal s0 e0 (q :: t))) by (apply coal_gap; assumption).
    assert (Hc : coalesce ((s0, e0) :: q :: t) = coal s0 e0 (q :: t)).
    { rewrite coalesce_eq by lia.
      destruct (coal_head (q :: t) s0 e0) as [e' [r Hr]].
      transitivity (dict_of_list ((s0, e0) :: (s0, e') :: r));
        [f_equal; f_equal; exact Hr|].
      rewrite dict_of_list_dup_head.
      transitivity ((s0, e') :: r); [|symmetry; exact Hr].
      apply dict_of_list_KU. apply Inv_KU. apply invgap_inv.
      rewrite Hr in HG. exact HG. }
    change (InvGap (coalesce ((s0, e0) :: q :: t)) /\
            (forall x, den (coalesce ((s0, e0) :: q :: t)) x <->
                       den ((s0, e0) :: q :: t) x)).
    rewrite Hc. split; [exact HG|].
    intros x. rewrite (coal_den (q :: t) s0 e0 x Hlt HIt Hall2).
    rewrite (den_cons s0 e0 (q :: t) x). tauto.
Qed.

(* ------------------------------------------------------------------ *)
(* Part 6: refinement of operation sequences; non-vacuity              *)
(* ------------------------------------------------------------------ *)

Lemma step_refines : forall l o, Inv l -> op_pre l o ->
  Inv (fst (lstep l o)) /\
  (forall x, den (fst (lstep l o)) x <-> spec_step (den l) o x).
Proof.
  intros l o HI Hpre. destruct o as [s e|s e| |].
  - simpl in Hpre. destruct Hpre as [Hse Hdis]. simpl.
    apply add_spec; assumption.
  - assert (Hsame : remove (s, e) l = Ok (l, false) ->
                    (forall x, den l x -> ~ (s <= x < e)) ->
                    Inv (fst (lstep l (ORemove s e))) /\
                    (forall x, den (fst (lstep l (ORemove s e))) x <->
                               spec_step (den l) (ORemove s e) x)).
    { intros Hu Hn. simpl. rewrite Hu. simpl. split; [exact HI|].
      intros x. split; [intros H; split; [exact H|apply Hn; exact H]|tauto]. }
    simpl in Hpre. destruct Hpre as [Hse Hcase].
    destruct Hcase as [[a [b0 [Hin [Has Heb]]]]|Hdis].
    + destruct (Z.eq_dec s e) as [Ese|Ese].
      * apply Hsame; [|intros x _; lia].
        subst e. unfold remove. simpl fst. simpl snd.
        rewrite Z.sub_diag. reflexivity.
      * assert (Hlt : s < e) by lia.
        destruct (remove_inside_spec l s e a b0 HI Hlt Hin Has Heb)
          as [l2 [Hr2 [HI2 Hden]]].
        simpl. rewrite Hr2. simpl. split; [exact HI2|exact Hden].
    + apply Hsame; [apply remove_untouched_spec; assumption|].
      intros x Hx Hr. apply (Hdis x Hr Hx).
  - simpl. destruct (coalesce_spec l HI) as [HG Hden].
    split; [apply invgap_inv; exact HG|exact Hden].
  - simpl. split; [constructor|].
    intros x. unfold reset, den. split; [|contradiction].
    intros [s [e [Hin _]]]. contradiction.
Qed.

Lemma spec_step_ext : forall S S' o, (forall x, S x <-> S' x) ->
  forall x, spec_step S o x <-> spec_step S' o x.
Proof.
  intros S S' o H x. destruct o as [s e|s e| |]; simpl.
  - rewrite (H x). tauto.
  - rewrite (H x). tauto.
  - apply H.
  - tauto.
Qed.

Lemma run_refines_set : forall ops l S,
  Inv l -> (forall x, den l x <-> S x) -> run_pre l ops ->
  Inv (run l ops) /\ (forall x, den (run l ops) x <-> spec_run S ops x).
Proof.
  induction ops as [|o t IH]; intros l S HI HS Hpre.
  - simpl. split; assumption.
  - simpl in Hpre. destruct Hpre as [Hpo Hpt].
    destruct (step_refines l o HI Hpo) as [HI' Hden'].
    simpl run. simpl spec_run.
    apply IH; [exact HI'| |exact Hpt].
    intros x. rewrite (Hden' x). apply spec_step_ext. exact HS.
Qed.

Lemma run_pre_cons : forall l o t l',
  fst (lstep l o) = l' -> op_pre l o -> run_pre l' t -> run_pre l (o :: t).
Proof.
  intros l o t l' Hl Ho Ht. simpl. rewrite Hl. split; assumption.
Qed.

Ltac den_false :=
  let x := fresh "x" in let Hx := fresh "Hx" in
  let s' := fresh "s" in let e' := fresh "e" in
  let Hin := fresh "Hin" in let Hr := fresh "Hr" in
  intros x Hx [s' [e' [Hin Hr]]]; simpl in Hin;
  repeat (destruct Hin as [Hin|Hin]; [inversion Hin; subst; lia|]);
  try contradiction.

Lemma nv_run_pre :
  run_pre [] [OAdd 4 8; OAdd 0 2; OAdd 8 10; ORemove 5 6; OCoalesce; ORemove 0 2; OReset].
Proof.
  apply (run_pre_cons _ _ _ [(4, 8)]); [vm_compute; reflexivity| |].
  { simpl. split; [lia|den_false]. }
  apply (run_pre_cons _ _ _ [(0, 2); (4, 8)]); [vm_compute; reflexivity| |].
  { simpl. split; [lia|den_false]. }
  apply (run_pre_cons _ _ _ [(0, 2); (4, 8); (8, 10)]); [vm_compute; reflexivity| |].
  { simpl. split; [lia|den_false]. }
  apply (run_pre_cons _ _ _ [(0, 2); (4, 5); (6, 8); (8, 10)]); [vm_compute; reflexivity| |].
  { simpl. split; [lia|]. left. exists 4, 8. split; [simpl; tauto|lia]. }
  apply (run_pre_cons _ _ _ [(0, 2); (4, 5); (6, 10)]); [vm_compute; reflexivity| |].
  { exact I. }
  apply (run_pre_cons _ _ _ [(4, 5); (6, 10)]); [vm_compute; reflexivity| |].
  { simpl. split; [lia|]. left. exists 0, 2. split; [simpl; tauto|lia]. }
  apply (run_pre_cons _ _ _ []); [vm_compute; reflexivity| |].
  { exact I. }
  exact I.
Qed.

Print Assumptions add_spec.
Print Assumptions remove_inside_spec.
Print Assumptions remove_untouched_spec.
Print Assumptions remove_reports_change.
Print Assumptions remove_straddle_refused.
Print Assumptions remove_pre_no_error.
Print Assumptions coalesce_spec.
Print Assumptions run_refines_set.
Print Assumptions invgap_inv.
Print Assumptions nv_run_pre.
