(* LostSegProofs.v — proofs for property C18 (props/C18.v).
   Model: LostSeg.v; abstract reading: LostSegSpec.v.  Stdlib only. *)
From CFDP Require Import Base LostSeg LostSegSpec.
From Coq Require Import ZArith List Bool Lia.
Import ListNotations.
Open Scope Z_scope.

(* ------------------------------------------------------------------ *)
(* Part 1: key-uniqueness, strict sortedness, membership of dict ops   *)
(* ------------------------------------------------------------------ *)

(* keys are pairwise distinct *)
Fixpoint KU (l : tracker) : Prop :=
  match l with
  | [] => True
  | p :: t => (forall q, In q t -> fst q <> fst p) /\ KU t
  end.

(* strictly ascending by key *)
Fixpoint SS (l : tracker) : Prop :=
  match l with
  | [] => True
  | p :: t => (forall q, In q t -> fst p < fst q) /\ SS t
  end.

(* permutation-invariant well-formedness: non-empty, pairwise disjoint *)
Definition WF (l : tracker) : Prop :=
  (forall p, In p l -> fst p < snd p) /\
  (forall p q, In p l -> In q l ->
     fst p = fst q \/ snd p <= fst q \/ snd q <= fst p).

Lemma SS_KU : forall l, SS l -> KU l.
Proof.
  induction l as [|p t IH]; simpl; intros H; [exact I|].
  destruct H as [H1 H2]. split; [|apply IH; exact H2].
  intros q Hq. specialize (H1 q Hq). lia.
Qed.

Lemma KU_inj : forall l p q, KU l -> In p l -> In q l -> fst p = fst q -> p = q.
Proof.
  induction l as [|r t IH]; simpl; intros p q HK Hp Hq Hf; [contradiction|].
  destruct HK as [HK1 HK2].
  destruct Hp as [Hp|Hp]; destruct Hq as [Hq|Hq].
  - congruence.
  - subst r. exfalso. apply (HK1 q Hq). symmetry; exact Hf.
  - subst r. exfalso. apply (HK1 p Hp). exact Hf.
  - apply IH; assumption.
Qed.

Lemma KU_app_mid : forall acc p c, KU (acc ++ p :: c) ->
  forall q, In q acc -> fst q <> fst p.
Proof.
  induction acc as [|r t IH]; simpl; intros p c HK q Hq; [contradiction|].
  destruct HK as [HK1 HK2]. destruct Hq as [Hq|Hq].
  - subst r. intro Hf. apply (HK1 p).
    + apply in_or_app. right. left. reflexivity.
    + symmetry; exact Hf.
  - apply (IH p c HK2 q Hq).
Qed.

(* pop *)
Lemma In_pop_sub : forall k l p, In p (pop k l) -> In p l.
Proof.
  induction l as [|[s e] t IH]; simpl; intros p Hp; [exact Hp|].
  destruct (s =? k) eqn:E.
  - right; exact Hp.
  - simpl in Hp. destruct Hp as [Hp|Hp]; [left; exact Hp|right; apply IH; exact Hp].
Qed.

Lemma KU_pop : forall k l, KU l -> KU (pop k l).
Proof.
  induction l as [|[s e] t IH]; simpl; intros HK; [exact I|].
  destruct HK as [HK1 HK2].
  destruct (s =? k) eqn:E; [exact HK2|].
  simpl. split; [|apply IH; exact HK2].
  intros q Hq. apply HK1. apply In_pop_sub in Hq. exact Hq.
Qed.

Lemma In_pop : forall k l p, KU l -> (In p (pop k l) <-> In p l /\ fst p <> k).
Proof.
  induction l as [|[s e] t IH]; simpl; intros p HK.
  - tauto.
  - destruct HK as [HK1 HK2]. destruct (s =? k) eqn:E.
    + apply Z.eqb_eq in E. subst k. split.
      * intros Hp. split; [right; exact Hp|]. apply (HK1 p Hp).
      * intros [[Hp|Hp] Hn]; [subst p; simpl in Hn; congruence|exact Hp].
    + apply Z.eqb_neq in E. simpl. rewrite (IH p HK2). split.
      * intros [Hp|[Hp Hn]]; [subst p; simpl; tauto|tauto].
      * intros [[Hp|Hp] Hn]; [left; exact Hp|right; tauto].
Qed.

(* update *)
Lemma In_update_sub : forall k v l p, In p (update k v l) -> p = (k, v) \/ In p l.
Proof.
  induction l as [|[s e] t IH]; simpl; intros p Hp.
  - destruct Hp as [Hp|Hp]; [left; symmetry; exact Hp|contradiction].
  - destruct (s =? k) eqn:E.
    + apply Z.eqb_eq in E. subst k. simpl in Hp.
      destruct Hp as [Hp|Hp]; [left; symmetry; exact Hp|right; right; exact Hp].
    + simpl in Hp. destruct Hp as [Hp|Hp]; [right; left; exact Hp|].
      destruct (IH p Hp) as [H|H]; [left; exact H|right; right; exact H].
Qed.

Lemma KU_update : forall k v l, KU l -> KU (update k v l).
Proof.
  induction l as [|[s e] t IH]; simpl; intros HK.
  - split; [intros q Hq; contradiction|exact I].
  - destruct HK as [HK1 HK2]. destruct (s =? k) eqn:E.
    + simpl. split; assumption.
    + apply Z.eqb_neq in E. simpl. split; [|apply IH; exact HK2].
      intros q Hq. destruct (In_update_sub k v t q Hq) as [H|H].
      * subst q. simpl. congruence.
      * apply (HK1 q H).
Qed.

Lemma In_update : forall k v l p, KU l ->
  (In p (update k v l) <-> p = (k, v) \/ (In p l /\ fst p <> k)).
Proof.
  induction l as [|[s e] t IH]; simpl; intros p HK.
  - split.
    + intros [Hp|Hp]; [left; symmetry; exact Hp|contradiction].
    + intros [Hp|[Hp _]]; [left; symmetry; exact Hp|contradiction].
  - destruct HK as [HK1 HK2]. destruct (s =? k) eqn:E.
    + apply Z.eqb_eq in E. subst k. simpl. split.
      * intros [Hp|Hp]; [left; symmetry; exact Hp|].
        right. split; [right; exact Hp|apply (HK1 p Hp)].
      * intros [Hp|[[Hp|Hp] Hn]].
        -- left; symmetry; exact Hp.
        -- subst p. simpl in Hn. congruence.
        -- right; exact Hp.
    + apply Z.eqb_neq in E. simpl. rewrite (IH p HK2). split.
      * intros [Hp|[Hp|[Hp Hn]]].
        -- subst p. right. simpl. split; [left; reflexivity|exact E].
        -- left; exact Hp.
        -- right. split; [right; exact Hp|exact Hn].
      * intros [Hp|[[Hp|Hp] Hn]].
        -- right; left; exact Hp.
        -- left; exact Hp.
        -- right; right; split; assumption.
Qed.

Lemma update_notin : forall k v l, (forall q, In q l -> fst q <> k) ->
  update k v l = l ++ [(k, v)].
Proof.
  induction l as [|[s e] t IH]; simpl; intros H; [reflexivity|].
  destruct (s =? k) eqn:E.
  - apply Z.eqb_eq in E. exfalso. apply (H (s, e)); [left; reflexivity|exact E].
  - f_equal. apply IH. intros q Hq. apply H. right; exact Hq.
Qed.

(* get *)
Lemma get_none : forall k l, (forall q, In q l -> fst q <> k) -> get k l = None.
Proof.
  induction l as [|[s e] t IH]; simpl; intros H; [reflexivity|].
  destruct (s =? k) eqn:E.
  - apply Z.eqb_eq in E. exfalso. apply (H (s, e)); [left; reflexivity|exact E].
  - apply IH. intros q Hq. apply H. right; exact Hq.
Qed.

Lemma get_some : forall k v l, KU l -> In (k, v) l -> get k l = Some v.
Proof.
  induction l as [|[s e] t IH]; simpl; intros HK Hin; [contradiction|].
  destruct HK as [HK1 HK2]. destruct (s =? k) eqn:E.
  - apply Z.eqb_eq in E. subst k. destruct Hin as [Hin|Hin]; [congruence|].
    exfalso. apply (HK1 (s, v) Hin). reflexivity.
  - apply Z.eqb_neq in E. destruct Hin as [Hin|Hin]; [congruence|].
    apply IH; assumption.
Qed.

(* find_enclosing *)
Lemma find_enclosing_some : forall x l r, find_enclosing x l = Some r ->
  In r l /\ fst r < x < snd r.
Proof.
  induction l as [|[s e] t IH]; simpl; intros r H; [discriminate|].
  destruct ((s <? x) && (x <? e)) eqn:E.
  - injection H as H. subst r. apply andb_true_iff in E. destruct E as [E1 E2].
    apply Z.ltb_lt in E1. apply Z.ltb_lt in E2. simpl. split; [left; reflexivity|lia].
  - destruct (IH r H) as [H1 H2]. split; [right; exact H1|exact H2].
Qed.

Lemma find_enclosing_none : forall x l, find_enclosing x l = None ->
  forall r, In r l -> ~ (fst r < x < snd r).
Proof.
  induction l as [|[s e] t IH]; simpl; intros H r Hr; [contradiction|].
  destruct ((s <? x) && (x <? e)) eqn:E; [discriminate|].
  destruct Hr as [Hr|Hr].
  - subst r. simpl. apply andb_false_iff in E. destruct E as [E|E].
    + apply Z.ltb_ge in E. lia.
    + apply Z.ltb_ge in E. lia.
  - apply IH; assumption.
Qed.

(* sort_items *)
Lemma In_insert_sorted : forall p l x, In x (insert_sorted p l) <-> x = p \/ In x l.
Proof.
  induction l as [|q t IH]; simpl; intros x.
  - split; intros [H|H]; try contradiction; left; symmetry; exact H.
  - destruct (fst p <? fst q) eqn:E; simpl.
    + split.
      * intros [H|H]; [left; symmetry; exact H|right; exact H].
      * intros [H|H]; [left; symmetry; exact H|right; exact H].
    + rewrite IH. tauto.
Qed.

Lemma In_sort_items : forall l x, In x (sort_items l) <-> In x l.
Proof.
  induction l as [|p t IH]; simpl; intros x; [tauto|].
  rewrite In_insert_sorted. rewrite IH. split; intros [H|H]; auto.
Qed.

Lemma SS_insert_sorted : forall p l, SS l -> (forall q, In q l -> fst q <> fst p) ->
  SS (insert_sorted p l).
Proof.
  induction l as [|q t IH]; simpl; intros HS Hn.
  - split; [intros q Hq; contradiction|exact I].
  - destruct HS as [HS1 HS2]. destruct (fst p <? fst q) eqn:E.
    + apply Z.ltb_lt in E. simpl. split; [|split; assumption].
      intros r [Hr|Hr]; [subst r; exact E|]. specialize (HS1 r Hr). lia.
    + apply Z.ltb_ge in E. simpl. split.
      * intros r Hr. apply In_insert_sorted in Hr. destruct Hr as [Hr|Hr].
        -- subst r. assert (fst q <> fst p) by (apply Hn; left; reflexivity). lia.
        -- apply HS1; exact Hr.
      * apply IH; [exact HS2|]. intros r Hr. apply Hn. right; exact Hr.
Qed.

Lemma SS_sort_items : forall l, KU l -> SS (sort_items l).
Proof.
  induction l as [|p t IH]; simpl; intros HK; [exact I|].
  destruct HK as [HK1 HK2]. apply SS_insert_sorted; [apply IH; exact HK2|].
  intros q Hq. apply HK1. apply (proj1 (In_sort_items t q)). exact Hq.
Qed.
