(* DestCancelInvProofs.v — proofs for the receiver-side invariant form of property C12 (props/C12c.v): once the
   receiver's transaction is cancelled nothing is written to the filestore any more; the only change is the one
   deletion of the destination file by the cancelled completion; the handler stays cancelled until it is idle. *)
From CFDP Require Import Base LostSeg Fs Crc Checksum Handler Dest HandlerSpec.
From CFDP.gen Require Import Tables.
From CFDP.proofs Require Import FsProofs GuardProofs DestFsProofs CancelProofs FaultProofs.
From RecordUpdate Require Import RecordSet.
Import RecordSetNotations.
Open Scope monad_scope.

(* ------------------------------------------------------------------ the statement (same bodies as props/C12c.v) *)
Definition dest_cancel_step (st : Z) : Prop :=
  st = DS_TRANSFER_COMPLETION \/ st = DS_SENDING_EOF_ACK \/ st = DS_SENDING_FINISHED \/ st = DS_WAITING_FOR_FINISHED_ACK.
Definition dest_cancelled (s : dst) : Prop :=
  d_state s = ST_BUSY /\ p_disp (d_p s) = DISP_CANCELED /\ dest_cancel_step (d_step s).
Definition dest_completion_done (s : dst) : Prop :=
  d_step s = DS_SENDING_FINISHED \/ d_step s = DS_WAITING_FOR_FINISHED_ACK.
Definition fs_kept_or_deleted (s s' : dst) : Prop :=
  fs_d s' = fs_d s \/ fs_d s' = fst (fs_delete_file (fs_d s) (p_file_name (d_p s))).

Ltac ds := unfold DS_IDLE, DS_TRANSACTION_START, DS_WAITING_FOR_METADATA, DS_RECEIVING_FILE_DATA, DS_RECV_WITH_CHECK_LIMIT,
  DS_SENDING_EOF_ACK, DS_WAITING_FOR_MISSING_DATA, DS_TRANSFER_COMPLETION, DS_SENDING_FINISHED, DS_WAITING_FOR_FINISHED_ACK,
  ST_IDLE, ST_BUSY, DISP_CANCELED, DISP_COMPLETED in *.
(* decide the comparisons of closed constants *)
Ltac zeqb := repeat match goal with |- context [?a =? ?b] =>
  let v := eval vm_compute in (a =? b) in
  match v with true => change (a =? b) with true | false => change (a =? b) with false end end.

(* ------------------------------------------------------------------ the invariant inside a call *)
Definition view (s : dst) := (d_state s, d_step s, p_disp (d_p s), p_file_name (d_p s), fs_d s).
Definition vdet (P : dst -> Prop) : Prop := forall s s', view s' = view s -> P s -> P s'.
Definition Never (e : Z) : Prop := False.
Notation FR m := (MInv view Any m).
Notation FR0 m := (MInv view Never m).

Section Inv.
(* the name of the destination file; the filestores allowed before the completion and after it *)
Variable fn0 : path.
Variables TE T : tree -> Prop.
Hypothesis HTE : forall t, TE t -> T t /\ T (fst (fs_delete_file t fn0)).

Definition canc (s : dst) : Prop :=
  d_state s = ST_BUSY /\ p_disp (d_p s) = DISP_CANCELED /\ p_file_name (d_p s) = fn0.
Definition early (st : Z) : Prop := st = DS_TRANSFER_COMPLETION \/ st = DS_SENDING_EOF_ACK.
Definition late (st : Z) : Prop := st = DS_SENDING_FINISHED \/ st = DS_WAITING_FOR_FINISHED_ACK.
(* cancelled, the completion still to come *)
Definition Es (s : dst) : Prop := canc s /\ early (d_step s) /\ TE (fs_d s).
(* cancelled, the completion done *)
Definition Ls (s : dst) : Prop := canc s /\ late (d_step s) /\ T (fs_d s).
(* the handler was reset *)
Definition Zs (s : dst) : Prop := d_state s = ST_IDLE /\ d_step s = DS_IDLE /\ T (fs_d s).
Definition Js (s : dst) : Prop := Ls s \/ Zs s.
Definition X (s : dst) : Prop := Es s \/ Js s.
(* in the middle of the completion *)
Definition Ms (s : dst) : Prop := canc s /\ T (fs_d s).

Lemma Es_X : forall s, Es s -> X s. Proof. intros s H. left. exact H. Qed.
Lemma Ls_J : forall s, Ls s -> Js s. Proof. intros s H. left. exact H. Qed.
Lemma Zs_J : forall s, Zs s -> Js s. Proof. intros s H. right. exact H. Qed.
Lemma Js_X : forall s, Js s -> X s. Proof. intros s H. right. exact H. Qed.
Lemma Ls_X : forall s, Ls s -> X s. Proof. intros s H. apply Js_X, Ls_J, H. Qed.
Lemma Zs_X : forall s, Zs s -> X s. Proof. intros s H. apply Js_X, Zs_J, H. Qed.

Ltac vd :=
  let s := fresh "s" in let s' := fresh "s'" in let Hv := fresh "Hv" in let Hp := fresh "Hp" in
  intros s s' Hv Hp; unfold view in Hv; injection Hv; clear Hv; intros;
  unfold X, Js, Es, Ls, Zs, Ms, canc in *;
  repeat match goal with E : _ = _ |- _ => first [rewrite E | idtac]; clear E end; exact Hp.
Lemma vdet_Es : vdet Es. Proof. vd. Qed.
Lemma vdet_Ls : vdet Ls. Proof. vd. Qed.
Lemma vdet_Zs : vdet Zs. Proof. vd. Qed.
Lemma vdet_Js : vdet Js. Proof. vd. Qed.
Lemma vdet_X : vdet X. Proof. vd. Qed.
Lemma vdet_Ms : vdet Ms. Proof. vd. Qed.

Lemma X_step : forall s, X s ->
  d_step s = DS_TRANSFER_COMPLETION \/ d_step s = DS_SENDING_EOF_ACK \/ d_step s = DS_SENDING_FINISHED \/
  d_step s = DS_WAITING_FOR_FINISHED_ACK \/ d_step s = DS_IDLE.
Proof. intros s [(_ & [H|H] & _) | [(_ & [H|H] & _) | (_ & H & _)]]; tauto. Qed.

(* [tri P Q m]: from a state in P, m ends normally in Q or raises in X *)
Definition tri {A} (P Q : dst -> Prop) (m : D A) : Prop :=
  forall s, P s -> match m s with (s', Ok _) => Q s' | (s', Err _) => X s' end.

Lemma tri_bind {A B} (P Q R : dst -> Prop) (m : D A) (f : A -> D B) :
  tri P Q m -> (forall a, tri Q R (f a)) -> tri P R (bind m f).
Proof.
  intros Hm Hf s HP. specialize (Hm s HP). unfold bind.
  destruct (m s) as [s1 [a|e]]; [apply Hf; exact Hm | exact Hm].
Qed.
Lemma tri_ret {A} (P : dst -> Prop) (a : A) : tri P P (ret a).
Proof. intros s H. exact H. Qed.
Lemma tri_raise {A} (P Q : dst -> Prop) e : (forall s, P s -> X s) -> tri P Q (@raise dst A e).
Proof. intros HX s H. apply HX, H. Qed.
Lemma tri_post {A} (P Q Q' : dst -> Prop) (m : D A) : (forall s, Q s -> Q' s) -> tri P Q m -> tri P Q' m.
Proof. intros HQ H s HP. specialize (H s HP). destruct (m s) as [s1 [a|e]]; [apply HQ, H | exact H]. Qed.
Lemma tri_pre {A} (P P' Q : dst -> Prop) (m : D A) : (forall s, P' s -> P s) -> tri P Q m -> tri P' Q m.
Proof. intros HP H s HP'. apply H, HP, HP'. Qed.
Lemma tri_fr {A} (P : dst -> Prop) (m : D A) : vdet P -> (forall s, P s -> X s) -> FR m -> tri P P m.
Proof.
  intros Hv HX Hm s HP. pose proof (minv_state view Any m s Hm) as E.
  destruct (m s) as [s1 [a|e]]; cbn [fst] in E; [exact (Hv s s1 E HP) | exact (HX s1 (Hv s s1 E HP))].
Qed.
Lemma tri_fr0 {A} (P : dst -> Prop) (m : D A) : vdet P -> FR0 m -> tri P P m.
Proof.
  intros Hv Hm s HP. pose proof (minv_state view Never m s Hm) as E.
  destruct (m s) as [s1 [a|e]] eqn:Em; cbn [fst] in E; [exact (Hv s s1 E HP)|].
  exfalso. exact (minv_exn view Never m s s1 e Hm Em).
Qed.
Lemma tri_fst {A} (P : dst -> Prop) (m : D A) s : tri P X m -> P s -> X (fst (m s)).
Proof. intros H HP. specialize (H s HP). destruct (m s) as [s1 [a|e]]; exact H. Qed.

Ltac frL := solve [apply tri_fr; [apply vdet_Ls | exact Ls_X | minv]].
Ltac frJ := solve [apply tri_fr; [apply vdet_Js | exact Js_X | minv]].
Ltac frX := solve [apply tri_fr; [apply vdet_X | trivial | minv]].
Ltac frM := solve [apply tri_fr0; [apply vdet_Ms | minv]].

(* ---- the advancement after the PDUs were fetched: an EOF (cancel) that was acknowledged goes to the completion *)
Lemma tri_fsm_advancement : tri X X fsm_advancement.
Proof.
  intros s H. unfold fsm_advancement. rewrite bind_get.
  destruct (0 <? zlen (d_queue s)); [exact H|].
  destruct H as [(Hc & [He|He] & Ht) | [(Hc & [He|He] & Ht) | (H1 & He & Ht)]]; rewrite He; zeqb; cbv iota.
  - unfold ret. left. split; [exact Hc | split; [left; exact He | exact Ht]].
  - destruct Hc as (Hb & Hd & Hn). rewrite Hd. zeqb. cbn [negb andb]. cbv iota.
    unfold when, bind, ret, set_step, modify. left. split; [|split].
    + repeat split; assumption.
    + left. reflexivity.
    + exact Ht.
  - unfold ret. right; left. split; [exact Hc | split; [left; exact He | exact Ht]].
  - unfold ret. right; left. split; [exact Hc | split; [right; exact He | exact Ht]].
  - unfold ret. right; right. repeat split; assumption.
Qed.

(* ---- the dispatch on the step *)
Lemma step_is_run : forall B v (k : bool -> D B) s, bind (step_is v) k s = k (d_step s =? v) s.
Proof. reflexivity. Qed.

Lemma guard_skip : forall v (m rest : D unit),
  (forall s, X s -> d_step s <> v) -> tri X X rest -> tri X X (b <- step_is v ;; when b m ;;; rest).
Proof.
  intros v m rest Hne Hr s H. rewrite step_is_run.
  destruct (Z.eqb_spec (d_step s) v) as [E|E]; [exfalso; exact (Hne s H E)|].
  unfold when. rewrite bind_ret. apply Hr, H.
Qed.

Lemma guard_take : forall v (m rest : D unit) (P : dst -> Prop),
  (forall s, X s -> d_step s = v -> P s) -> tri P X m -> tri X X rest ->
  tri X X (b <- step_is v ;; when b m ;;; rest).
Proof.
  intros v m rest P HP Hm Hr s H. rewrite step_is_run.
  destruct (Z.eqb_spec (d_step s) v) as [E|E]; unfold when.
  - apply (tri_bind P X X m (fun _ => rest)); [exact Hm | intros _; exact Hr | apply HP; assumption].
  - rewrite bind_ret. apply Hr, H.
Qed.

Lemma guard_take_last : forall v (m : D unit) (P : dst -> Prop),
  (forall s, X s -> d_step s = v -> P s) -> tri P X m -> tri X X (b <- step_is v ;; when b m).
Proof.
  intros v m P HP Hm s H. rewrite step_is_run.
  destruct (Z.eqb_spec (d_step s) v) as [E|E]; unfold when.
  - apply Hm, HP; assumption.
  - exact H.
Qed.

Lemma guard_recv : forall (body rest : D unit), tri X X rest ->
  tri X X (st <- get_step ;; when ((st =? DS_RECEIVING_FILE_DATA) || (st =? DS_RECV_WITH_CHECK_LIMIT)) body ;;; rest).
Proof.
  intros body rest Hr s H. unfold get_step. rewrite bind_gets.
  destruct (X_step s H) as [E|[E|[E|[E|E]]]]; rewrite E; zeqb; cbn [orb]; unfold when; rewrite bind_ret; apply Hr, H.
Qed.

Lemma X_early : forall s, X s -> d_step s = DS_TRANSFER_COMPLETION -> Es s.
Proof.
  intros s [H | [(_ & [H|H] & _) | (_ & H & _)]] E; [exact H | | |]; exfalso; rewrite E in H; revert H; ds; lia.
Qed.
Lemma X_late : forall s, X s -> late (d_step s) -> Ls s.
Proof.
  intros s [(_ & [H|H] & _) | [H | (_ & H & _)]] [E|E]; try exact H; exfalso; rewrite E in H; revert H; ds; lia.
Qed.

(* ---- the cancelled completion: the one place where the filestore changes *)
Lemma fr0_noc_tail : FR0 noc_tail.
Proof. unfold noc_tail. minv. Qed.

Lemma tri_notice_of_completion : tri Es Ms notice_of_completion.
Proof.
  intros s H. rewrite notice_of_completion_run.
  destruct H as (Hc & He & Ht). pose proof Hc as (Hb & Hd & Hn).
  rewrite Hd. zeqb. cbv iota.
  destruct (p_rcfg (d_p s)) as [r|]; [|left; repeat split; assumption].
  destruct (HTE _ Ht) as [T1 T2].
  destruct (r_disposition r && (f_deliv (p_fin (d_p s)) =? DATA_INCOMPLETE)).
  - apply (tri_fr0 Ms noc_tail vdet_Ms fr0_noc_tail).
    split; [repeat split; assumption|]. unfold noc_delete, fs_d. cbn. rewrite Hn. exact T2.
  - apply (tri_fr0 Ms noc_tail vdet_Ms fr0_noc_tail). split; assumption.
Qed.

Lemma tri_handle_transfer_completion : tri Es X handle_transfer_completion.
Proof.
  unfold handle_transfer_completion.
  apply (tri_bind Es Ms X); [apply tri_notice_of_completion | intros _].
  apply (tri_bind Ms Ms X); [frM | intro un].
  apply (tri_bind Ms Ms X); [frM | intro ac].
  apply (tri_bind Ms Ms X); [frM | intro cl].
  destruct ((un && cl) || ac); intros s ((Hb & Hd & Hn) & Ht).
  - unfold set_step, modify. right; left. split; [repeat split; assumption | split; [left; reflexivity | exact Ht]].
  - unfold reset_internal, modify. right; right. repeat split. exact Ht.
Qed.

(* ---- the Finished PDU *)
Lemma tri_set_step_late : forall v, late v -> tri Ls X (set_step v).
Proof.
  intros v Hv s ((Hb & Hd & Hn) & _ & Ht). unfold set_step, modify. right; left.
  split; [repeat split; assumption | split; [exact Hv | exact Ht]].
Qed.
Lemma tri_reset_internal : tri Ls Zs reset_internal.
Proof. intros s (_ & _ & Ht). unfold reset_internal, modify. repeat split. exact Ht. Qed.

Lemma tri_sending_finished :
  tri Ls X (n <- gets d_ready ;; if 0 <? n then ret tt else (prepare_finished_pdu ;;; handle_finished_pdu_sent)).
Proof.
  apply (tri_bind Ls Ls X); [frL | intro n].
  destruct (0 <? n); [apply (tri_post _ Ls); [exact Ls_X | apply tri_ret]|].
  apply (tri_bind Ls Ls X); [frL | intros _].
  unfold handle_finished_pdu_sent.
  apply (tri_bind Ls Ls X); [frL | intro s0].
  apply (tri_bind Ls Ls X); [frL | intro ac].
  destruct ((d_state s0 =? ST_BUSY) && ac).
  - apply (tri_bind Ls Ls X); [frL | intros _]. apply tri_set_step_late. right; reflexivity.
  - apply (tri_post _ Zs); [exact Zs_X | apply tri_reset_internal].
Qed.

(* ---- waiting for the Finished ACK: the nested call is never made by a cancelled transaction *)
Lemma tri_handle_positive_ack_procedures : forall again, tri Ls X (handle_positive_ack_procedures again).
Proof.
  intro again. unfold handle_positive_ack_procedures.
  apply (tri_bind Ls Ls X); [frL | intro t].
  destruct t as [tm|]; [|apply tri_raise; exact Ls_X].
  apply (tri_bind Ls Ls X); [frL | intro r].
  apply (tri_bind Ls Ls X); [frL | intro n].
  destruct (negb (timed_out n tm)); [apply (tri_post _ Ls); [exact Ls_X | apply tri_ret]|].
  apply (tri_bind Ls Ls X); [frL | intro cnt].
  apply (tri_bind Ls Js X).
  - destruct (r_ack_limit r <=? cnt + 1); [|apply (tri_post _ Ls); [exact Ls_J | apply tri_ret]].
    intros s H. rewrite bind_gp.
    assert (Hd : p_disp (d_p s) = DISP_CANCELED) by (destruct H as ((_ & Hd & _) & _); exact Hd).
    rewrite Hd. zeqb. cbv iota. clear Hd. revert s H.
    apply (tri_bind Ls Ls Js); [frL | intro p].
    destruct (p_tid p) as [[src seq]|]; [|apply tri_raise; exact Ls_X].
    apply (tri_bind Ls Ls Js); [frL | intros _].
    apply (tri_bind Ls Zs Js); [apply tri_reset_internal | intros _].
    apply (tri_post _ Zs); [exact Zs_J | apply tri_ret].
  - intro stop. destruct stop; [apply (tri_post _ Js); [exact Js_X | apply tri_ret]|].
    apply (tri_post _ Js); [exact Js_X|].
    apply (tri_bind Js Js Js); [frJ | intro t'].
    destruct t' as [[t0 tmo]|]; [|apply tri_raise; exact Js_X].
    apply (tri_bind Js Js Js); [frJ | intros _; frJ].
Qed.

Lemma tri_handle_waiting_for_finished_ack : forall again pkt, tri Ls X (handle_waiting_for_finished_ack again pkt).
Proof.
  intros again pkt. unfold handle_waiting_for_finished_ack.
  destruct pkt as [[]|]; try apply tri_handle_positive_ack_procedures.
  - apply (tri_post _ Ls); [exact Ls_X | frL].
  - apply (tri_post _ Zs); [exact Zs_X | apply tri_reset_internal].
Qed.

(* ---- the state machine *)
Ltac nostep := let s := fresh "s" in let H := fresh "H" in let E := fresh "E" in
  intros s H E; destruct (X_step s H) as [H0|[H0|[H0|[H0|H0]]]]; rewrite E in H0; revert H0; ds; lia.

Lemma tri_non_idle_fsm : forall fuel pkt, tri X X (non_idle_fsm fuel pkt).
Proof.
  intros fuel pkt.
  assert (G : forall again, tri X X
    (fsm_advancement ;;;
     st <- get_step ;;
     when (((st =? DS_RECEIVING_FILE_DATA) || (st =? DS_RECV_WITH_CHECK_LIMIT)))
       (match pkt with
        | Some (PFileData _ off data) => handle_fd_pdu off data
        | Some (PEof _ cond ck sz _) => handle_eof_pdu cond ck sz
        | _ => ret tt
        end) ;;;
     b <- step_is DS_WAITING_FOR_METADATA ;;
     when b (handle_waiting_for_missing_metadata pkt ;;; deferred_lost_segment_handling) ;;;
     b <- step_is DS_RECV_WITH_CHECK_LIMIT ;;
     when b check_limit_handling ;;;
     b <- step_is DS_WAITING_FOR_MISSING_DATA ;;
     when b
       ((match pkt with
         | Some (PEof _ cond ck sz _) =>
             if cond =? C_NO_ERROR then prepare_eof_ack_packet
             else (setp (fun p => p <| p_deferred := false |>) ;;; handle_eof_pdu cond ck sz)
         | _ => ret tt
         end) ;;;
        (match pkt with
         | Some (PFileData _ off data) =>
             handle_fd_pdu off data ;;;
             active <- gp p_deferred ;;
             when active reset_nak_activity_parameters
         | _ => ret tt
         end) ;;;
        deferred_lost_segment_handling) ;;;
     b <- step_is DS_TRANSFER_COMPLETION ;;
     when b handle_transfer_completion ;;;
     b <- step_is DS_SENDING_FINISHED ;;
     when b (n <- gets d_ready ;;
             if 0 <? n then ret tt else (prepare_finished_pdu ;;; handle_finished_pdu_sent)) ;;;
     b <- step_is DS_WAITING_FOR_FINISHED_ACK ;;
     when b (handle_waiting_for_finished_ack again pkt))).
  { intro again.
    apply (tri_bind X X X); [apply tri_fsm_advancement | intros _].
    apply guard_recv.
    apply guard_skip; [nostep|].
    apply guard_skip; [nostep|].
    apply guard_skip; [nostep|].
    apply (guard_take _ _ _ Es); [exact X_early | apply tri_handle_transfer_completion |].
    apply (guard_take _ _ _ Ls); [intros s H E; apply X_late; [exact H | left; exact E] | apply tri_sending_finished |].
    apply (guard_take_last _ _ Ls); [intros s H E; apply X_late; [exact H | right; exact E] |].
    apply tri_handle_waiting_for_finished_ack. }
  destruct fuel; cbn [non_idle_fsm]; apply G.
Qed.

Lemma catch_abandoned_fst : forall (m : D unit) s, fst (catch_abandoned m s) = fst (m s).
Proof.
  intros m s. unfold catch_abandoned, catch. destruct (m s) as [s1 [u|e]]; [reflexivity|].
  destruct (e =? E_ABANDONED); reflexivity.
Qed.

Lemma X_state_machine : forall pkt s, X s -> d_state s = ST_BUSY -> X (fst (state_machine pkt s)).
Proof.
  intros pkt s H Hb. unfold state_machine.
  set (body := s <- get ;; _).
  assert (Hbody : forall s, X s -> d_state s = ST_BUSY -> X (fst (catch_abandoned body s))).
  { intros s0 H0 Hb0. rewrite catch_abandoned_fst. unfold body. rewrite bind_get, Hb0. zeqb. cbv iota.
    rewrite bind_ret. cbv iota. rewrite bind_get, Hb0. zeqb. unfold when.
    apply (tri_fst X); [apply tri_non_idle_fsm | exact H0]. }
  clearbody body. unfold bind.
  destruct pkt as [p|].
  - pose proof (minv_state whole _ _ s (adm_d p)) as E. unfold whole in E.
    destruct (check_inserted_packet p s) as [s1 [u|e]]; cbn [fst] in E; subst s1; [apply Hbody; assumption | exact H].
  - unfold ret. apply Hbody; assumption.
Qed.

End Inv.

(* ------------------------------------------------------------------ the invariant theorem *)
Lemma early_cancel_step : forall st, early st -> dest_cancel_step st.
Proof. intros st [H|H]; unfold dest_cancel_step; tauto. Qed.
Lemma late_cancel_step : forall st, late st -> dest_cancel_step st.
Proof. intros st [H|H]; unfold dest_cancel_step; tauto. Qed.

Lemma sm_from_early : forall s pkt, d_state s = ST_BUSY -> p_disp (d_p s) = DISP_CANCELED -> early (d_step s) ->
  let s' := fst (Dest.state_machine pkt s) in
  fs_kept_or_deleted s s' /\
  (d_state s' = ST_IDLE \/ (dest_cancelled s' /\ p_file_name (d_p s') = p_file_name (d_p s))) /\
  (fs_d s' = fs_d s \/ d_state s' = ST_IDLE \/ dest_completion_done s').
Proof.
  intros s pkt Hb Hd He s'. subst s'.
  set (fn0 := p_file_name (d_p s)).
  set (TE := fun t : tree => t = fs_d s).
  set (T := fun t : tree => t = fs_d s \/ t = fst (fs_delete_file (fs_d s) fn0)).
  assert (HTE : forall t, TE t -> T t /\ T (fst (fs_delete_file t fn0))).
  { intros t Ht. unfold TE in Ht. subst t. split; [left | right]; reflexivity. }
  assert (H0 : X fn0 TE T s).
  { left. split; [repeat split; assumption | split; [exact He | reflexivity]]. }
  pose proof (X_state_machine fn0 TE T HTE pkt s H0 Hb) as R.
  destruct R as [((Hb' & Hd' & Hn') & He' & Ht') | [((Hb' & Hd' & Hn') & He' & Ht') | (Hi' & _ & Ht')]].
  - split; [left; exact Ht'|]. split; [|left; exact Ht'].
    right. split; [|exact Hn']. repeat split; try assumption. apply early_cancel_step, He'.
  - split; [exact Ht'|]. split; [|right; right; exact He'].
    right. split; [|exact Hn']. repeat split; try assumption. apply late_cancel_step, He'.
  - split; [exact Ht'|]. split; [left; exact Hi' | right; left; exact Hi'].
Qed.

Lemma sm_from_late : forall s pkt, d_state s = ST_BUSY -> p_disp (d_p s) = DISP_CANCELED -> late (d_step s) ->
  let s' := fst (Dest.state_machine pkt s) in
  fs_d s' = fs_d s /\
  (d_state s' = ST_IDLE \/
   (dest_cancelled s' /\ dest_completion_done s' /\ p_file_name (d_p s') = p_file_name (d_p s))).
Proof.
  intros s pkt Hb Hd He s'. subst s'.
  set (fn0 := p_file_name (d_p s)).
  set (TE := fun t : tree => False).
  set (T := fun t : tree => t = fs_d s).
  assert (HTE : forall t, TE t -> T t /\ T (fst (fs_delete_file t fn0))) by (intros t []).
  assert (H0 : X fn0 TE T s).
  { right; left. split; [repeat split; assumption | split; [exact He | reflexivity]]. }
  pose proof (X_state_machine fn0 TE T HTE pkt s H0 Hb) as R.
  destruct R as [(_ & _ & []) | [((Hb' & Hd' & Hn') & He' & Ht') | (Hi' & _ & Ht')]].
  - split; [exact Ht'|]. right. split; [|split; [exact He' | exact Hn']].
    repeat split; try assumption. apply late_cancel_step, He'.
  - split; [exact Ht' | left; exact Hi'].
Qed.

Lemma dest_no_write_after_cancel : forall (s : dst) (pkt : option pdu) (a b : Z),
  dest_cancelled s ->
  (let s' := fst (Dest.state_machine pkt s) in
   fs_kept_or_deleted s s' /\
   (d_state s' = ST_IDLE \/ (dest_cancelled s' /\ p_file_name (d_p s') = p_file_name (d_p s))) /\
   (fs_d s' = fs_d s \/ d_state s' = ST_IDLE \/ dest_completion_done s') /\
   (dest_completion_done s -> fs_d s' = fs_d s /\ (d_state s' = ST_IDLE \/ dest_completion_done s'))) /\
  (let s' := fst (Dest.get_next_packet s) in
   fs_d s' = fs_d s /\ dest_cancelled s' /\ d_step s' = d_step s /\ d_p s' = d_p s) /\
  (let s' := fst (Dest.cancel_request a b s) in
   fs_d s' = fs_d s /\ dest_cancelled s' /\ p_file_name (d_p s') = p_file_name (d_p s)).
Proof.
  intros s pkt a b (Hb & Hd & Hs). split; [|split].
  - assert (Hel : early (d_step s) \/ late (d_step s)) by (unfold dest_cancel_step, early, late in *; tauto).
    destruct Hel as [He | Hl].
    + destruct (sm_from_early s pkt Hb Hd He) as (H1 & H2 & H3). cbv zeta.
      split; [exact H1|]. split; [exact H2|]. split; [exact H3|].
      intros Hdone. exfalso. unfold dest_completion_done in Hdone. unfold early in He.
      destruct He as [E|E]; rewrite E in Hdone; revert Hdone; ds; lia.
    + destruct (sm_from_late s pkt Hb Hd Hl) as (H1 & H2). cbv zeta.
      split; [left; exact H1|]. split; [|split].
      * destruct H2 as [H2 | (H2 & _ & H4)]; [left; exact H2 | right; split; assumption].
      * left; exact H1.
      * intros _. split; [exact H1|]. destruct H2 as [H2 | (_ & H3 & _)]; [left; exact H2 | right; exact H3].
  - cbv zeta. unfold get_next_packet. rewrite bind_get.
    destruct (d_queue s) as [|p q]; cbn [fst].
    + repeat split; try assumption; reflexivity.
    + unfold bind, put, ret. cbn [fst]. unfold dest_cancelled, fs_d. cbn. repeat split; assumption.
  - cbv zeta. unfold cancel_request. rewrite bind_get, Hb. zeqb. cbv iota.
    destruct (0 <? d_ready s); [cbn [fst]; repeat split; assumption|].
    destruct (p_tid (d_p s)) as [[x y]|]; [|cbn [fst]; repeat split; assumption].
    destruct ((x =? a) && (y =? b)); [|cbn [fst]; repeat split; assumption].
    unfold bind, setp, set_step, modify, ret. cbn [fst]. unfold dest_cancelled, dest_cancel_step, fs_d. cbn.
    repeat split; try assumption. left; reflexivity.
Qed.

(* ------------------------------------------------------------------ the ways to cancel establish the invariant *)
Lemma busy_not_idle : forall s, d_state s = ST_BUSY -> d_state s <> ST_IDLE.
Proof. intros s H. rewrite H. discriminate. Qed.

(* an EOF (cancel) in a busy handler: the cancelled state, nothing else touched *)
Lemma eof_cancel_run : forall c ck sz s s', d_state s = ST_BUSY -> c <> C_NO_ERROR ->
     h_mode (p_conf (d_p s)) = ACKED \/ h_mode (p_conf (d_p s)) = UNACKED ->
     handle_eof_pdu c ck sz s = (s', Ok tt) ->
     dest_cancelled s' /\ fs_d s' = fs_d s /\ p_deferred (d_p s') = p_deferred (d_p s) /\
     h_mode (p_conf (d_p s')) = h_mode (p_conf (d_p s)) /\
     (h_mode (p_conf (d_p s)) = UNACKED -> d_step s' = DS_TRANSFER_COMPLETION) /\
     (h_mode (p_conf (d_p s)) = ACKED -> d_step s' = DS_SENDING_EOF_ACK).
Proof.
  intros c ck sz s s' Hb Hc Hm H.
    destruct s as [cfg st step stid rdy q p env].
    destruct p as [ptid prc pct pcc pcl pck pfin pdisp pconf ppr pcrc pfsz pfn pfse pmdo ptr pmdm pls ple pdef ppt pnc pat pac].
    destruct pfin as [dl fst0 cd fl]. cbn in Hb, Hm, H |- *. subst st.
    revert H.
    unfold handle_eof_pdu, file_transfer_complete_transition, prepare_eof_ack_packet, tid_or_assert, tmode,
      conf, gp, setp, set_step, emit, add_packet, when, bind, get, gets, modify, ret, raise.
    apply Z.eqb_neq in Hc. rewrite Hc. cbn.
    unfold dest_cancelled, dest_cancel_step, fs_d.
    destruct (l_ind_eof_recv cfg); [destruct ptid as [[ta tb]|]|]; cbn; try (intro H; discriminate H);
      (destruct prc as [r|]; cbn; [|intro H; discriminate H]);
      zeqb; cbv iota; (destruct Hm as [Hm|Hm]; rewrite Hm; zeqb; cbv iota; cbn; intro H; injection H as <-; cbn;
        (split; [split; [reflexivity | split; [reflexivity | tauto]]|]);
        (split; [reflexivity|]); (split; [reflexivity|]); (split; [first [reflexivity | exact Hm | symmetry; exact Hm]|]);
         split; intro Hx; try reflexivity; exfalso; revert Hx; unfold ACKED, UNACKED; lia).
Qed.

Lemma nif_eof_cancel_waiting : forall fuel h c ck sz fl s s',
  d_state s = ST_BUSY -> d_step s = DS_WAITING_FOR_MISSING_DATA -> c <> C_NO_ERROR ->
  h_mode (p_conf (d_p s)) = ACKED ->
  non_idle_fsm fuel (Some (PEof h c ck sz fl)) s = (s', Ok tt) ->
  dest_cancelled s' /\ fs_d s' = fs_d s /\ d_step s' = DS_SENDING_EOF_ACK /\ p_deferred (d_p s') = false.
Proof.
  intros fuel h c ck sz fl s s' Hb Hs Hc Hm H.
  assert (Hc' := Hc). apply Z.eqb_neq in Hc'.
  assert (G : forall again,
    (fsm_advancement ;;;
     st <- get_step ;;
     when (((st =? DS_RECEIVING_FILE_DATA) || (st =? DS_RECV_WITH_CHECK_LIMIT)))
       (handle_eof_pdu c ck sz) ;;;
     b <- step_is DS_WAITING_FOR_METADATA ;;
     when b (handle_waiting_for_missing_metadata (Some (PEof h c ck sz fl)) ;;; deferred_lost_segment_handling) ;;;
     b <- step_is DS_RECV_WITH_CHECK_LIMIT ;;
     when b check_limit_handling ;;;
     b <- step_is DS_WAITING_FOR_MISSING_DATA ;;
     when b
       ((if c =? C_NO_ERROR then prepare_eof_ack_packet
         else (setp (fun p => p <| p_deferred := false |>) ;;; handle_eof_pdu c ck sz)) ;;;
        ret tt ;;;
        deferred_lost_segment_handling) ;;;
     b <- step_is DS_TRANSFER_COMPLETION ;;
     when b handle_transfer_completion ;;;
     b <- step_is DS_SENDING_FINISHED ;;
     when b (n <- gets d_ready ;;
             if 0 <? n then ret tt else (prepare_finished_pdu ;;; handle_finished_pdu_sent)) ;;;
     b <- step_is DS_WAITING_FOR_FINISHED_ACK ;;
     when b (handle_waiting_for_finished_ack again (Some (PEof h c ck sz fl)))) s = (s', Ok tt) ->
    dest_cancelled s' /\ fs_d s' = fs_d s /\ d_step s' = DS_SENDING_EOF_ACK /\ p_deferred (d_p s') = false).
  2:{ destruct fuel; cbn [non_idle_fsm] in H; exact (G _ H). }
  clear H. intros again H. revert H.
  unfold fsm_advancement. rewrite bind_assoc, bind_get.
  destruct (0 <? zlen (d_queue s)); [unfold bind, raise; intro H; discriminate H|].
  rewrite Hs. zeqb. cbv iota. rewrite bind_ret.
  unfold get_step. rewrite bind_gets, Hs. zeqb. cbn [orb]. unfold when at 1. rewrite bind_ret.
  rewrite step_is_run, Hs. zeqb. unfold when at 1. rewrite bind_ret.
  rewrite step_is_run, Hs. zeqb. unfold when at 1. rewrite bind_ret.
  rewrite step_is_run, Hs. zeqb. unfold when at 1. rewrite Hc'.
  rewrite !bind_assoc, bind_setp.
  set (s0 := s <| d_p ::= (fun p => p <| p_deferred := false |>) |>).
  pose proof (eof_cancel_run c ck sz s0) as R.
  unfold bind at 1.
  destruct (handle_eof_pdu c ck sz s0) as [s1 [[]|e]]; [|intro H; discriminate H].
  destruct (R s1 Hb Hc (or_introl Hm) eq_refl) as (R1 & R2 & R3 & R4 & _ & R6).
  specialize (R6 Hm). change (p_deferred (d_p s0)) with false in R3.
  rewrite bind_assoc, bind_ret. change (fs_d s0) with (fs_d s) in R2.
  unfold deferred_lost_segment_handling. rewrite bind_assoc, bind_gp, R3. cbn [negb]. cbv iota. rewrite bind_ret.
  rewrite step_is_run, R6. zeqb. unfold when at 1. rewrite bind_ret.
  rewrite step_is_run, R6. zeqb. unfold when at 1. rewrite bind_ret.
  rewrite step_is_run, R6. zeqb. unfold when.
  unfold ret. intro H. injection H as <-.
  split; [exact R1|]. split; [exact R2|]. split; [exact R6 | exact R3].
Qed.

Lemma dest_cancel_establishes :
  (forall a b s s', d_state s = ST_BUSY -> Dest.cancel_request a b s = (s', Ok true) ->
     dest_cancelled s' /\ d_step s' = DS_TRANSFER_COMPLETION /\ fs_d s' = fs_d s) /\
  (forall cond s s', d_state s = ST_BUSY -> declare_fault cond s = (s', Ok FH_CANCEL) ->
     dest_cancelled s' /\ d_step s' = DS_TRANSFER_COMPLETION /\ fs_d s' = fs_d s) /\
  (forall c ck sz s s', d_state s = ST_BUSY -> c <> C_NO_ERROR ->
     h_mode (p_conf (d_p s)) = ACKED \/ h_mode (p_conf (d_p s)) = UNACKED ->
     handle_eof_pdu c ck sz s = (s', Ok tt) ->
     dest_cancelled s' /\ fs_d s' = fs_d s /\
     (h_mode (p_conf (d_p s)) = UNACKED -> d_step s' = DS_TRANSFER_COMPLETION) /\
     (h_mode (p_conf (d_p s)) = ACKED -> d_step s' = DS_SENDING_EOF_ACK)) /\
  (* an EOF (cancel) received before the Metadata is handled exactly like any other EOF (cancel) (F32 repair) *)
  (forall c ck sz, c <> C_NO_ERROR ->
     (forall s, handle_eof_without_previous_metadata c ck sz s = handle_eof_pdu c ck sz s) /\
     (forall s s', d_state s = ST_BUSY ->
        h_mode (p_conf (d_p s)) = ACKED \/ h_mode (p_conf (d_p s)) = UNACKED ->
        handle_eof_without_previous_metadata c ck sz s = (s', Ok tt) ->
        dest_cancelled s' /\ fs_d s' = fs_d s /\
        (h_mode (p_conf (d_p s)) = UNACKED -> d_step s' = DS_TRANSFER_COMPLETION) /\
        (h_mode (p_conf (d_p s)) = ACKED -> d_step s' = DS_SENDING_EOF_ACK))) /\
  (* an EOF (cancel) received while the acknowledged-mode receiver waits for missing data stops the deferred
     lost-segment procedure and is handled by the same procedure (F33 repair): the whole busy call *)
  (forall fuel h c ck sz fl s s', d_state s = ST_BUSY -> d_step s = DS_WAITING_FOR_MISSING_DATA -> c <> C_NO_ERROR ->
     h_mode (p_conf (d_p s)) = ACKED ->
     non_idle_fsm fuel (Some (PEof h c ck sz fl)) s = (s', Ok tt) ->
     dest_cancelled s' /\ fs_d s' = fs_d s /\ d_step s' = DS_SENDING_EOF_ACK /\ p_deferred (d_p s') = false).
Proof.
  assert (E4 : forall c ck sz, c <> C_NO_ERROR ->
     forall s, handle_eof_without_previous_metadata c ck sz s = handle_eof_pdu c ck sz s).
  { intros c ck sz Hc s. unfold handle_eof_without_previous_metadata.
    apply Z.eqb_neq in Hc. rewrite Hc. reflexivity. }
  cut (forall c ck sz s s', d_state s = ST_BUSY -> c <> C_NO_ERROR ->
     h_mode (p_conf (d_p s)) = ACKED \/ h_mode (p_conf (d_p s)) = UNACKED ->
     handle_eof_pdu c ck sz s = (s', Ok tt) ->
     dest_cancelled s' /\ fs_d s' = fs_d s /\
     (h_mode (p_conf (d_p s)) = UNACKED -> d_step s' = DS_TRANSFER_COMPLETION) /\
     (h_mode (p_conf (d_p s)) = ACKED -> d_step s' = DS_SENDING_EOF_ACK)).
  { intro P3. split; [|split; [|split; [exact P3|split; [|exact nif_eof_cancel_waiting]]]].
  - intros a b s s' Hb H.
    destruct (Z_lt_le_dec 0 (d_ready s)) as [Hr|Hr].
    + rewrite (dest_cancel_unretrieved a b s (busy_not_idle s Hb) Hr) in H. discriminate H.
    + destruct (dest_cancel_iff a b s (busy_not_idle s Hb) Hr) as (s1 & r & E & _ & _ & Ht).
      rewrite H in E. injection E as <- <-.
      destruct (Ht eq_refl) as (H1 & H2 & H3 & _ & _ & _ & _ & H8 & _).
      split; [|split; assumption].
      split; [congruence | split; [exact H3 | left; exact H1]].
  - intros cond s s' Hb H.
    destruct (p_tid (d_p s)) as [[src seq]|] eqn:Ht; [|rewrite (dest_no_tid s cond Ht) in H; discriminate H].
    destruct (get_fault_handler (l_faults (d_cfg s)) cond) as [fh|] eqn:Hf;
      [|rewrite (dest_not_in_table s cond src seq Ht Hf) in H; discriminate H].
    destruct (Z.eqb_spec fh FH_CANCEL) as [->|Hne].
    + destruct (dest_cancel s cond src seq Ht Hf) as (s1 & E & _ & H2 & H3 & H4 & _ & _ & _ & H8).
      rewrite H in E. injection E as <-.
      split; [|split; assumption].
      split; [congruence | split; [exact H4 | left; exact H3]].
    + exfalso. revert H. unfold declare_fault. mrun. rewrite Ht, Hf.
      apply Z.eqb_neq in Hne. rewrite Hne.
      destruct (fh =? FH_ABANDON); unfold bind, reset_internal, emit, modify, ret, raise; intro H; [discriminate H|].
      injection H as _ E. apply Z.eqb_neq in Hne. contradiction.
  - intros c ck sz Hc. split; [exact (E4 c ck sz Hc)|].
    intros s s' Hb Hm H. rewrite (E4 c ck sz Hc) in H. exact (P3 c ck sz s s' Hb Hc Hm H). }
  { intros c ck sz s s' Hb Hc Hm H.
    destruct (eof_cancel_run c ck sz s s' Hb Hc Hm H) as (H1 & H2 & _ & _ & H5 & H6).
    split; [exact H1|]. split; [exact H2|]. split; assumption. }
Qed.

(* ------------------------------------------------------------------ why the statement reads as it does *)
Module CounterExamples.
  Definition r1 (disp : bool) : rcfg := mkRcfg 1 2 (Some 4) 64 false false ACKED CK_NULL 1000 2 2 disp false 1000 2.
  Definition cfg2 (disp : bool) : lcfg := mkLcfg 2 2 false false false true default_fault_table 1000 [r1 disp].
  Definition hin (mode : Z) : hdr := mkHdr TOWARDS_RECEIVER mode false false 1 2 2 0 2.
  Definition md (mode sz : Z) : pdu := PMetadata (hin mode) false CK_NULL sz (Some ([7], [8])) [].
  Definition sm (p : option pdu) (s : dst) : dst := fst (Dest.state_machine p s).
  Definition gn (s : dst) : dst := fst (Dest.get_next_packet s).
  Definition cr (s : dst) : dst := fst (Dest.cancel_request 1 0 s).
  Definition is_finished (e : event) : bool := match e with EvFinished _ _ _ _ _ _ => true | _ => false end.

  (* the first statement: cancelled = busy + disposition cancelled *)
  Definition dest_cancelled0 (s : dst) : Prop := d_state s = ST_BUSY /\ p_disp (d_p s) = DISP_CANCELED.

  (* 1. without the condition on the step the statement is false: a state that claims to be cancelled while the
        step is still "receiving file data" accepts a File Data PDU and writes it.  Such a state is not reachable:
        every cancellation moves the step to the completion (or to "sending EOF ACK", from where the completion
        is the only way on). *)
  Definition s_md : dst := sm (Some (md ACKED 4)) (dst_init (cfg2 true)).
  Definition s_bad : dst := s_md <| d_p ::= (fun p => p <| p_disp := DISP_CANCELED |>) |>.
  Example step_needed :
    dest_cancelled0 s_bad /\ d_step s_bad = DS_RECEIVING_FILE_DATA /\
    fs_d s_bad = [([8], File [])] /\
    fs_d (sm (Some (PFileData (hin ACKED) 0 [1; 2])) s_bad) = [([8], File [1; 2])] /\
    ~ fs_kept_or_deleted s_bad (sm (Some (PFileData (hin ACKED) 0 [1; 2])) s_bad).
  Proof.
    split; [split; reflexivity|]. split; [reflexivity|]. split; [reflexivity|]. split; [vm_compute; reflexivity|].
    intros [H|H]; vm_compute in H; discriminate H.
  Qed.

  (* 2. an EOF (cancel) establishes the invariant only for a transmission mode that exists: with the mode field 2
        (not representable in the one-bit field of a PDU header; the model's headers carry integers) the step is
        left where it was and file data is still accepted *)
  Definition s_m1 : dst := sm (Some (PFileData (hin 2) 0 [1; 2])) (dst_init (cfg2 true)).
  Definition s_m2 : dst := sm (Some (md 2 4)) s_m1.
  Example mode_needed :
    d_state s_m2 = ST_BUSY /\ h_mode (p_conf (d_p s_m2)) = 2 /\
    snd (handle_eof_pdu C_CANCEL_REQUEST [] 0 s_m2) = Ok tt /\
    let s' := fst (handle_eof_pdu C_CANCEL_REQUEST [] 0 s_m2) in
    dest_cancelled0 s' /\ d_step s' = DS_RECEIVING_FILE_DATA /\ ~ dest_cancelled s'.
  Proof.
    split; [reflexivity|]. split; [reflexivity|]. split; [vm_compute; reflexivity|]. cbv zeta.
    split; [split; vm_compute; reflexivity|]. split; [vm_compute; reflexivity|].
    intros (_ & _ & H). vm_compute in H. destruct H as [H|[H|[H|H]]]; discriminate H.
  Qed.

  (* 3. the invariant speaks about calls that START in a cancelled state.  The call in which a fault cancels the
        transaction may have written before: a File Data PDU beyond the size announced by the EOF is written first,
        then File Size Error is declared (no disposition on cancellation here, so the file stays) *)
  Definition s_f2 : dst := sm (Some (PEof (hin ACKED) C_NO_ERROR [0; 0; 0; 0] 2 None)) (sm (Some (md ACKED 4)) (dst_init (cfg2 false))).
  Definition s_f4 : dst := gn (sm None (gn s_f2)).
  Example write_then_cancel_in_one_call :
    d_state s_f4 = ST_BUSY /\ p_disp (d_p s_f4) = DISP_COMPLETED /\ fs_d s_f4 = [([8], File [])] /\
    let s' := sm (Some (PFileData (hin ACKED) 0 [1; 2; 3])) s_f4 in
    dest_cancelled s' /\ f_cond (p_fin (d_p s')) = C_FILE_SIZE_ERROR /\ fs_d s' = [([8], File [1; 2; 3])].
  Proof.
    split; [vm_compute; reflexivity|]. split; [vm_compute; reflexivity|]. split; [vm_compute; reflexivity|]. cbv zeta.
    split; [|split; vm_compute; reflexivity].
    split; [vm_compute; reflexivity|]. split; [vm_compute; reflexivity|].
    right; right; right. vm_compute. reflexivity.
  Qed.

  (* 4. non-vacuity: a cancel request on a transfer in progress; the next call is the cancelled completion, which
        deletes the incomplete file (disposition on cancellation) and queues the Finished PDU; from then on
        nothing changes *)
  Definition s_c2 : dst := cr s_md.
  Definition s_c3 : dst := sm None s_c2.
  Example cancelled_completion_deletes :
    dest_cancelled s_c2 /\ d_step s_c2 = DS_TRANSFER_COMPLETION /\ fs_d s_c2 = [([8], File [])] /\
    dest_cancelled s_c3 /\ dest_completion_done s_c3 /\ fs_d s_c3 = [] /\
    fs_d (sm (Some (PFileData (hin ACKED) 0 [1; 2])) (gn s_c3)) = [].
  Proof.
    split; [split; [reflexivity | split; [reflexivity | left; reflexivity]]|].
    split; [reflexivity|]. split; [reflexivity|].
    split; [split; [vm_compute; reflexivity | split; [vm_compute; reflexivity | right; right; right; vm_compute; reflexivity]]|].
    split; [right; vm_compute; reflexivity|]. split; vm_compute; reflexivity.
  Qed.

  (* 5. cancel_request is accepted again after the completion was performed and re-arms it (the step goes back to
        "transfer completion"): a transfer that completed successfully (Transaction-Finished with No Error / data
        complete delivered to the user, Finished PDU sent, waiting for its ACK) and is then cancelled by request
        reports Transaction-Finished a second time, now with Cancel Request Received, and sends a second,
        different Finished PDU.  This is the behaviour of dest.py cancel_request as well. *)
  Definition s_d4 : dst :=
    sm None (gn (sm (Some (PEof (hin ACKED) C_NO_ERROR [0; 0; 0; 0] 2 None))
                    (sm (Some (PFileData (hin ACKED) 0 [1; 2])) (sm (Some (md ACKED 2)) (dst_init (cfg2 true)))))).
  Definition s_d6 : dst := sm None (cr (gn s_d4)).
  Example cancel_request_after_completion_reports_twice :
    d_step s_d4 = DS_WAITING_FOR_FINISHED_ACK /\
    filter is_finished (log_d s_d4) = [EvFinished 1 0 C_NO_ERROR DATA_COMPLETE FS_RETAINED None] /\
    snd (Dest.cancel_request 1 0 (gn s_d4)) = Ok true /\
    filter is_finished (log_d s_d6) =
      [EvFinished 1 0 C_CANCEL_REQUEST DATA_COMPLETE FS_RETAINED (Some (2, 2));
       EvFinished 1 0 C_NO_ERROR DATA_COMPLETE FS_RETAINED None] /\
    d_queue s_d6 = [PFinished (set_dir TOWARDS_SENDER (hin ACKED)) C_CANCEL_REQUEST DATA_COMPLETE FS_RETAINED (Some (2, 2))].
  Proof. repeat split; vm_compute; reflexivity. Qed.

  (* 6. non-vacuity of the last way to cancel (F33 repair): Metadata, then the EOF with no file data: the receiver
        acknowledges the EOF, sends a NAK and waits for the missing data; the sender's EOF (cancel) arrives: the
        deferred procedure is stopped, the transaction is cancelled, the EOF (cancel) is acknowledged; the next call
        is the cancelled completion, which deletes the incomplete file and queues the Finished PDU *)
  Definition s_w5 : dst := gn (sm None (gn (sm (Some (PEof (hin ACKED) C_NO_ERROR [0; 0; 0; 0] 4 None)) s_md))).
  Definition s_w6 : dst := sm (Some (PEof (hin ACKED) C_CANCEL_REQUEST [0; 0; 0; 0] 0 None)) s_w5.
  Definition s_w8 : dst := sm None (gn s_w6).
  Example eof_cancel_while_waiting_for_missing_data :
    d_state s_w5 = ST_BUSY /\ d_step s_w5 = DS_WAITING_FOR_MISSING_DATA /\ p_deferred (d_p s_w5) = true /\
    p_disp (d_p s_w5) = DISP_COMPLETED /\ fs_d s_w5 = [([8], File [])] /\
    dest_cancelled s_w6 /\ d_step s_w6 = DS_SENDING_EOF_ACK /\ p_deferred (d_p s_w6) = false /\
    f_cond (p_fin (d_p s_w6)) = C_CANCEL_REQUEST /\ fs_d s_w6 = [([8], File [])] /\
    d_queue s_w6 = [PAck (set_dir TOWARDS_SENDER (hin ACKED)) D_EOF C_CANCEL_REQUEST 1] /\
    dest_cancelled s_w8 /\ dest_completion_done s_w8 /\ fs_d s_w8 = [] /\
    d_queue s_w8 = [PFinished (set_dir TOWARDS_SENDER (hin ACKED)) C_CANCEL_REQUEST DATA_INCOMPLETE
                      FS_DISCARDED_DELIBERATELY (Some (1, 2))].
  Proof.
    split; [vm_compute; reflexivity|]. split; [vm_compute; reflexivity|]. split; [vm_compute; reflexivity|].
    split; [vm_compute; reflexivity|]. split; [vm_compute; reflexivity|].
    split; [split; [vm_compute; reflexivity | split; [vm_compute; reflexivity | right; left; vm_compute; reflexivity]]|].
    split; [vm_compute; reflexivity|]. split; [vm_compute; reflexivity|]. split; [vm_compute; reflexivity|].
    split; [vm_compute; reflexivity|]. split; [vm_compute; reflexivity|].
    split; [split; [vm_compute; reflexivity | split; [vm_compute; reflexivity | right; right; right; vm_compute; reflexivity]]|].
    split; [right; vm_compute; reflexivity|]. split; vm_compute; reflexivity.
  Qed.
End CounterExamples.
