(* HistoryIndepProofs.v — proofs for props/C11b.v: history independence of idle handlers.

   Two idle handlers that agree on configuration, environment, queued PDUs, ready counter (and, sender, the sequence
   counter) give the same observations under EVERY sequence of API calls, although they differ in leftovers of their
   histories.  Method: a simulation relation that contains the initial pairs and is preserved by every call with equal
   results, proved function by function over the whole state machines with relational combinators ([R3]).

   Receiver.  The only leftover is [d_states_tid]; it is written in one place (common_first_packet_handler) and never
   read: relation [DEQ] "equal except d_states_tid", preserved by every function of Dest.v ([DR_*]).

   Sender.  Three layers of leftovers:
   1. [s_step_before] is read in one place (resuming from step RETRANSMITTING) and written when a NAK is answered, just
      before that step is entered: relation [EQ] "equal except s_step_before, and equal there too while the step is
      RETRANSMITTING", preserved by every function of Source.v for arbitrary inbound PDUs ([RE_*]).
   2. the source id fields [sc_src], [sc_srcw] of the header template (constructor: local id; reset: 0) are dead until
      transaction_start overwrites them: relation [GP] "additionally differ in these two fields, no transaction id
      yet, step IDLE or TRANSACTION_START".  Before the overwrite transaction_start reads neither field
      ([GP_transaction_start]); a failed start (a raise before the overwrite) stays in [GP], a raise after it is in [EQ];
      cancel_request finds no transaction id; admission reads sc_seq and sc_mode only ([U_check]).
   3. [s_put] of an idle handler is dead: put_request overwrites it before it is read, nothing else reads it while
      idle (state_machine returns at once, cancel_request finds no transaction id): relation [W].
   The invariant is [Inv] = [EQ] or [W].

   The draft asked for the four idle shapes of source_idle_fresh (props/C11.v), two of which carry an arbitrary
   [q_rcfg]: that is false ([draft_false_rcfg]: admission reads q_rcfg also while idle); the two handlers have to
   agree on it.  Histories never leave a remote configuration in an idle block ([source_idle_fresh2_preserved]), so
   for idle states produced by histories the hypothesis is automatic ([source_history_independent_reachable]). *)
From CFDP Require Import Base LostSeg Fs Crc Checksum Handler Dest Source HandlerSpec SourceSpec.
From CFDP.gen Require Import Tables.
From CFDP.proofs Require Import GuardProofs IsolationProofs.
From RecordUpdate Require Import RecordSet.
Import RecordSetNotations.

Local Opaque calculate_checksum.

(* ------------------------------------------------------------------ relational predicate, generic part *)
Section Gen.
  Context {S : Type}.

  (* started in two P-related states, the two runs of [m] give the same result and end in Q-related states
     (QE-related if they raise) *)
  Definition R3 {A} (P Q QE : S -> S -> Prop) (m : M S A) : Prop :=
    forall s s', P s s' ->
      snd (m s) = snd (m s') /\
      match snd (m s) with Ok _ => Q (fst (m s)) (fst (m s')) | Err _ => QE (fst (m s)) (fst (m s')) end.

  Lemma R3_ret {A} P QE (a : A) : R3 P P QE (ret a).
  Proof. intros s s' H. split; [reflexivity | exact H]. Qed.
  Lemma R3_raise {A} P Q e : R3 P Q P (@raise S A e).
  Proof. intros s s' H. split; [reflexivity | exact H]. Qed.
  Lemma R3_bind {A B} P Q R QE (m : M S A) (f : A -> M S B) :
    R3 P Q QE m -> (forall a, R3 Q R QE (f a)) -> R3 P R QE (bind m f).
  Proof.
    intros Hm Hf s s' H. unfold bind. destruct (Hm s s' H) as [E1 E2].
    destruct (m s) as [t [a|e]], (m s') as [t' [a'|e']]; cbn [fst snd] in *; try discriminate E1.
    - inversion E1; subst a'. apply Hf. exact E2.
    - inversion E1; subst e'. split; [reflexivity | exact E2].
  Qed.
  Lemma R3_weaken {A} (P P' Q Q' QE QE' : S -> S -> Prop) (m : M S A) :
    R3 P Q QE m -> (forall s s', P' s s' -> P s s') -> (forall s s', Q s s' -> Q' s s') ->
    (forall s s', QE s s' -> QE' s s') -> R3 P' Q' QE' m.
  Proof.
    intros H H1 H2 H3 s s' HP. destruct (H s s' (H1 s s' HP)) as [E1 E2]. split; [exact E1|].
    destruct (snd (m s)); [apply H2 | apply H3]; exact E2.
  Qed.
  Lemma R3_when I (b : bool) (m : M S unit) : R3 I I I m -> R3 I I I (when b m).
  Proof. intro H. unfold when. destruct b; [exact H | apply R3_ret]. Qed.
  Lemma R3_catch {A} I (m : M S A) (h : Z -> option (M S A)) :
    R3 I I I m -> (forall e k, h e = Some k -> R3 I I I k) -> R3 I I I (catch m h).
  Proof.
    intros Hm Hh s s' H. unfold catch. destruct (Hm s s' H) as [E1 E2].
    destruct (m s) as [t [a|e]], (m s') as [t' [a'|e']]; cbn [fst snd] in *; try discriminate E1.
    - split; [exact E1 | exact E2].
    - inversion E1; subst e'. destruct (h e) as [k|] eqn:Hk.
      + apply (Hh e k Hk). exact E2.
      + split; [reflexivity | exact E2].
  Qed.
  Lemma R3_fold {B} I (g : B -> M S unit) (l : list B) : forall m0,
    R3 I I I m0 -> (forall b, R3 I I I (g b)) -> R3 I I I (fold_left (fun m b => bind m (fun _ => g b)) l m0).
  Proof.
    induction l as [|b l IH]; intros m0 H0 Hg; cbn [fold_left]; [exact H0|].
    apply IH; [|exact Hg]. apply R3_bind with (Q := I); [exact H0 | intros _; apply Hg].
  Qed.
End Gen.

Ltac rhandler :=
  let e := fresh "e" in let k := fresh "k" in let Hh := fresh "Hh" in
  intros e k Hh; cbv beta in Hh;
  match type of Hh with
  | (if ?c then Some _ else None) = Some _ => destruct c; [inversion Hh; subst k; clear Hh | discriminate Hh]
  end.

(* ================================================================== receiver *)
(* the only leftover of earlier transactions in an idle receiver: the transaction id in the state wrapper *)
Definition tset (x : option (Z * Z)) (s : dst) : dst := s <| d_states_tid := x |>.
Definition DEQ (s s' : dst) : Prop := exists x, s' = tset x s.
Notation DR m := (R3 DEQ DEQ DEQ m).

Lemma DR_gets : forall A (f : dst -> A), (forall s x, f (tset x s) = f s) -> DR (gets f).
Proof. intros A f Hf s s' [x ->]. unfold gets. cbn [fst snd]. rewrite Hf. split; [reflexivity | exists x; reflexivity]. Qed.
Lemma DR_modify : forall (f : dst -> dst), (forall s x, f (tset x s) = tset x (f s)) -> DR (modify f).
Proof. intros f Hf s s' [x ->]. unfold modify. cbn [fst snd]. split; [reflexivity | exists x; apply Hf]. Qed.
Lemma DR_get : forall A (f : dst -> D A), (forall s0 x s, f (tset x s0) s = f s0 s) -> (forall s0, DR (f s0)) ->
  DR (bind get f).
Proof.
  intros A f H1 H2 s s' [x ->]. unfold bind, get. rewrite H1. apply H2. exists x. reflexivity.
Qed.

Create HintDb dr discriminated.

Ltac dunf :=
  unfold when, gp, setp, set_step, get_step, emit, now, tid_or_assert, rcfg_or_assert, tmode, mode_is, add_packet,
    reset_internal, conf, step_is, tracker_add, catch_abandoned.
Ltac dr1 :=
  lazymatch goal with
  | |- DR (bind get _) => apply DR_get; [intros; reflexivity | intro]
  | |- DR (bind _ _) => apply R3_bind with (Q := DEQ); [|intro]
  | |- DR (ret _) => apply R3_ret
  | |- DR (raise _) => apply R3_raise
  | |- DR (gets _) => apply DR_gets; intros; reflexivity
  | |- DR (modify _) => apply DR_modify; intros; reflexivity
  | |- DR (catch _ _) => apply R3_catch; [|rhandler]
  | |- DR (fold_left _ _ _) => apply R3_fold; [|intro]
  | |- DR (match ?o with _ => _ end) => destruct o
  | |- DR (let _ := _ in _) => cbv zeta
  end.
Ltac dr := repeat first [ solve [auto 1 with dr nocore] | dr1 | progress dunf ].

Lemma DR_notice_of_cancellation : forall c, DR (notice_of_cancellation c).
Proof. intros. unfold notice_of_cancellation. dr. Qed.
#[export] Hint Resolve DR_notice_of_cancellation : dr.
Lemma DR_declare_fault : forall c, DR (declare_fault c).
Proof. intros. unfold declare_fault. dr. Qed.
#[export] Hint Resolve DR_declare_fault : dr.
Lemma DR_vfs_checksum : forall t n sz, DR (vfs_checksum t n sz).
Proof. intros. unfold vfs_checksum. dr. Qed.
#[export] Hint Resolve DR_vfs_checksum : dr.
Lemma DR_checksum_verify : DR checksum_verify.
Proof. unfold checksum_verify. dr. Qed.
#[export] Hint Resolve DR_checksum_verify : dr.
Lemma DR_prepare_eof_ack_packet : DR prepare_eof_ack_packet.
Proof. unfold prepare_eof_ack_packet. dr. Qed.
#[export] Hint Resolve DR_prepare_eof_ack_packet : dr.
Lemma DR_file_transfer_complete_transition : DR file_transfer_complete_transition.
Proof. unfold file_transfer_complete_transition. dr. Qed.
#[export] Hint Resolve DR_file_transfer_complete_transition : dr.
Lemma DR_start_check_limit_handling : DR start_check_limit_handling.
Proof. unfold start_check_limit_handling. dr. Qed.
#[export] Hint Resolve DR_start_check_limit_handling : dr.
Lemma DR_remove_covered : forall a b sg, DR (remove_covered a b sg).
Proof. intros. unfold remove_covered. dr. Qed.
#[export] Hint Resolve DR_remove_covered : dr.
Lemma DR_lost_segment_handling : forall a b, DR (lost_segment_handling a b).
Proof. intros. unfold lost_segment_handling. dr. Qed.
#[export] Hint Resolve DR_lost_segment_handling : dr.
Lemma DR_vfs_write : forall n d o, DR (vfs_write n d o).
Proof. intros. unfold vfs_write. dr. Qed.
#[export] Hint Resolve DR_vfs_write : dr.
Lemma DR_filestore_rejection : DR filestore_rejection.
Proof. unfold filestore_rejection. dr. Qed.
#[export] Hint Resolve DR_filestore_rejection : dr.
Lemma DR_handle_fd_pdu : forall o d, DR (handle_fd_pdu o d).
Proof. intros. unfold handle_fd_pdu. dr. Qed.
#[export] Hint Resolve DR_handle_fd_pdu : dr.
Lemma DR_reset_nak_activity_parameters : DR reset_nak_activity_parameters.
Proof. unfold reset_nak_activity_parameters. dr. Qed.
#[export] Hint Resolve DR_reset_nak_activity_parameters : dr.
Lemma DR_deferred_lost_segment_handling : DR deferred_lost_segment_handling.
Proof. unfold deferred_lost_segment_handling. dr. Qed.
#[export] Hint Resolve DR_deferred_lost_segment_handling : dr.
Lemma DR_start_deferred_lost_segment_handling : DR start_deferred_lost_segment_handling.
Proof. unfold start_deferred_lost_segment_handling. dr. Qed.
#[export] Hint Resolve DR_start_deferred_lost_segment_handling : dr.
Lemma DR_handle_no_error_eof : DR handle_no_error_eof.
Proof. unfold handle_no_error_eof. dr. Qed.
#[export] Hint Resolve DR_handle_no_error_eof : dr.
Lemma DR_handle_eof_pdu : forall c k z, DR (handle_eof_pdu c k z).
Proof. intros. unfold handle_eof_pdu. dr. Qed.
#[export] Hint Resolve DR_handle_eof_pdu : dr.
Lemma DR_vfs_op_tree : forall f, DR (vfs_op_tree f).
Proof. intros. unfold vfs_op_tree. dr. Qed.
#[export] Hint Resolve DR_vfs_op_tree : dr.
Lemma DR_init_vfs_handling : forall b, DR (init_vfs_handling b).
Proof. intros. unfold init_vfs_handling. dr. Qed.
#[export] Hint Resolve DR_init_vfs_handling : dr.
Lemma DR_handle_metadata_packet : forall h cl ck sz names msgs, DR (handle_metadata_packet h cl ck sz names msgs).
Proof. intros. unfold handle_metadata_packet. dr. Qed.
#[export] Hint Resolve DR_handle_metadata_packet : dr.
(* the one writer of the remembered transaction id *)
Lemma DR_common_first_packet_handler : forall h, DR (common_first_packet_handler h).
Proof.
  intros h s s' [x ->]. unfold common_first_packet_handler, bind, get, put, ret.
  change (d_state (tset x s)) with (d_state s).
  destruct (negb (d_state s =? ST_IDLE)); cbn [fst snd]; (split; [reflexivity|]).
  - exists x. reflexivity.
  - exists (Some (h_src h, h_seq h)). reflexivity.
Qed.
#[export] Hint Resolve DR_common_first_packet_handler : dr.
Lemma DR_start_transaction : forall h cl ck sz names msgs, DR (start_transaction h cl ck sz names msgs).
Proof. intros. unfold start_transaction. dr. Qed.
#[export] Hint Resolve DR_start_transaction : dr.
Lemma DR_common_first_packet_not_metadata : forall h, DR (common_first_packet_not_metadata h).
Proof. intros. unfold common_first_packet_not_metadata. dr. Qed.
#[export] Hint Resolve DR_common_first_packet_not_metadata : dr.
Lemma DR_handle_eof_without_previous_metadata : forall c k z, DR (handle_eof_without_previous_metadata c k z).
Proof. intros. unfold handle_eof_without_previous_metadata. dr. Qed.
#[export] Hint Resolve DR_handle_eof_without_previous_metadata : dr.
Lemma DR_handle_fd_without_previous_metadata : forall f o d, DR (handle_fd_without_previous_metadata f o d).
Proof. intros. unfold handle_fd_without_previous_metadata. dr. Qed.
#[export] Hint Resolve DR_handle_fd_without_previous_metadata : dr.
Lemma DR_idle_fsm : forall pkt, DR (idle_fsm pkt).
Proof. intros. unfold idle_fsm. dr. Qed.
#[export] Hint Resolve DR_idle_fsm : dr.
Lemma DR_notice_of_completion : DR notice_of_completion.
Proof. unfold notice_of_completion. dr. Qed.
#[export] Hint Resolve DR_notice_of_completion : dr.
Lemma DR_handle_transfer_completion : DR handle_transfer_completion.
Proof. unfold handle_transfer_completion. dr. Qed.
#[export] Hint Resolve DR_handle_transfer_completion : dr.
Lemma DR_prepare_finished_pdu : DR prepare_finished_pdu.
Proof. unfold prepare_finished_pdu. dr. Qed.
#[export] Hint Resolve DR_prepare_finished_pdu : dr.
Lemma DR_start_positive_ack_procedure : DR start_positive_ack_procedure.
Proof. unfold start_positive_ack_procedure. dr. Qed.
#[export] Hint Resolve DR_start_positive_ack_procedure : dr.
Lemma DR_handle_finished_pdu_sent : DR handle_finished_pdu_sent.
Proof. unfold handle_finished_pdu_sent. dr. Qed.
#[export] Hint Resolve DR_handle_finished_pdu_sent : dr.
Lemma DR_fsm_advancement : DR fsm_advancement.
Proof. unfold fsm_advancement. dr. Qed.
#[export] Hint Resolve DR_fsm_advancement : dr.
Lemma DR_check_limit_handling : DR check_limit_handling.
Proof. unfold check_limit_handling. dr. Qed.
#[export] Hint Resolve DR_check_limit_handling : dr.
Lemma DR_handle_waiting_for_missing_metadata : forall pkt, DR (handle_waiting_for_missing_metadata pkt).
Proof. intros. unfold handle_waiting_for_missing_metadata. dr. Qed.
#[export] Hint Resolve DR_handle_waiting_for_missing_metadata : dr.
Lemma DR_handle_positive_ack_procedures : forall again, DR again -> DR (handle_positive_ack_procedures again).
Proof. intros again Ha. unfold handle_positive_ack_procedures. dr. Qed.
Lemma DR_handle_waiting_for_finished_ack : forall again pkt, DR again -> DR (handle_waiting_for_finished_ack again pkt).
Proof.
  intros again pkt Ha. pose proof (DR_handle_positive_ack_procedures again Ha) as Hp.
  unfold handle_waiting_for_finished_ack. dr.
Qed.
Lemma DR_non_idle_fsm : forall fuel pkt, DR (non_idle_fsm fuel pkt).
Proof.
  induction fuel as [|k IH]; intro pkt; cbn [non_idle_fsm].
  - assert (Ha : DR (@raise dst unit E_FUEL)) by apply R3_raise.
    pose proof (fun pkt => DR_handle_waiting_for_finished_ack _ pkt Ha) as Hw. dr.
  - assert (Ha : DR (catch_abandoned (s <- get ;; when (d_state s =? ST_BUSY) (non_idle_fsm k None)))).
    { pose proof (IH None) as IH0. dr. }
    pose proof (fun pkt => DR_handle_waiting_for_finished_ack _ pkt Ha) as Hw. dr.
Qed.
#[export] Hint Resolve DR_non_idle_fsm : dr.
Lemma DR_check_inserted_packet : forall p, DR (check_inserted_packet p).
Proof. intros. unfold check_inserted_packet. dr. Qed.
#[export] Hint Resolve DR_check_inserted_packet : dr.
Lemma DR_state_machine : forall pkt, DR (Dest.state_machine pkt).
Proof. intros. unfold Dest.state_machine. dr. Qed.
Lemma DR_get_next_packet : DR Dest.get_next_packet.
Proof.
  intros s s' [x ->]. unfold Dest.get_next_packet, bind, get, put, ret.
  change (d_queue (tset x s)) with (d_queue s).
  destruct (d_queue s); cbn [fst snd]; (split; [reflexivity | exists x; reflexivity]).
Qed.
Lemma DR_cancel_request : forall a b, DR (Dest.cancel_request a b).
Proof. intros. unfold Dest.cancel_request. dr. Qed.
Lemma DR_reset : DR Dest.reset.
Proof. unfold Dest.reset. dr. Qed.

(* ------------------------------------------------------------------ the API of a handler as data (props/C11b.v) *)
Inductive dcall := DSm (pkt : option pdu) | DGet | DCancel (a b : Z) | DReset | DTick (ms : Z).
Definition dapply (c : dcall) (s : dst) : dst * (res Z unit * option pdu * bool) :=
  match c with
  | DSm pkt => let '(s', r) := Dest.state_machine pkt s in (s', (r, None, false))
  | DGet => let '(s', r) := Dest.get_next_packet s in
            (s', (match r with Ok _ => Ok tt | Err e => Err e end, match r with Ok o => o | Err _ => None end, false))
  | DCancel a b => let '(s', r) := Dest.cancel_request a b s in
                   (s', (match r with Ok _ => Ok tt | Err e => Err e end, None, match r with Ok b => b | Err _ => false end))
  | DReset => let '(s', r) := Dest.reset s in (s', (r, None, false))
  | DTick ms => (s <| d_env ::= (fun e => e <| e_now ::= Z.add ms |>) |>, (Ok tt, None, false))
  end.
Definition dview (s : dst) := (d_state s, d_step s, d_ready s, d_queue s, d_env s).
Fixpoint druns (cs : list dcall) (s : dst) : list (res Z unit * option pdu * bool * (Z * Z * Z * list pdu * env)) :=
  match cs with
  | [] => []
  | c :: t => let '(s', o) := dapply c s in (o, dview s') :: druns t s'
  end.

Lemma R3_run : forall S A (I : S -> S -> Prop) (m : M S A) s s', R3 I I I m -> I s s' ->
  snd (m s) = snd (m s') /\ I (fst (m s)) (fst (m s')).
Proof. intros S A I m s s' Hm H. destruct (Hm s s' H) as [E1 E2]. split; [exact E1|]. destruct (snd (m s)); exact E2. Qed.

Lemma dapply_DEQ : forall c s s', DEQ s s' -> snd (dapply c s) = snd (dapply c s') /\ DEQ (fst (dapply c s)) (fst (dapply c s')).
Proof.
  intros c s s' H. destruct c as [pkt| |a b| |ms]; unfold dapply.
  - destruct (R3_run _ _ _ _ s s' (DR_state_machine pkt) H) as [E1 E2].
    destruct (Dest.state_machine pkt s) as [t r], (Dest.state_machine pkt s') as [t' r']. cbn [fst snd] in *. subst r'.
    split; [reflexivity | exact E2].
  - destruct (R3_run _ _ _ _ s s' DR_get_next_packet H) as [E1 E2].
    destruct (Dest.get_next_packet s) as [t r], (Dest.get_next_packet s') as [t' r']. cbn [fst snd] in *. subst r'.
    split; [reflexivity | exact E2].
  - destruct (R3_run _ _ _ _ s s' (DR_cancel_request a b) H) as [E1 E2].
    destruct (Dest.cancel_request a b s) as [t r], (Dest.cancel_request a b s') as [t' r']. cbn [fst snd] in *. subst r'.
    split; [reflexivity | exact E2].
  - destruct (R3_run _ _ _ _ s s' DR_reset H) as [E1 E2].
    destruct (Dest.reset s) as [t r], (Dest.reset s') as [t' r']. cbn [fst snd] in *. subst r'.
    split; [reflexivity | exact E2].
  - destruct H as [x ->]. cbn [fst snd]. split; [reflexivity | exists x; reflexivity].
Qed.

Lemma druns_DEQ : forall cs s s', DEQ s s' -> druns cs s = druns cs s'.
Proof.
  induction cs as [|c cs IH]; intros s s' H; [reflexivity|]. cbn [druns].
  destruct (dapply_DEQ c s s' H) as [E1 E2].
  destruct (dapply c s) as [t o], (dapply c s') as [t' o']. cbn [fst snd] in *. subst o'.
  rewrite (IH t t' E2). destruct E2 as [x ->]. reflexivity.
Qed.

Lemma dest_history_independent : forall (s1 s2 : dst) (cs : list dcall),
  d_state s1 = ST_IDLE -> d_state s2 = ST_IDLE -> d_step s1 = DS_IDLE -> d_step s2 = DS_IDLE ->
  d_p s1 = fresh_params -> d_p s2 = fresh_params ->
  d_cfg s1 = d_cfg s2 -> d_env s1 = d_env s2 -> d_queue s1 = d_queue s2 -> d_ready s1 = d_ready s2 ->
  druns cs s1 = druns cs s2.
Proof.
  intros s1 s2 cs H1 H2 H3 H4 H5 H6 H7 H8 H9 H10. apply druns_DEQ. exists (d_states_tid s2).
  destruct s1, s2. cbn in *. subst. reflexivity.
Qed.

(* stronger form: nothing but agreement outside the remembered transaction id is needed, in any state *)
Lemma dest_history_independent_any : forall (s1 s2 : dst) (cs : list dcall),
  s2 = s1 <| d_states_tid := d_states_tid s2 |> -> druns cs s1 = druns cs s2.
Proof. intros s1 s2 cs H. apply druns_DEQ. exists (d_states_tid s2). exact H. Qed.

(* ================================================================== sender *)
Definition sb (x : option Z) (s : src) : src := s <| s_step_before := x |>.
Definition ssrc (a b : Z) (s : src) : src :=
  s <| s_p ::= (fun q => q <| q_conf ::= (fun c => c <| sc_src := a |> <| sc_srcw := b |>) |>) |>.
Definition sput (p : option putreq) (s : src) : src := s <| s_put := p |>.

(* ------------------------------------------------------------------ layer 1: the remembered resume step *)
(* equal except for the remembered step, which is equal too while it is live (step RETRANSMITTING) *)
Definition EQ (s s' : src) : Prop :=
  exists x, s' = sb x s /\ (s_step s = SS_RETRANSMITTING -> s_step_before s = x).
Notation RE m := (R3 EQ EQ EQ m).

Lemma RE_gets : forall A (f : src -> A), (forall s x, f (sb x s) = f s) -> RE (gets f).
Proof.
  intros A f Hf s s' [x [-> Hx]]. unfold gets. cbn [fst snd]. rewrite Hf.
  split; [reflexivity | exists x; split; [reflexivity | exact Hx]].
Qed.
Lemma RE_modify : forall (f : src -> src), (forall s x, f (sb x s) = sb x (f s)) ->
  (forall s, s_step (f s) <> SS_RETRANSMITTING \/ (s_step (f s) = s_step s /\ s_step_before (f s) = s_step_before s)) ->
  RE (modify f).
Proof.
  intros f H1 H2 s s' [x [-> Hx]]. unfold modify. cbn [fst snd]. split; [reflexivity|].
  exists x. split; [apply H1|]. intro Hs. destruct (H2 s) as [Hn|[Ha Hb]]; [contradiction|].
  rewrite Hb. apply Hx. rewrite <- Ha. exact Hs.
Qed.
Lemma RE_get : forall A (f : src -> SM A), (forall s0 x s, f (sb x s0) s = f s0 s) -> (forall s0, RE (f s0)) ->
  RE (bind get f).
Proof.
  intros A f H1 H2 s s' [x [-> Hx]]. unfold bind, get. rewrite H1. apply H2. exists x. split; [reflexivity | exact Hx].
Qed.
Lemma RE_get_put : forall A (g : src -> src) (f : src -> SM A),
  (forall s x, g (sb x s) = sb x (g s)) ->
  (forall s, s_step (g s) <> SS_RETRANSMITTING \/ (s_step (g s) = s_step s /\ s_step_before (g s) = s_step_before s)) ->
  (forall s0 x s, f (sb x s0) s = f s0 s) -> (forall s0, RE (f s0)) ->
  RE (bind get (fun s => bind (put (g s)) (fun _ => f s))).
Proof.
  intros A g f H1 H2 H3 H4 s s' [x [-> Hx]].
  assert (Hq : forall t, bind get (fun s => bind (put (g s)) (fun _ => f s)) t = f t (g t)) by reflexivity.
  rewrite !Hq. rewrite H1, H3. apply H4.
  exists x. split; [reflexivity|]. intro Hs. destruct (H2 s) as [Hn|[Ha Hb]]; [contradiction|].
  rewrite Hb. apply Hx. rewrite <- Ha. exact Hs.
Qed.

Create HintDb re discriminated.

Ltac frame_tac :=
  intros; first [ right; split; reflexivity
                | left; unfold set; cbn; let E := fresh in intro E; cbv in E; discriminate E ].
Ltac sunf :=
  unfold when, gq, setq, sset_step, semit, snow, stid_or_assert, srcfg_or_assert, put_or_assert, stmode, smode_is,
    sadd_packet, sstep_is, src_names, sreset_internal.
Ltac re1 :=
  lazymatch goal with
  | |- RE (bind get _) => apply RE_get; [intros; reflexivity | intro]
  | |- RE (bind _ _) => apply R3_bind with (Q := EQ); [|intro]
  | |- RE (ret _) => apply R3_ret
  | |- RE (raise _) => apply R3_raise
  | |- RE (gets _) => apply RE_gets; intros; reflexivity
  | |- RE (modify _) => apply RE_modify; [intros; reflexivity | frame_tac]
  | |- RE (fold_left _ _ _) => apply R3_fold; [|intro]
  | |- RE (match ?o with _ => _ end) => destruct o
  | |- RE (let _ := _ in _) => cbv zeta
  end.
Ltac re := repeat first [ solve [auto 1 with re nocore] | re1 | progress sunf ].

Lemma RE_checksum_calculation : forall sz, RE (checksum_calculation sz).
Proof. intros. unfold checksum_calculation. re. Qed.
#[export] Hint Resolve RE_checksum_calculation : re.
Lemma RE_smode_is : forall m, RE (smode_is m).
Proof. intros. re. Qed.
#[export] Hint Resolve RE_smode_is : re.
Lemma RE_prepare_file_data_pdu : forall o l, RE (prepare_file_data_pdu o l).
Proof. intros. unfold prepare_file_data_pdu. re. Qed.
#[export] Hint Resolve RE_prepare_file_data_pdu : re.
Lemma RE_prepare_metadata_pdu : RE prepare_metadata_pdu.
Proof. unfold prepare_metadata_pdu. re. Qed.
#[export] Hint Resolve RE_prepare_metadata_pdu : re.
Lemma RE_prepare_eof_pdu : forall ck, RE (prepare_eof_pdu ck).
Proof. intros. unfold prepare_eof_pdu. re. Qed.
#[export] Hint Resolve RE_prepare_eof_pdu : re.
Lemma RE_start_positive_ack_procedure_s : RE start_positive_ack_procedure_s.
Proof. unfold start_positive_ack_procedure_s. re. Qed.
#[export] Hint Resolve RE_start_positive_ack_procedure_s : re.
Lemma RE_notice_of_completion_s : RE notice_of_completion_s.
Proof. unfold notice_of_completion_s. re. Qed.
#[export] Hint Resolve RE_notice_of_completion_s : re.
Lemma RE_handle_eof_sent : forall b, RE (handle_eof_sent b).
Proof. intros. unfold handle_eof_sent. re. Qed.
#[export] Hint Resolve RE_handle_eof_sent : re.
Lemma RE_notice_of_cancellation_s : forall c, RE (notice_of_cancellation_s c).
Proof. intros. unfold notice_of_cancellation_s. re. Qed.
#[export] Hint Resolve RE_notice_of_cancellation_s : re.
Lemma RE_declare_fault_s : forall c, RE (declare_fault_s c).
Proof. intros. unfold declare_fault_s. re. Qed.
#[export] Hint Resolve RE_declare_fault_s : re.

(* the part of transaction_start after the header template has been completed *)
Definition ts_tail (p : putreq) (r : rcfg) (l : lcfg) : SM unit :=
  let orig := match pr_msgs p with None => None | Some l => originating_id l None false end in
  (s <- get ;;
  let next := s_seq_count s in
  put (s <| s_seq_count := next + 1 |>) ;;;
  (if negb ((s_seq_bits s =? 8) || (s_seq_bits s =? 16) || (s_seq_bits s =? 32)) then raise E_VALUE
   else if 2 ^ (s_seq_bits s) <=? next then raise E_VALUE
   else setq (fun q => q <| q_conf ::= (fun c => c <| sc_seq := next |> <| sc_seqw := s_seq_bits s / 8 |>) |>)) ;;;
  c <- gq q_conf ;;
  (match max_file_seg_len (hdr_of c TOWARDS_RECEIVER) (r_max_packet r) with
   | None => raise E_VALUE
   | Some derived =>
       let h := hdr_of c TOWARDS_RECEIVER in
       if r_max_packet r <? hdr_len h + 1 + 1 + 4 + fss_len h + crc_len h then raise E_VALUE else
       let seg := match r_max_seg r with
                  | Some m => if m <? derived then m else derived
                  | None => derived end in
       setq (fun q => q <| q_segment_len := seg |>)
   end) ;;;
  c <- gq q_conf ;;
  setq (fun q => q <| q_tid := Some (l_id l, sc_seq c) |>) ;;;
  semit (EvTransaction (l_id l) (sc_seq c) orig))%monad.

Lemma RE_ts_tail : forall p r l, RE (ts_tail p r l).
Proof.
  intros. unfold ts_tail. cbv zeta.
  apply RE_get_put; [intros; reflexivity | frame_tac | intros; reflexivity | intro s0; re].
Qed.

(* the overwriting of the source id fields of the header template, and the rest *)
Definition ts_over (p : putreq) (r : rcfg) (l : lcfg) : SM unit :=
  (let w := Z.max (l_idw l) (pr_dstw p) in
  setq (fun q => q <| q_conf ::= (fun c => c <| sc_src := l_id l |> <| sc_srcw := w |> <| sc_dst := pr_dst p |>
                                              <| sc_dstw := w |> <| sc_crc := r_crc r |>) |>) ;;;
  ts_tail p r l)%monad.

Lemma RE_ts_over : forall p r l, RE (ts_over p r l).
Proof. intros. pose proof (RE_ts_tail p r l). unfold ts_over. re. Qed.

Lemma RE_transaction_start : RE transaction_start.
Proof.
  unfold transaction_start.
  apply R3_bind with (Q := EQ); [re | intro p]. cbv zeta.
  apply R3_bind with (Q := EQ); [re | intros _].
  apply R3_bind with (Q := EQ); [re | intro r].
  apply R3_bind with (Q := EQ); [re | intro l].
  apply R3_bind with (Q := EQ); [re | intro fsz].
  apply R3_bind with (Q := EQ); [re | intro mdo].
  apply R3_bind with (Q := EQ); [re | intros _].
  exact (RE_ts_over p r l).
Qed.
#[export] Hint Resolve RE_transaction_start : re.

Lemma RE_retransmit_chunks : forall fuel o m sg, RE (retransmit_chunks fuel o m sg).
Proof.
  induction fuel as [|k IH]; intros o m sg; cbn [retransmit_chunks]; [re|].
  pose proof (IH (o + Z.min m sg) (m - Z.min m sg) sg). re.
Qed.
#[export] Hint Resolve RE_retransmit_chunks : re.
Lemma RE_handle_segment_req : forall rq, RE (handle_segment_req rq).
Proof. intros [a b]. unfold handle_segment_req. re. Qed.
#[export] Hint Resolve RE_handle_segment_req : re.

(* the one writer of the remembered step *)
Lemma RE_remember : RE (s <- get ;; put (s <| s_step_before := Some (s_step s) |> <| s_step := SS_RETRANSMITTING |>) ;;; ret true)%monad.
Proof.
  intros s s' [x [-> Hx]]. unfold bind, get, put, ret. cbn [fst snd]. split; [reflexivity|].
  exists (Some (s_step s)). split; [reflexivity | intros _; reflexivity].
Qed.
Lemma RE_handle_retransmission : forall pkt, RE (handle_retransmission pkt).
Proof.
  intros pkt. pose proof RE_remember. unfold handle_retransmission.
  destruct pkt as [[]|]; try apply R3_ret.
  apply R3_bind with (Q := EQ); [re | intros _; assumption].
Qed.
#[export] Hint Resolve RE_handle_retransmission : re.

Lemma RE_prepare_progressing : RE prepare_progressing_file_data_pdu.
Proof. unfold prepare_progressing_file_data_pdu. re. Qed.
#[export] Hint Resolve RE_prepare_progressing : re.
Lemma RE_sending_file_data_fsm : forall pkt, RE (sending_file_data_fsm pkt).
Proof. intros. unfold sending_file_data_fsm. re. Qed.
#[export] Hint Resolve RE_sending_file_data_fsm : re.
Lemma RE_handle_positive_ack_procedures_s : RE handle_positive_ack_procedures_s.
Proof. unfold handle_positive_ack_procedures_s. re. Qed.
#[export] Hint Resolve RE_handle_positive_ack_procedures_s : re.
Lemma RE_handle_waiting_for_ack : forall pkt, RE (handle_waiting_for_ack pkt).
Proof. intros. unfold handle_waiting_for_ack. re. Qed.
#[export] Hint Resolve RE_handle_waiting_for_ack : re.
Lemma RE_handle_wait_for_finish : forall pkt, RE (handle_wait_for_finish pkt).
Proof. intros. unfold handle_wait_for_finish. re. Qed.
#[export] Hint Resolve RE_handle_wait_for_finish : re.

(* the one reader of the remembered step: resuming from step RETRANSMITTING, where the two runs agree on it *)
Ltac by_re s x Hx :=
  match goal with
  | |- snd (?m s) = snd (?m (sb x s)) /\ _ =>
      let Hm := fresh in assert (Hm : RE m) by re; apply Hm; exists x; split; [reflexivity | exact Hx]
  end.
Definition adv_body (s : src) : SM unit :=
  if 0 <? zlen (s_queue s) then raise E_UNRETRIEVED else
  let st := s_step s in
  if st =? SS_SENDING_METADATA then sset_step SS_SENDING_FILE_DATA
  else if st =? SS_RETRANSMITTING then
    match s_step_before s with None => raise E_ASSERT | Some b => sset_step b end
  else if st =? SS_SENDING_FILE_DATA then
    let q := s_p s in
    when (match q_file_size q with Some sz => q_progress q =? sz | None => false end)
      (setq (fun q => q <| q_cond_eof := Some C_NO_ERROR |>) ;;; sset_step SS_SENDING_EOF)
  else if st =? SS_SENDING_ACK_OF_FINISHED then sset_step SS_NOTICE_OF_COMPLETION
  else ret tt.
Lemma adv_eq : forall t, fsm_advancement_s t = adv_body t t.
Proof. reflexivity. Qed.
Lemma RE_fsm_advancement_s : RE fsm_advancement_s.
Proof.
  intros s s' [x [-> Hx]]. rewrite !adv_eq. unfold adv_body. cbv zeta.
  change (s_queue (sb x s)) with (s_queue s). change (s_step (sb x s)) with (s_step s).
  change (s_p (sb x s)) with (s_p s). change (s_step_before (sb x s)) with x.
  destruct (0 <? zlen (s_queue s)); [by_re s x Hx|].
  destruct (s_step s =? SS_SENDING_METADATA); [by_re s x Hx|].
  destruct (s_step s =? SS_RETRANSMITTING) eqn:E.
  - apply Z.eqb_eq in E. rewrite (Hx E). destruct x as [b|].
    + unfold sset_step, modify. cbn [fst snd]. split; [reflexivity|]. exists (Some b).
      split; [reflexivity | intros _; cbn; apply Hx; exact E].
    + unfold raise. cbn [fst snd]. split; [reflexivity|]. exists None. split; [reflexivity | exact Hx].
  - destruct (s_step s =? SS_SENDING_FILE_DATA); [by_re s x Hx|].
    destruct (s_step s =? SS_SENDING_ACK_OF_FINISHED); by_re s x Hx.
Qed.
#[export] Hint Resolve RE_fsm_advancement_s : re.

(* the FSM from step SENDING_METADATA on *)
Definition fni_rest (pkt : option pdu) : SM unit :=
  (b <- sstep_is SS_SENDING_METADATA ;;
   if b then prepare_metadata_pdu else
   b <- sstep_is SS_SENDING_FILE_DATA ;;
   stop <- (if b then sending_file_data_fsm pkt else ret false) ;;
   if stop then ret tt else
   b <- sstep_is SS_SENDING_EOF ;;
   when b (fsz <- gq q_file_size ;; ck <- checksum_calculation (opt_z fsz) ;;
           prepare_eof_pdu ck ;;; handle_eof_sent false) ;;;
   b <- sstep_is SS_WAITING_FOR_EOF_ACK ;;
   when b (handle_waiting_for_ack pkt) ;;;
   b <- sstep_is SS_WAITING_FOR_FINISHED ;;
   when b (handle_wait_for_finish pkt) ;;;
   b <- sstep_is SS_NOTICE_OF_COMPLETION ;;
   when b notice_of_completion_s)%monad.
Lemma RE_fni_rest : forall pkt, RE (fni_rest pkt).
Proof. intros. unfold fni_rest. re. Qed.
#[export] Hint Resolve RE_fni_rest : re.

Lemma RE_fsm_non_idle : forall pkt, RE (fsm_non_idle pkt).
Proof. intros. unfold fsm_non_idle. fold (fni_rest pkt). re. Qed.
#[export] Hint Resolve RE_fsm_non_idle : re.
Lemma RE_check_inserted_packet_s : forall p, RE (check_inserted_packet_s p).
Proof. intros. unfold check_inserted_packet_s. re. Qed.
#[export] Hint Resolve RE_check_inserted_packet_s : re.
Lemma RE_state_machine_s : forall pkt, RE (state_machine_s pkt).
Proof. intros. unfold state_machine_s. re. Qed.
Lemma RE_get_next_packet_s : RE get_next_packet_s.
Proof.
  intros s s' [x [-> Hx]]. unfold get_next_packet_s, bind, get, put, ret.
  change (s_queue (sb x s)) with (s_queue s).
  destruct (s_queue s); cbn [fst snd]; (split; [reflexivity | exists x; split; [reflexivity | exact Hx]]).
Qed.
Lemma RE_cancel_request_s : forall a b, RE (cancel_request_s a b).
Proof. intros. unfold cancel_request_s. re. Qed.
Lemma RE_reset_s : RE reset_s.
Proof. unfold reset_s. re. Qed.
Definition put_tail (p : putreq) (s : src) : SM bool :=
  ((match pr_names p with
   | Some (sn, _) => if fs_file_exists (e_fs (s_env s)) sn then ret tt else raise E_SOURCE_FILE_MISSING
   | None => ret tt
   end) ;;;
  let r := get_remote (l_remotes (s_cfg s)) (pr_dst p) in
  setq (fun q => q <| q_rcfg := r |>) ;;;
  match r with
  | None => raise E_NO_REMOTE_CFG
  | Some r =>
    setq (fun q => q <| q_conf ::= (fun c => c <| sc_dst := pr_dst p |> <| sc_dstw := pr_dstw p |>) |>) ;;;
    modify (fun s => s <| s_state := ST_BUSY |>) ;;;
    let mode := match pr_mode p with Some m => m | None => r_mode r end in
    let cl := match pr_closure p with Some c => c | None => r_closure r end in
    setq (fun q => q <| q_conf ::= (fun c => c <| sc_mode := mode |>) |> <| q_closure := cl |>) ;;;
    ret true
  end)%monad.
Lemma put_eq : forall p t, put_request p t =
  if negb (s_state t =? ST_IDLE) then (t, Ok false) else put_tail p t (t <| s_put := Some p |>).
Proof. intros. unfold put_request, bind at 1, get. destruct (negb (s_state t =? ST_IDLE)); reflexivity. Qed.
Lemma RE_put_tail : forall p s0, RE (put_tail p s0).
Proof. intros. unfold put_tail. re. Qed.
Lemma RE_put_request : forall p, RE (put_request p).
Proof.
  intros p s s' [x [-> Hx]]. rewrite !put_eq.
  change (s_state (sb x s)) with (s_state s).
  destruct (negb (s_state s =? ST_IDLE)).
  - cbn [fst snd]. split; [reflexivity | exists x; split; [reflexivity | exact Hx]].
  - change (put_tail p (sb x s)) with (put_tail p s).
    apply (RE_put_tail p s). exists x. split; [reflexivity | exact Hx].
Qed.

(* ------------------------------------------------------------------ layer 2: the source id fields of the header template *)
(* before the transaction has started (no transaction id yet, step IDLE or TRANSACTION_START) the two handlers may also
   differ in the source id fields of the header template *)
Definition GP (s s' : src) : Prop :=
  exists x a b, s' = sb x (ssrc a b s) /\ q_tid (s_p s) = None /\
                (s_step s = SS_IDLE \/ s_step s = SS_TRANSACTION_START).
Definition GE (s s' : src) : Prop := GP s s' \/ EQ s s'.

Lemma GP_gets : forall A QE (f : src -> A), (forall s x a b, f (sb x (ssrc a b s)) = f s) -> R3 GP GP QE (gets f).
Proof.
  intros A QE f Hf s s' (x & a & b & -> & Ht & Hs). unfold gets. cbn [fst snd]. rewrite Hf.
  split; [reflexivity | exists x, a, b; repeat split; assumption].
Qed.
Lemma GP_modify : forall QE (f : src -> src), (forall s x a b, f (sb x (ssrc a b s)) = sb x (ssrc a b (f s))) ->
  (forall s, q_tid (s_p (f s)) = q_tid (s_p s) /\ s_step (f s) = s_step s) -> R3 GP GP QE (modify f).
Proof.
  intros QE f H1 H2 s s' (x & a & b & -> & Ht & Hs). unfold modify. cbn [fst snd]. split; [reflexivity|].
  destruct (H2 s) as [Ha Hb]. exists x, a, b. rewrite Ha, Hb. repeat split; [apply H1 | exact Ht | exact Hs].
Qed.
Lemma GP_raise : forall A Q e, R3 GP Q GE (@raise src A e).
Proof. intros A Q e s s' H. split; [reflexivity | left; exact H]. Qed.

Ltac gp1 :=
  lazymatch goal with
  | |- R3 GP GP GE (bind _ _) => apply R3_bind with (Q := GP); [|intro]
  | |- R3 GP GP GE (ret _) => apply R3_ret
  | |- R3 GP GP GE (raise _) => apply GP_raise
  | |- R3 GP GP GE (gets _) => apply GP_gets; intros; reflexivity
  | |- R3 GP GP GE (modify _) => apply GP_modify; [intros; reflexivity | intros; split; reflexivity]
  | |- R3 GP GP GE (match ?o with _ => _ end) => destruct o
  | |- R3 GP GP GE (let _ := _ in _) => cbv zeta
  end.
Ltac gp := repeat first [ gp1 | progress sunf ].

(* transaction start completes the template: afterwards the two runs differ in the remembered step only *)
Lemma GP_ts_over : forall p r l, R3 GP EQ GE (ts_over p r l).
Proof.
  intros p r l. unfold ts_over. cbv zeta. apply R3_bind with (Q := EQ).
  - intros s s' (x & a & b & -> & Ht & Hs). unfold setq, modify. cbn [fst snd]. split; [reflexivity|].
    exists x. split; [reflexivity|]. intro E. cbn in E. destruct Hs as [Hs|Hs]; rewrite Hs in E; discriminate E.
  - intros _. eapply R3_weaken; [apply RE_ts_tail | auto | auto | intros s s' H; right; exact H].
Qed.

Lemma GP_transaction_start : R3 GP EQ GE transaction_start.
Proof.
  unfold transaction_start.
  apply R3_bind with (Q := GP); [gp | intro p]. cbv zeta.
  apply R3_bind with (Q := GP); [gp | intros _].
  apply R3_bind with (Q := GP); [gp | intro r].
  apply R3_bind with (Q := GP); [gp | intro l].
  apply R3_bind with (Q := GP); [gp | intro fsz].
  apply R3_bind with (Q := GP); [gp | intro mdo].
  apply R3_bind with (Q := GP); [gp | intros _].
  exact (GP_ts_over p r l).
Qed.

(* the FSM call of a busy handler whose transaction has not started yet *)
Definition fni_start (pkt : option pdu) : SM unit :=
  ((transaction_start ;;; sset_step SS_SENDING_METADATA) ;;; fni_rest pkt)%monad.

Lemma GP_fni_start : forall pkt, R3 GP GE GE (fni_start pkt).
Proof.
  intro pkt. unfold fni_start. apply R3_bind with (Q := EQ).
  - apply R3_bind with (Q := EQ); [exact GP_transaction_start | intros _].
    eapply R3_weaken with (P := EQ) (Q := EQ) (QE := EQ); [sunf; re | auto | auto | intros s s' H; right; exact H].
  - intros _. eapply R3_weaken; [apply RE_fni_rest | auto | intros s s' H; right; exact H | intros s s' H; right; exact H].
Qed.

Lemma fni_pre : forall pkt s, s_step s = SS_IDLE \/ s_step s = SS_TRANSACTION_START ->
  fsm_non_idle pkt s =
    if 0 <? zlen (s_queue s) then (s, Err E_UNRETRIEVED)
    else match s_put s with
         | None => (s, Ok tt)
         | Some _ => fni_start pkt (s <| s_step := SS_TRANSACTION_START |>)
         end.
Proof.
  intros pkt s Hs. unfold fsm_non_idle. fold (fni_rest pkt). unfold bind at 1. rewrite adv_eq. unfold adv_body.
  destruct s as [cfg st step ready queue q sbf pt sc sbits en]. cbn [s_step s_queue s_put] in *.
  destruct (0 <? zlen queue); [reflexivity|].
  destruct Hs as [-> | ->]; (destruct pt as [p|]; reflexivity).
Qed.

Lemma GP_fsm_non_idle : forall pkt, R3 GP GE GE (fsm_non_idle pkt).
Proof.
  intros pkt s s' H. pose proof H as (x & a & b & -> & Ht & Hs).
  rewrite (fni_pre pkt s Hs). rewrite (fni_pre pkt (sb x (ssrc a b s)) Hs).
  change (s_queue (sb x (ssrc a b s))) with (s_queue s). change (s_put (sb x (ssrc a b s))) with (s_put s).
  destruct (0 <? zlen (s_queue s)); [split; [reflexivity | left; exact H]|].
  destruct (s_put s) as [p|]; [|split; [reflexivity | left; exact H]].
  apply (GP_fni_start pkt). exists x, a, b. split; [reflexivity | split; [exact Ht | right; reflexivity]].
Qed.

(* ------------------------------------------------------------------ layer 3: the put request of an idle handler *)
(* ... and while idle also in the put request remembered from the last transaction *)
Definition W (s s' : src) : Prop :=
  exists x a b p, s' = sput p (sb x (ssrc a b s)) /\ q_tid (s_p s) = None /\
                  (s_step s = SS_IDLE \/ s_step s = SS_TRANSACTION_START) /\
                  (p = s_put s \/ s_state s = ST_IDLE).
Definition Inv (s s' : src) : Prop := EQ s s' \/ W s s'.

Lemma GP_W : forall s s', GP s s' -> W s s'.
Proof.
  intros s s' (x & a & b & -> & Ht & Hs). exists x, a, b, (s_put s).
  split; [reflexivity | split; [exact Ht | split; [exact Hs | left; reflexivity]]].
Qed.
Lemma GE_Inv : forall s s', GE s s' -> Inv s s'.
Proof. intros s s' [H|H]; [right; apply GP_W; exact H | left; exact H]. Qed.

(* admission looks at none of the leftovers *)
Definition U (s s' : src) : Prop := exists x a b p, s' = sput p (sb x (ssrc a b s)).
Lemma U_get : forall A (f : src -> SM A), (forall s0 x a b p s, f (sput p (sb x (ssrc a b s0))) s = f s0 s) ->
  (forall s0, R3 U U U (f s0)) -> R3 U U U (bind get f).
Proof. intros A f H1 H2 s s' (x & a & b & p & ->). unfold bind, get. rewrite H1. apply H2. exists x, a, b, p. reflexivity. Qed.
Lemma U_check : forall pk, R3 U U U (check_inserted_packet_s pk).
Proof.
  intro pk. unfold check_inserted_packet_s. apply U_get; [intros; reflexivity | intro s0]. cbv zeta.
  repeat lazymatch goal with
  | |- R3 U U U (ret _) => apply R3_ret
  | |- R3 U U U (raise _) => apply R3_raise
  | |- R3 U U U (match ?o with _ => _ end) => destruct o
  end.
Qed.
Lemma check_state : forall p s, fst (check_inserted_packet_s p s) = s.
Proof.
  intros p s. unfold check_inserted_packet_s, bind, get, raise, ret.
  repeat match goal with |- fst ((match ?o with _ => _ end) _) = _ => destruct o end; reflexivity.
Qed.
Lemma sm_eq : forall pkt s, state_machine_s pkt s =
  match (match pkt with Some pk => snd (check_inserted_packet_s pk s) | None => Ok tt end) with
  | Err e => (s, Err e)
  | Ok _ => if s_state s =? ST_IDLE then (s, Ok tt) else fsm_non_idle pkt s
  end.
Proof.
  intros pkt s. unfold state_machine_s. unfold bind at 1. destruct pkt as [pk|].
  - pose proof (check_state pk s) as C. destruct (check_inserted_packet_s pk s) as [s0 [u|e]]; cbn [fst snd] in *; subst s0.
    + unfold bind, get. destruct (s_state s =? ST_IDLE); reflexivity.
    + reflexivity.
  - unfold ret, bind, get. destruct (s_state s =? ST_IDLE); reflexivity.
Qed.

Lemma W_state_machine_s : forall pkt, R3 W Inv Inv (state_machine_s pkt).
Proof.
  intros pkt s s' H. pose proof H as (x & a & b & p & -> & Ht & Hs & Hp).
  rewrite !sm_eq.
  assert (C : (match pkt with Some pk => snd (check_inserted_packet_s pk (sput p (sb x (ssrc a b s)))) | None => Ok tt end)
            = (match pkt with Some pk => snd (check_inserted_packet_s pk s) | None => Ok tt end)).
  { destruct pkt as [pk|]; [|reflexivity]. symmetry. apply (U_check pk). exists x, a, b, p. reflexivity. }
  rewrite C. clear C.
  destruct (match pkt with Some pk => snd (check_inserted_packet_s pk s) | None => Ok tt end) as [u|e];
    [|split; [reflexivity | right; exact H]].
  change (s_state (sput p (sb x (ssrc a b s)))) with (s_state s).
  destruct (s_state s =? ST_IDLE) eqn:Ei; [split; [reflexivity | right; exact H]|].
  destruct Hp as [-> | Hi]; [|rewrite Hi in Ei; discriminate Ei].
  change (sput (s_put s) (sb x (ssrc a b s))) with (sb x (ssrc a b s)).
  assert (HG : GP s (sb x (ssrc a b s))) by (exists x, a, b; split; [reflexivity | split; assumption]).
  destruct (GP_fsm_non_idle pkt s _ HG) as [E1 E2]. split; [exact E1|].
  destruct (snd (fsm_non_idle pkt s)); apply GE_Inv; exact E2.
Qed.

Lemma W_get_next_packet_s : R3 W W W get_next_packet_s.
Proof.
  intros s s' (x & a & b & p & -> & Ht & Hs & Hp). unfold get_next_packet_s, bind, get, put, ret.
  change (s_queue (sput p (sb x (ssrc a b s)))) with (s_queue s).
  destruct (s_queue s); cbn [fst snd]; (split; [reflexivity|]); exists x, a, b, p;
    (split; [reflexivity | split; [exact Ht | split; [exact Hs | exact Hp]]]).
Qed.

Lemma W_cancel_request_s : forall c d, R3 W W W (cancel_request_s c d).
Proof.
  intros c d s s' (x & a & b & p & -> & Ht & Hs & Hp). unfold cancel_request_s, bind, get.
  change (s_ready (sput p (sb x (ssrc a b s)))) with (s_ready s).
  change (q_tid (s_p (sput p (sb x (ssrc a b s))))) with (q_tid (s_p s)). rewrite Ht.
  destruct (0 <? s_ready s); cbn [fst snd]; (split; [reflexivity|]); exists x, a, b, p;
    (split; [reflexivity | split; [exact Ht | split; [exact Hs | exact Hp]]]).
Qed.

Lemma W_reset_s : R3 W W W reset_s.
Proof.
  intros s s' (x & a & b & p & -> & Ht & Hs & Hp). unfold reset_s, sreset_internal, modify. cbn [fst snd].
  split; [reflexivity|]. exists x, 0, 0, p.
  split; [reflexivity | split; [reflexivity | split; [left; reflexivity | right; reflexivity]]].
Qed.

Lemma W_put_request : forall p0, R3 W W W (put_request p0).
Proof.
  intros p0 s s' (x & a & b & p & -> & Ht & Hs & Hp). rewrite !put_eq.
  change (s_state (sput p (sb x (ssrc a b s)))) with (s_state s).
  destruct (s_state s =? ST_IDLE) eqn:Ei; cbn [negb].
  2:{ cbn [fst snd]. split; [reflexivity|]. exists x, a, b, p.
      split; [reflexivity | split; [exact Ht | split; [exact Hs | exact Hp]]]. }
  change (put_tail p0 (sput p (sb x (ssrc a b s)))) with (put_tail p0 s).
  change ((sput p (sb x (ssrc a b s))) <| s_put := Some p0 |>) with (sb x (ssrc a b (s <| s_put := Some p0 |>))).
  unfold put_tail. cbv zeta.
  destruct (pr_names p0) as [[sn dn]|];
    [destruct (fs_file_exists (e_fs (s_env s)) sn)|];
    destruct (get_remote (l_remotes (s_cfg s)) (pr_dst p0)) as [r|];
    cbv beta iota delta [bind ret raise setq modify fst snd];
    (split; [reflexivity|]); exists x, a, b, (Some p0);
    (split; [reflexivity | split; [exact Ht | split; [exact Hs | left; reflexivity]]]).
Qed.

(* ------------------------------------------------------------------ the API of the sender as data (props/C11b.v) *)
Inductive scall := SSm (pkt : option pdu) | SGet | SPut (p : putreq) | SCancel (a b : Z) | SReset | STick (ms : Z).
Definition sapply (c : scall) (s : src) : src * (res Z unit * option pdu * bool) :=
  match c with
  | SSm pkt => let '(s', r) := state_machine_s pkt s in (s', (r, None, false))
  | SGet => let '(s', r) := get_next_packet_s s in
            (s', (match r with Ok _ => Ok tt | Err e => Err e end, match r with Ok o => o | Err _ => None end, false))
  | SPut p => let '(s', r) := put_request p s in
              (s', (match r with Ok _ => Ok tt | Err e => Err e end, None, match r with Ok b => b | Err _ => false end))
  | SCancel a b => let '(s', r) := cancel_request_s a b s in
                   (s', (match r with Ok _ => Ok tt | Err e => Err e end, None, match r with Ok b => b | Err _ => false end))
  | SReset => let '(s', r) := reset_s s in (s', (r, None, false))
  | STick ms => (s <| s_env ::= (fun e => e <| e_now ::= Z.add ms |>) |>, (Ok tt, None, false))
  end.
Definition sview (s : src) := (s_state s, s_step s, s_ready s, s_queue s, s_env s, s_seq_count s).
Fixpoint sruns (cs : list scall) (s : src)
  : list (res Z unit * option pdu * bool * (Z * Z * Z * list pdu * env * Z)) :=
  match cs with
  | [] => []
  | c :: t => let '(s', o) := sapply c s in (o, sview s') :: sruns t s'
  end.
Definition idle_params (s : src) : Prop :=
  s_p s = reset_sparams \/ s_p s = init_sparams (s_cfg s) \/
  (exists r, s_p s = reset_sparams <| q_rcfg := r |>) \/ (exists r, s_p s = (init_sparams (s_cfg s)) <| q_rcfg := r |>).

Lemma view_Inv : forall s s', Inv s s' -> sview s = sview s'.
Proof.
  intros s s' [(x & -> & _) | (x & a & b & p & -> & _)]; reflexivity.
Qed.

Lemma R3_run2 : forall S A (P Q : S -> S -> Prop) (m : M S A) s s', R3 P Q Q m -> P s s' ->
  snd (m s) = snd (m s') /\ Q (fst (m s)) (fst (m s')).
Proof. intros S A P Q m s s' Hm H. destruct (Hm s s' H) as [E1 E2]. split; [exact E1|]. destruct (snd (m s)); exact E2. Qed.

Lemma Inv_lift : forall A (m : SM A), RE m -> R3 W Inv Inv m -> R3 Inv Inv Inv m.
Proof.
  intros A m H1 H2 s s' [H|H].
  - destruct (H1 s s' H) as [E1 E2]. split; [exact E1|]. destruct (snd (m s)); left; exact E2.
  - apply H2. exact H.
Qed.
Lemma W_Inv : forall A (m : SM A), R3 W W W m -> R3 W Inv Inv m.
Proof. intros A m H. eapply R3_weaken; [exact H | auto | intros; right; assumption | intros; right; assumption]. Qed.

Lemma sapply_Inv : forall c s s', Inv s s' ->
  snd (sapply c s) = snd (sapply c s') /\ Inv (fst (sapply c s)) (fst (sapply c s')).
Proof.
  intros c s s' H. destruct c as [pkt| |p|a b| |ms]; unfold sapply.
  - destruct (R3_run2 _ _ _ _ _ s s' (Inv_lift _ _ (RE_state_machine_s pkt) (W_state_machine_s pkt)) H) as [E1 E2].
    destruct (state_machine_s pkt s) as [t r], (state_machine_s pkt s') as [t' r']. cbn [fst snd] in *. subst r'.
    split; [reflexivity | exact E2].
  - destruct (R3_run2 _ _ _ _ _ s s' (Inv_lift _ _ RE_get_next_packet_s (W_Inv _ _ W_get_next_packet_s)) H) as [E1 E2].
    destruct (get_next_packet_s s) as [t r], (get_next_packet_s s') as [t' r']. cbn [fst snd] in *. subst r'.
    split; [reflexivity | exact E2].
  - destruct (R3_run2 _ _ _ _ _ s s' (Inv_lift _ _ (RE_put_request p) (W_Inv _ _ (W_put_request p))) H) as [E1 E2].
    destruct (put_request p s) as [t r], (put_request p s') as [t' r']. cbn [fst snd] in *. subst r'.
    split; [reflexivity | exact E2].
  - destruct (R3_run2 _ _ _ _ _ s s' (Inv_lift _ _ (RE_cancel_request_s a b) (W_Inv _ _ (W_cancel_request_s a b))) H) as [E1 E2].
    destruct (cancel_request_s a b s) as [t r], (cancel_request_s a b s') as [t' r']. cbn [fst snd] in *. subst r'.
    split; [reflexivity | exact E2].
  - destruct (R3_run2 _ _ _ _ _ s s' (Inv_lift _ _ RE_reset_s (W_Inv _ _ W_reset_s)) H) as [E1 E2].
    destruct (reset_s s) as [t r], (reset_s s') as [t' r']. cbn [fst snd] in *. subst r'.
    split; [reflexivity | exact E2].
  - cbn [fst snd]. split; [reflexivity|].
    destruct H as [(x & -> & Hx) | (x & a & b & p & -> & Ht & Hs & Hp)].
    + left. exists x. split; [reflexivity | exact Hx].
    + right. exists x, a, b, p. split; [reflexivity | split; [exact Ht | split; [exact Hs | exact Hp]]].
Qed.

Lemma sruns_Inv : forall cs s s', Inv s s' -> sruns cs s = sruns cs s'.
Proof.
  induction cs as [|c cs IH]; intros s s' H; [reflexivity|]. cbn [sruns].
  destruct (sapply_Inv c s s' H) as [E1 E2].
  destruct (sapply c s) as [t o], (sapply c s') as [t' o']. cbn [fst snd] in *. subst o'.
  rewrite (IH t t' E2), (view_Inv t t' E2). reflexivity.
Qed.

Lemma source_history_independent : forall (s1 s2 : src) (cs : list scall),
  s_state s1 = ST_IDLE -> s_state s2 = ST_IDLE -> s_step s1 = SS_IDLE -> s_step s2 = SS_IDLE ->
  idle_params s1 -> idle_params s2 -> q_rcfg (s_p s1) = q_rcfg (s_p s2) ->
  s_cfg s1 = s_cfg s2 -> s_env s1 = s_env s2 -> s_queue s1 = s_queue s2 -> s_ready s1 = s_ready s2 ->
  s_seq_count s1 = s_seq_count s2 -> s_seq_bits s1 = s_seq_bits s2 ->
  sruns cs s1 = sruns cs s2.
Proof.
  intros s1 s2 cs H1 H2 H3 H4 P1 P2 Hr H5 H6 H7 H8 H9 H10. apply sruns_Inv. right.
  exists (s_step_before s2), (sc_src (q_conf (s_p s2))), (sc_srcw (q_conf (s_p s2))), (s_put s2).
  assert (Ht : q_tid (s_p s1) = None) by (destruct P1 as [X|[X|[[r X]|[r X]]]]; rewrite X; reflexivity).
  split; [|split; [exact Ht | split; [left; exact H3 | right; exact H1]]].
  destruct s1 as [cfg1 st1 step1 ready1 queue1 q1 sbf1 pt1 sc1 sbits1 en1],
           s2 as [cfg2 st2 step2 ready2 queue2 q2 sbf2 pt2 sc2 sbits2 en2].
  unfold idle_params in P1, P2. cbn [s_cfg s_state s_step s_ready s_queue s_p s_seq_count s_seq_bits s_env] in *. subst.
  destruct P1 as [X|[X|[[r X]|[r X]]]], P2 as [Y|[Y|[[r' Y]|[r' Y]]]]; subst; cbn in Hr; try subst; reflexivity.
Qed.

(* ------------------------------------------------------------------ what an idle sender's parameter block looks like *)
(* sharper than source_idle_fresh of props/C11.v: no remote configuration is left in the block of an idle handler *)
Definition idle_params2 (s : src) : Prop := s_p s = reset_sparams \/ s_p s = init_sparams (s_cfg s).
Definition source_idle_fresh2 (s : src) : Prop := s_state s = ST_IDLE -> idle_params2 s.

Lemma K0_fresh2 : forall s, K0 s -> source_idle_fresh2 s.
Proof. intros s H Hi. left. apply H. exact Hi. Qed.

Lemma source_idle_fresh2_init : forall c seq0 bits, source_idle_fresh2 (src_init c seq0 bits).
Proof. intros c seq0 bits _. right. reflexivity. Qed.

Lemma state_machine_s_fresh2 : forall pkt s, source_idle_fresh2 s -> source_idle_fresh2 (fst (state_machine_s pkt s)).
Proof.
  intros pkt s H. rewrite sm_eq.
  destruct (match pkt with Some pk => snd (check_inserted_packet_s pk s) | None => Ok tt end); [|exact H].
  destruct (s_state s =? ST_IDLE) eqn:Ei; [exact H|].
  apply post_fst. eapply post_weaken; [apply fsm_non_idle_spec; exact Ei | |]; intros; apply K0_fresh2; kdone.
Qed.

Lemma get_next_packet_s_fresh2 : forall s, source_idle_fresh2 s -> source_idle_fresh2 (fst (get_next_packet_s s)).
Proof.
  intros s H. unfold get_next_packet_s, bind, get, put, ret. destruct (s_queue s); exact H.
Qed.

Lemma cancel_request_s_fresh2 : forall a b s, source_idle_fresh2 s -> source_idle_fresh2 (fst (cancel_request_s a b s)).
Proof.
  intros a b s H. apply post_fst. unfold cancel_request_s. srun.
  destruct (0 <? s_ready s); [sfin; exact H|].
  destruct (NIs_or_idle s) as [Hn|Hi].
  - destruct (q_tid (s_p s)) as [[x y]|]; [|sfin; exact H].
    destruct ((x =? a) && (y =? b)); [|sfin; exact H]. srun.
    eapply post_bind; [apply notice_of_cancellation_s_spec; exact Hn | intros; apply K0_fresh2; assumption |].
    intros go s1 HK. sfin. apply K0_fresh2. kdone.
  - assert (Ht : q_tid (s_p s) = None) by (destruct (H Hi) as [X|X]; rewrite X; reflexivity).
    rewrite Ht. sfin. exact H.
Qed.

Lemma put_request_fresh2 : forall p s, source_idle_fresh2 s -> source_idle_fresh2 (fst (put_request p s)).
Proof.
  intros p s H. rewrite put_eq. destruct (s_state s =? ST_IDLE) eqn:Ei; cbn [negb]; [|exact H].
  apply Z.eqb_eq in Ei. specialize (H Ei). unfold put_tail. cbv zeta.
  destruct (pr_names p) as [[sn dn]|];
    [destruct (fs_file_exists (e_fs (s_env s)) sn)|];
    destruct (get_remote (l_remotes (s_cfg s)) (pr_dst p)) as [r|];
    cbv beta iota delta [bind ret raise setq modify fst snd]; intro Hi; cbn in Hi |- *;
    try discriminate Hi; unfold idle_params2 in *; cbn; (destruct H as [X|X]; rewrite X; [left | right]; reflexivity).
Qed.

Lemma source_idle_fresh2_preserved : forall pkt s a b p,
  source_idle_fresh2 s ->
  source_idle_fresh2 (fst (state_machine_s pkt s)) /\ source_idle_fresh2 (fst (get_next_packet_s s)) /\
  source_idle_fresh2 (fst (cancel_request_s a b s)) /\ source_idle_fresh2 (fst (reset_s s)) /\
  source_idle_fresh2 (fst (put_request p s)).
Proof.
  intros pkt s a b p H. split; [|split; [|split; [|split]]].
  - apply state_machine_s_fresh2. exact H.
  - apply get_next_packet_s_fresh2. exact H.
  - apply cancel_request_s_fresh2. exact H.
  - intros _. left. reflexivity.
  - apply put_request_fresh2. exact H.
Qed.

(* history independence for the idle shapes that histories actually produce *)
Lemma source_history_independent_reachable : forall (s1 s2 : src) (cs : list scall),
  s_state s1 = ST_IDLE -> s_state s2 = ST_IDLE -> s_step s1 = SS_IDLE -> s_step s2 = SS_IDLE ->
  idle_params2 s1 -> idle_params2 s2 ->
  s_cfg s1 = s_cfg s2 -> s_env s1 = s_env s2 -> s_queue s1 = s_queue s2 -> s_ready s1 = s_ready s2 ->
  s_seq_count s1 = s_seq_count s2 -> s_seq_bits s1 = s_seq_bits s2 ->
  sruns cs s1 = sruns cs s2.
Proof.
  intros s1 s2 cs H1 H2 H3 H4 P1 P2 H5 H6 H7 H8 H9 H10.
  apply source_history_independent; try assumption.
  - destruct P1 as [X|X]; [left | right; left]; exact X.
  - destruct P2 as [X|X]; [left | right; left]; exact X.
  - destruct P1 as [X|X], P2 as [Y|Y]; rewrite X, Y; reflexivity.
Qed.

(* ------------------------------------------------------------------ the draft statement, and non-vacuity *)
Definition hx_r : rcfg := mkRcfg 2 2 (Some 2) 64 false false UNACKED CK_NULL 1000 3 3 false false 1000 3.
Definition hx_c : lcfg := mkLcfg 1 2 true true true true [] 1000 [hx_r].

(* (1) the draft allowed any remote configuration left in the idle block (shapes 3 and 4 of idle_params) without
   asking the two handlers to agree on it: admission of an inbound PDU reads it also while idle *)
Definition hx_s1 : src := src_init hx_c 0 16.
Definition hx_s2 : src := hx_s1 <| s_p := (init_sparams hx_c) <| q_rcfg := Some hx_r |> |>.
Definition hx_fin : pdu := PFinished (mkHdr TOWARDS_SENDER ACKED false false 1 2 2 0 2) C_NO_ERROR DATA_COMPLETE FS_RETAINED None.
Example draft_false_rcfg :
  s_state hx_s1 = ST_IDLE /\ s_state hx_s2 = ST_IDLE /\ s_step hx_s1 = SS_IDLE /\ s_step hx_s2 = SS_IDLE /\
  idle_params hx_s1 /\ idle_params hx_s2 /\
  s_cfg hx_s1 = s_cfg hx_s2 /\ s_env hx_s1 = s_env hx_s2 /\ s_queue hx_s1 = s_queue hx_s2 /\
  s_ready hx_s1 = s_ready hx_s2 /\ s_seq_count hx_s1 = s_seq_count hx_s2 /\ s_seq_bits hx_s1 = s_seq_bits hx_s2 /\
  map fst (sruns [SSm (Some hx_fin)] hx_s1) = [(Err E_NO_REMOTE_CFG, None, false)] /\
  map fst (sruns [SSm (Some hx_fin)] hx_s2) = [(Ok tt, None, false)].
Proof.
  repeat split; try reflexivity.
  - right. left. reflexivity.
  - right. right. right. exists (Some hx_r). reflexivity.
Qed.

(* (2) non-vacuity: a handler that has completed a transfer (leftovers: the put request, the reset template) against
   a handler with the constructor's block and no put request, environments made equal *)
Definition hx_put : putreq := mkPut 2 2 None None (Some ([1], [2])) None.
Definition hx_used : src := fst (pumps 6 (fst (put_request hx_put (src_fresh hx_c 0 16 [([1], File [3; 10; 17])])))).
Definition hx_new : src := hx_used <| s_put := None |> <| s_p := init_sparams hx_c |> <| s_step_before := Some 7 |>.
Example nv_history :
  s_state hx_used = ST_IDLE /\ s_step hx_used = SS_IDLE /\ s_put hx_used = Some hx_put /\ s_p hx_used = reset_sparams /\
  s_seq_count hx_used = 1 /\ hx_used <> hx_new /\
  sruns [SPut hx_put; SSm None; SGet; SSm None; SCancel 1 1; SSm None; SGet; SReset; SSm (Some hx_fin)] hx_used =
  sruns [SPut hx_put; SSm None; SGet; SSm None; SCancel 1 1; SSm None; SGet; SReset; SSm (Some hx_fin)] hx_new /\
  map fst (sruns [SPut hx_put; SSm None; SGet; SSm None; SCancel 1 1] hx_used) =
    [(Ok tt, None, true); (Ok tt, None, false);
     (Ok tt, Some (PMetadata (mkHdr TOWARDS_RECEIVER UNACKED false false 1 2 2 1 2) false CK_NULL 3 (Some ([1], [2])) []), false);
     (Ok tt, None, false); (Err E_UNRETRIEVED, None, false)].
Proof. vm_compute. repeat split; try reflexivity. intro H. discriminate H. Qed.

Print Assumptions dest_history_independent.
Print Assumptions source_history_independent.
Print Assumptions source_history_independent_reachable.
Print Assumptions source_idle_fresh2_preserved.
