(* FaultProofs.v — proofs for property C14 (props/C14.v): declared faults take the effect
   configured in the fault-handler table. *)
From CFDP Require Import Base Fs Handler Dest Source Mib HandlerSpec.
From CFDP.gen Require Import Tables.
From CFDP.proofs Require Import GuardProofs.   (* admission_exceptions *)
From RecordUpdate Require Import RecordSet.
Import RecordSetNotations.

(* ------------------------------------------------------------------ destination handler *)
Lemma dest_ignore : forall s cond a b,
  p_tid (d_p s) = Some (a, b) -> get_fault_handler (l_faults (d_cfg s)) cond = Some FH_IGNORE ->
  exists s', declare_fault cond s = (s', Ok FH_IGNORE) /\
    log_d s' = EvFault FH_IGNORE a b cond (p_progress (d_p s)) :: log_d s /\
    d_state s' = d_state s /\ d_step s' = d_step s /\ d_p s' = d_p s /\ d_queue s' = d_queue s /\
    e_fs (d_env s') = e_fs (d_env s).
Proof.
  intros s cond a b Ht Hf.
  unfold declare_fault, gp, gets, bind. rewrite Ht, Hf.
  destruct s as [cfg st step stid ready q p env]; destruct env as [nw fs rw lg].
  cbn. eexists. split; [reflexivity|]. cbn. repeat split; reflexivity.
Qed.

Lemma dest_cancel : forall s cond a b,
  p_tid (d_p s) = Some (a, b) -> get_fault_handler (l_faults (d_cfg s)) cond = Some FH_CANCEL ->
  exists s', declare_fault cond s = (s', Ok FH_CANCEL) /\
    log_d s' = EvFault FH_CANCEL a b cond (p_progress (d_p s)) :: log_d s /\
    d_state s' = d_state s /\ d_step s' = DS_TRANSFER_COMPLETION /\
    p_disp (d_p s') = DISP_CANCELED /\ f_cond (p_fin (d_p s')) = cond /\
    p_tid (d_p s') = Some (a, b) /\ d_queue s' = d_queue s /\ e_fs (d_env s') = e_fs (d_env s).
Proof.
  intros s cond a b Ht Hf.
  unfold declare_fault, gp, gets, bind. rewrite Ht, Hf.
  destruct s as [cfg st step stid ready q p env]; destruct env as [nw fs rw lg].
  destruct p; destruct p_fin. cbn in Ht.
  cbn. eexists. split; [reflexivity|]. cbn. repeat split; try reflexivity. exact Ht.
Qed.

(* handler ABANDON (after the F25-F27 repair): the transaction is reset, the abandon callback runs once and the
   running state machine call is unwound with the internal code E_ABANDONED *)
Lemma dest_abandon : forall s cond a b,
  p_tid (d_p s) = Some (a, b) -> get_fault_handler (l_faults (d_cfg s)) cond = Some FH_ABANDON ->
  exists s', declare_fault cond s = (s', Err E_ABANDONED) /\
    log_d s' = EvFault FH_ABANDON a b cond (p_progress (d_p s)) :: log_d s /\
    d_state s' = ST_IDLE /\ d_step s' = DS_IDLE /\ d_p s' = fresh_params /\ d_queue s' = d_queue s /\
    e_fs (d_env s') = e_fs (d_env s).
Proof.
  intros s cond a b Ht Hf.
  unfold declare_fault, gp, gets, bind. rewrite Ht, Hf.
  destruct s as [cfg st step stid ready q p env]; destruct env as [nw fs rw lg].
  cbn. eexists. split; [reflexivity|]. cbn. repeat split; reflexivity.
Qed.

Lemma dest_no_tid : forall s cond, p_tid (d_p s) = None -> declare_fault cond s = (s, Err E_ASSERT).
Proof.
  intros s cond Ht. unfold declare_fault, gp, gets, bind. rewrite Ht. reflexivity.
Qed.

Lemma dest_not_in_table : forall s cond a b,
  p_tid (d_p s) = Some (a, b) -> get_fault_handler (l_faults (d_cfg s)) cond = None ->
  declare_fault cond s = (s, Err E_VALUE).
Proof.
  intros s cond a b Ht Hf. unfold declare_fault, gp, gets, bind. rewrite Ht, Hf. reflexivity.
Qed.

(* ------------------------------------------------------------------ abandonment unwinds the running call *)
(* the exact state after an abandoning declaration: parameters, state and step reset, the callback
   logged, every other component as before *)
Lemma dest_abandon_unwinds : forall s cond a b,
  p_tid (d_p s) = Some (a, b) -> get_fault_handler (l_faults (d_cfg s)) cond = Some FH_ABANDON ->
  declare_fault cond s =
    (mkDst (d_cfg s) ST_IDLE DS_IDLE (d_states_tid s) (d_ready s) (d_queue s) fresh_params
           (mkEnv (e_now (d_env s)) (e_fs (d_env s)) (e_reject_writes (d_env s))
                  (EvFault FH_ABANDON a b cond (p_progress (d_p s)) :: log_d s)),
     Err E_ABANDONED).
Proof.
  intros s cond a b Ht Hf.
  unfold declare_fault, gp, gets, bind. rewrite Ht, Hf.
  destruct s as [cfg st step stid ready q p env]; destruct env as [nw fs rw lg].
  reflexivity.
Qed.

(* catch_abandoned turns exactly the code E_ABANDONED into a normal return (state kept) and is
   transparent for every other outcome *)
Lemma dest_abandoned_is_caught : forall (m : D unit) s,
  (forall s', m s = (s', Err E_ABANDONED) -> catch_abandoned m s = (s', Ok tt)) /\
  (forall s' u, m s = (s', Ok u) -> catch_abandoned m s = m s) /\
  (forall s' e, m s = (s', Err e) -> e <> E_ABANDONED -> catch_abandoned m s = m s).
Proof.
  intros m s. unfold catch_abandoned, catch. split; [|split].
  - intros s' H. rewrite H. reflexivity.
  - intros s' u H. rewrite H. reflexivity.
  - intros s' e H Hne. rewrite H.
    destruct (e =? E_ABANDONED) eqn:E; [apply Z.eqb_eq in E; contradiction | reflexivity].
Qed.

Lemma catch_abandoned_never_abandoned : forall (m : D unit) s, snd (catch_abandoned m s) <> Err E_ABANDONED.
Proof.
  intros m s. unfold catch_abandoned, catch.
  destruct (m s) as [s' [u|e]]; [discriminate|].
  destruct (e =? E_ABANDONED) eqn:E; [discriminate|].
  cbn. intro H. inversion H. subst e. discriminate.
Qed.

(* the admission check raises library codes (and ValueError) only *)
Lemma admission_never_abandoned : forall p s, snd (check_inserted_packet p s) <> Err E_ABANDONED.
Proof.
  intros p s H.
  destruct (proj1 (admission_exceptions p (src_init (d_cfg s) 0 0) s E_ABANDONED) H) as [Hin | [He _]].
  - cbn in Hin. repeat (destruct Hin as [Hin|Hin]; [discriminate Hin|]). exact Hin.
  - discriminate He.
Qed.

(* the internal control code is never visible to the caller of state_machine *)
Lemma dest_abandon_never_escapes : forall pkt s, snd (Dest.state_machine pkt s) <> Err E_ABANDONED.
Proof.
  intros pkt s. unfold Dest.state_machine.
  match goal with |- snd (bind ?c (fun _ => catch_abandoned ?m) s) <> _ =>
    generalize m; intro body; assert (snd (c s) <> Err E_ABANDONED) as Hc end.
  { destruct pkt as [p|]; [apply admission_never_abandoned | discriminate]. }
  unfold bind.
  match goal with |- snd (match ?x with _ => _ end) <> _ => destruct x as [s1 [u|e]] end.
  - apply catch_abandoned_never_abandoned.
  - exact Hc.
Qed.

(* ------------------------------------------------------------------ source handler *)
Lemma source_ignore : forall s cond a b,
  q_tid (s_p s) = Some (a, b) -> get_fault_handler (l_faults (s_cfg s)) cond = Some FH_IGNORE ->
  exists s', declare_fault_s cond s = (s', Ok tt) /\
    log_s s' = EvFault FH_IGNORE a b cond (q_progress (s_p s)) :: log_s s /\
    s_state s' = s_state s /\ s_step s' = s_step s /\ s_p s' = s_p s /\ s_queue s' = s_queue s.
Proof.
  intros s cond a b Ht Hf.
  unfold declare_fault_s, gq, gets, bind. rewrite Ht, Hf.
  destruct s as [cfg st step ready q p sb pt sc sbits env]; destruct env as [nw fs rw lg].
  cbn. eexists. split; [reflexivity|]. cbn. repeat split; reflexivity.
Qed.

Lemma source_abandon : forall s cond a b,
  q_tid (s_p s) = Some (a, b) -> get_fault_handler (l_faults (s_cfg s)) cond = Some FH_ABANDON ->
  exists s', declare_fault_s cond s = (s', Ok tt) /\
    log_s s' = EvFault FH_ABANDON a b cond (q_progress (s_p s)) :: log_s s /\
    s_state s' = ST_IDLE /\ s_step s' = SS_IDLE /\ s_p s' = reset_sparams /\ s_queue s' = [].
Proof.
  intros s cond a b Ht Hf.
  unfold declare_fault_s, gq, gets, bind. rewrite Ht, Hf.
  destruct s as [cfg st step ready q p sb pt sc sbits env]; destruct env as [nw fs rw lg].
  cbn. eexists. split; [reflexivity|]. cbn. repeat split; reflexivity.
Qed.

Lemma source_no_tid : forall s cond, q_tid (s_p s) = None -> declare_fault_s cond s = (s, Err E_ASSERT).
Proof.
  intros s cond Ht. unfold declare_fault_s, gq, gets, bind. rewrite Ht. reflexivity.
Qed.

Lemma source_cancel_during_cancel : forall s cond a b c0,
  q_tid (s_p s) = Some (a, b) -> get_fault_handler (l_faults (s_cfg s)) cond = Some FH_CANCEL ->
  q_cond_eof (s_p s) = Some c0 -> c0 <> C_NO_ERROR ->
  exists s', declare_fault_s cond s = (s', Ok tt) /\
    log_s s' = EvFault FH_ABANDON a b c0 (q_progress (s_p s)) :: log_s s /\
    s_state s' = ST_IDLE /\ s_step s' = SS_IDLE /\ s_queue s' = [].
Proof.
  intros s cond a b c0 Ht Hf Hc Hne.
  assert (negb (c0 =? C_NO_ERROR) = true) as Hn.
  { destruct (c0 =? C_NO_ERROR) eqn:E; [apply Z.eqb_eq in E; contradiction | reflexivity]. }
  unfold declare_fault_s, gq, gets, bind. rewrite Ht, Hf.
  change (FH_CANCEL =? FH_CANCEL) with true. cbv iota.
  unfold notice_of_cancellation_s, stid_or_assert, gq, gets, bind. rewrite Hc, Hn, Ht.
  destruct s as [cfg st step ready q p sb pt sc sbits env]; destruct env as [nw fs rw lg].
  cbn. eexists. split; [reflexivity|]. cbn. repeat split; reflexivity.
Qed.

(* ------------------------------------------------------------------ configuration API *)
Lemma set_handler_refuses : forall t c h, table_mem t c = false -> set_handler t c h = None.
Proof. intros t c h H. unfold set_handler. rewrite H. reflexivity. Qed.

Lemma table_update_spec : forall t c h, table_mem t c = true ->
  get_fault_handler (table_update t c h) c = Some h /\
  (forall c', c' <> c -> get_fault_handler (table_update t c h) c' = get_fault_handler t c') /\
  map fst (table_update t c h) = map fst t.
Proof.
  induction t as [|[k v] t IH]; intros c h Hm; simpl in Hm; [discriminate|].
  simpl. destruct (k =? c) eqn:E.
  - apply Z.eqb_eq in E. subst k. simpl. rewrite Z.eqb_refl. split; [reflexivity|]. split; [|reflexivity].
    intros c' Hc'. destruct (c =? c') eqn:E'; [apply Z.eqb_eq in E'; congruence | reflexivity].
  - simpl in Hm. destruct (IH c h Hm) as [I1 [I2 I3]].
    simpl. rewrite E. split; [exact I1|]. split.
    + intros c' Hc'. destruct (k =? c'); [reflexivity | apply I2; exact Hc'].
    + f_equal. exact I3.
Qed.

Lemma set_handler_sets : forall t c h t', set_handler t c h = Some t' ->
  get_fault_handler t' c = Some h /\ (forall c', c' <> c -> get_fault_handler t' c' = get_fault_handler t c') /\
  map fst t' = map fst t.
Proof.
  intros t c h t' H. unfold set_handler in H.
  destruct (table_mem t c) eqn:Hm; [|discriminate].
  inversion H; subst t'. apply table_update_spec. exact Hm.
Qed.

(* ------------------------------------------------------------------ notice of cancellation at the sender *)
(* the checksum calculation only reads the put request, the metadata-only flag, the remote
   configuration, the segment length and the filestore; it never changes the handler *)
Lemma cc_frame : forall size s s',
  s_put s' = s_put s -> q_md_only (s_p s') = q_md_only (s_p s) -> q_rcfg (s_p s') = q_rcfg (s_p s) ->
  q_segment_len (s_p s') = q_segment_len (s_p s) -> e_fs (s_env s') = e_fs (s_env s) ->
  checksum_calculation size s' = (s', snd (checksum_calculation size s)).
Proof.
  intros size s s' H1 H2 H3 H4 H5.
  unfold checksum_calculation, put_or_assert, srcfg_or_assert, gq, gets, bind, ret, raise.
  rewrite H1.
  destruct (s_put s) as [p|]; [|reflexivity]. cbv beta iota.
  rewrite H2.
  destruct (q_md_only (s_p s)); [reflexivity|].
  destruct (pr_names p) as [[sn dn]|]; [|reflexivity]. cbv beta iota.
  rewrite H3.
  destruct (q_rcfg (s_p s)) as [r|]; [|reflexivity]. cbv beta iota.
  destruct (r_cktype r =? Checksum.CK_NULL); [reflexivity|].
  rewrite H4, H5.
  destruct (lookup (e_fs (s_env s)) sn) as [[d|]|]; try reflexivity.
  destruct (Checksum.calculate_checksum _ _ _ _) as [c|[]]; reflexivity.
Qed.

Local Opaque checksum_calculation.


(* Statement changed with the F21 repair: in unacknowledged mode the cancelled transaction ends with its EOF (cancel) and
   the Transaction-Finished indication (if enabled) is logged between the EOF-Sent indication and the cancel callback;
   the events between the callback and the old log are now given exactly (before: evs = [] \/ evs = [EvEofSent a b]) *)
Lemma source_cancel : forall s cond a b ck,
  q_tid (s_p s) = Some (a, b) -> get_fault_handler (l_faults (s_cfg s)) cond = Some FH_CANCEL ->
  (q_cond_eof (s_p s) = None \/ q_cond_eof (s_p s) = Some C_NO_ERROR) ->
  s_state s = ST_BUSY -> q_rcfg (s_p s) <> None ->
  fst (checksum_calculation (q_progress (s_p s)) s) = s ->
  snd (checksum_calculation (q_progress (s_p s)) s) = Ok ck ->
  exists s', declare_fault_s cond s = (s', Ok tt) /\
    (exists evs, log_s s' = EvFault FH_CANCEL a b cond (q_progress (s_p s)) :: evs ++ log_s s /\
                 evs = (if negb (sc_mode (q_conf (s_p s)) =? ACKED) && l_ind_fin (s_cfg s)
                        then [EvFinished a b cond DATA_INCOMPLETE FS_UNREPORTED None] else []) ++
                       (if l_ind_eof_sent (s_cfg s) then [EvEofSent a b] else [])) /\
    s_queue s' = s_queue s ++ [PEof (hdr_of (q_conf (s_p s)) TOWARDS_RECEIVER) cond ck (q_progress (s_p s)) None].
Proof.
  intros s cond a b ck Ht Hf Hce Hst Hr _ Hsnd.
  unfold declare_fault_s, gq, gets, bind. rewrite Ht, Hf.
  change (FH_CANCEL =? FH_CANCEL) with true. cbv iota.
  destruct s as [cfg st step ready q p sb pt sc sbits env]; destruct env as [nw fs rw lg].
  destruct p as [tid ckt ackt ackc ce pr sl fsz ef mdo fin rc cl cf].
  cbn in Ht, Hce, Hst, Hr, Hsnd. subst tid st.
  destruct Hce as [Hce|Hce]; subst ce; cbn; unfold bind; cbn;
    (match type of Hsnd with snd (checksum_calculation _ ?s0) = _ => rewrite (cc_frame pr s0) by reflexivity end);
    rewrite Hsnd; cbn;
    destruct (l_ind_eof_sent cfg); cbn; unfold bind; cbn;
    destruct (sc_mode cf =? ACKED); cbn; unfold bind; cbn;
    try (destruct rc as [r|]; [|contradiction (Hr eq_refl)]; cbn; unfold bind; cbn);
    try (destruct (l_ind_fin cfg); cbn; unfold bind; cbn);
    (eexists; split; [reflexivity|]; cbn; split; [|reflexivity]);
    (eexists; split; [|reflexivity]; reflexivity).
Qed.
