(* DuplicateProofs.v — proof for the unbounded instance K = 1 of property C03 for DUPLICATION (props/C03d.v): in
   acknowledged mode the two-entity system of System.v delivers EVERY file although the link DUPLICATES one PDU of the
   transfer - any PDU, in either direction: Metadata, any File Data PDU, EOF, ACK (Finished) (sender -> receiver),
   ACK (EOF), Finished (receiver -> sender).  [emit_pdus] pushes the duplicated PDU twice, so both copies are delivered
   in the same round, one API call each, whatever a call queues being retrieved right after it.  Per duplicated PDU:
     Metadata        the second copy reaches the receiver in RECEIVING_FILE_DATA and is ignored (the file is not touched),
     File Data       the second copy is the segment just received once more: no gap before it, it does not end before
                     the last segment started, the progress does not move; it is written again at the same offset,
     EOF             the second copy arrives after the ACK (EOF) was retrieved: that call completes the transfer
                     (checksum, indication, Finished PDU, Positive-ACK timer) and acknowledges the EOF PDU again; the
                     sender receives ACK (EOF), Finished, ACK (EOF) in one round: the third PDU arrives after the
                     ACK (Finished) was retrieved, passes the admission check, and the call completes the transaction,
     ACK (Finished)  the first copy closes the transaction at the receiver; its surrounding entity has it on record as
                     done and drops the second copy,
     ACK (EOF)       the second copy reaches a sender that waits for the Finished PDU and is refused with
                     PduIgnoredForSource - the only exception a duplicate provokes; nothing else changes,
     Finished        the second copy arrives after the ACK (Finished) was retrieved, passes the admission check, and the
                     call completes the transaction as a call without a PDU would have in the next round.
   Every round has activity: no timer expires, the clocks never advance; neither the Positive-ACK limits nor the clock
   advance per idle round matter.
     1. the sender and a second copy, 2. the receiver and a second copy,
     3. the scheduler of System.v on a link that duplicates one PDU ([dupl], the analogue of [surv] of
        ControlLossProofs.v; the PDUs on their way to a handler are handed over one by one: [da_src_ok] ...),
     4. the rounds and the runs, 5. the theorem, 6. instances.
   Built on ControlLossProofs.v ([ZG], [ncur]/[ndone], sender [TailT], receiver [RA]/[RE]/[RW]/[RF], [FinalG]),
   PerfectLinkAckedProofs.v and SingleLossProofs.v.  Closed under the global context. *)
From CFDP Require Import Base LostSeg Fs Crc Checksum Handler Dest Source HandlerSpec SourceSpec System SystemCases.
From CFDP.gen Require Import Tables.
From CFDP.proofs Require Import ChecksumProofs FsProofs StreamProofs RetransmitProofs PerfectLinkProofs PerfectLinkAckedProofs
  SingleLossProofs ControlLossProofs.
From RecordUpdate Require Import RecordSet.
Import RecordSetNotations.

Local Arguments Z.add : simpl never. Local Arguments Z.sub : simpl never. Local Arguments Z.mul : simpl never.
Local Arguments Z.pow : simpl never. Local Arguments Z.div : simpl never. Local Arguments Z.min : simpl never.
Local Arguments Z.max : simpl never. Local Arguments Z.to_nat : simpl never.
Local Arguments Z.ltb !x !y : simpl nomatch. Local Arguments Z.leb !x !y : simpl nomatch.
Local Arguments Z.eqb !x !y : simpl nomatch. Local Arguments Z.of_nat !n : simpl nomatch.
Local Arguments write_at : simpl never.
Local Arguments set_node : simpl never.
Local Opaque calculate_checksum.

(* ================================================================== *)
(* 1. the sender and a second copy                                     *)
(* ================================================================== *)
Section SenderD.
Local Arguments max_file_seg_len : simpl never.
Local Arguments lookup : simpl never.

Variables (c : lcfg) (p : putreq) (r : rcfg) (cf : sconf) (tid : Z * Z).
Hypothesis Hm : sc_mode cf = ACKED.
Hypothesis Hfin : l_ind_fin c = true.
Hypothesis Hsrc : sc_src cf = l_id c.
Hypothesis Hdst : sc_dst cf = r_id r.

Local Opaque checksum_calculation.

Ltac unf_final :=
  unfold fsm_non_idle, fsm_advancement_s, sending_file_data_fsm, handle_retransmission,
    prepare_eof_pdu, handle_eof_sent, start_positive_ack_procedure_s, handle_waiting_for_ack,
    handle_positive_ack_procedures_s, handle_wait_for_finish, notice_of_completion_s, sreset_internal.

(* the second copy of the ACK (EOF) reaches a sender that waits for the Finished PDU: refused, nothing changes *)
Lemma t8_ack_refused : forall s cond st, Tail c p r cf tid SS_WAITING_FOR_FINISHED None s ->
  state_machine_s (Some (PAck (hdr_of cf TOWARDS_SENDER) D_EOF cond st)) s = (s, Err E_PDU_IGNORED_SOURCE).
Proof.
  intros s cond st0 (H1&H2&H3&H4&H5&H6&H7&H8&H9&H10&H11).
  destruct s as [cfg st step ready queue q sb pt sc sbits [nw fs' rw lg]].
  destruct q. cbn in H1,H2,H3,H4,H5,H6,H7,H8,H9,H10,H11. subst.
  unfold state_machine_s, check_inserted_packet_s.
  repeat (progress (sx; rewrite ?Hm, ?Hsrc, ?Hdst, ?zeqb_refl; unf_final)).
  reflexivity.
Qed.

(* a PDU of the receiver reaches the sender after its ACK (Finished) was retrieved: the admission check lets it pass
   (the step is neither WAITING_FOR_EOF_ACK nor WAITING_FOR_FINISHED), the call completes the transaction as a call
   without a PDU would: Transaction-Finished indication, back to IDLE *)
Lemma t9_ack_done : forall s fstat cond st,
  Tail c p r cf tid SS_SENDING_ACK_OF_FINISHED (Some (C_NO_ERROR, DATA_COMPLETE, fstat, None)) s ->
  exists s' lg0, pump_with (Some (PAck (hdr_of cf TOWARDS_SENDER) D_EOF cond st)) s = (s', Ok []) /\ s_state s' = ST_IDLE /\
             e_log (s_env s') = EvFinished (fst tid) (snd tid) C_NO_ERROR DATA_COMPLETE fstat None :: lg0 /\
             clean lg0.
Proof.
  intros s fstat cond st0 (H1&H2&H3&H4&H5&H6&H7&H8&H9&H10&H11).
  destruct s as [cfg st step ready queue q sb pt sc sbits [nw fs' rw lg]].
  destruct q. cbn in H1,H2,H3,H4,H5,H6,H7,H8,H9,H10,H11. subst.
  unfold pump_with, state_machine_s, check_inserted_packet_s.
  repeat (progress (sx; rewrite ?Hm, ?Hfin, ?Hsrc, ?Hdst, ?zeqb_refl; unf_final)).
  eexists; eexists; split; [reflexivity|]. cbn.
  split; [reflexivity|]. split; [reflexivity|]. exact H11.
Qed.

Lemma t9_fin_done : forall s fstat cond dl fst2 fl,
  Tail c p r cf tid SS_SENDING_ACK_OF_FINISHED (Some (C_NO_ERROR, DATA_COMPLETE, fstat, None)) s ->
  exists s' lg0, pump_with (Some (PFinished (hdr_of cf TOWARDS_SENDER) cond dl fst2 fl)) s = (s', Ok []) /\ s_state s' = ST_IDLE /\
             e_log (s_env s') = EvFinished (fst tid) (snd tid) C_NO_ERROR DATA_COMPLETE fstat None :: lg0 /\
             clean lg0.
Proof.
  intros s fstat cond dl fst2 fl (H1&H2&H3&H4&H5&H6&H7&H8&H9&H10&H11).
  destruct s as [cfg st step ready queue q sb pt sc sbits [nw fs' rw lg]].
  destruct q. cbn in H1,H2,H3,H4,H5,H6,H7,H8,H9,H10,H11. subst.
  unfold pump_with, state_machine_s, check_inserted_packet_s.
  repeat (progress (sx; rewrite ?Hm, ?Hfin, ?Hsrc, ?Hdst, ?zeqb_refl; unf_final)).
  eexists; eexists; split; [reflexivity|]. cbn.
  split; [reflexivity|]. split; [reflexivity|]. exact H11.
Qed.
End SenderD.

(* ================================================================== *)
(* 2. the receiver and a second copy                                   *)
(* ================================================================== *)
Section ReceiverD.
Variables (cd : lcfg) (rd : rcfg) (x : Z) (crc large clo : bool) (srcid idw seq seqw ckt fsz : Z).
Hypothesis Hrem : get_remote (l_remotes cd) srcid = Some rd.
Hypothesis Hfin : l_ind_fin cd = true.
Hypothesis Hack : 0 < r_ack_ms rd.

Notation hA' := (hA cd crc large srcid idw seq seqw).
Notation hB' := (hB cd crc large srcid idw seq seqw).
Notation ackE' := (ackE cd crc large srcid idw seq seqw).
Notation finP' := (finP cd crc large srcid idw seq seqw).
Notation evFin' := (EvFinished srcid seq C_NO_ERROR DATA_COMPLETE FS_RETAINED None).
Notation DA' := (DA cd rd x crc large clo srcid idw seq seqw ckt fsz).
Notation RE' := (RE cd rd x crc large clo srcid idw seq seqw ckt fsz).
Notation RW' := (RW cd rd x crc large clo srcid idw seq seqw ckt fsz).

(* a second Metadata PDU while File Data is received: ignored, the file is not touched *)
Lemma dm_md_again : forall cl ck sz names msgs off ls le fs lg,
  Dest.state_machine (Some (PMetadata hA' cl ck sz names msgs)) (DA' off ls le fs lg) = (DA' off ls le fs lg, Ok tt).
Proof.
  intros. rewrite (sm_busy cd rd crc large srcid idw seq seqw Hrem) by reflexivity.
  unfold catch_abandoned; apply catch_ok. change 3%nat with (S 2). apply nif_md_a.
Qed.

(* the File Data PDU just received arrives again: written again at the same offset, no gap, no progress *)
Lemma hfd_again : forall off data fs lg old, lookup fs [x] = Some (File old) -> 0 < zlen data ->
  handle_fd_pdu off data (DA' (off + zlen data) off (off + zlen data) fs lg) =
    (DA' (Z.max (off + zlen data) (off + zlen data)) off (off + zlen data) (set_node fs [x] (File (write_at old off data)))
         (if l_ind_seg cd then EvSegmentRecv srcid seq off (zlen data) :: lg else lg), Ok tt).
Proof.
  intros off data fs lg old Hl Hpos. unfold handle_fd_pdu, DA, dstA, dpA, hB, fin0. mrun.
  assert (E1 : (off + zlen data <? off) = false) by (apply Z.ltb_ge; lia).
  assert (E2 : (off + zlen data <=? off) = false) by (apply Z.leb_gt; lia).
  destruct (l_ind_seg cd); mrun; apply catch_ok; mrun; unfold lost_segment_handling; mrun;
    rewrite E1; mrun; rewrite E2; mrun; rewrite E2; mrun;
    unfold vfs_write; mrun; cbn [e_fs]; unfold fs_write_data; rewrite Hl; cbv iota; mrun; reflexivity.
Qed.

Ltac rw_hfd L :=
  match goal with |- bind (handle_fd_pdu ?o ?dt) _ ?st = _ =>
    let H := fresh "Hfd" in
    pose proof L as H;
    match type of H with _ = (?st', _) =>
      rewrite (b_ok _ _ _ _ _ (H : handle_fd_pdu o dt st = (st', Ok tt))) end; clear H
  end.

Lemma dm_fd_again : forall off data fs lg old, lookup fs [x] = Some (File old) -> 0 < zlen data ->
  Dest.state_machine (Some (PFileData hA' off data)) (DA' (off + zlen data) off (off + zlen data) fs lg) =
    (DA' (off + zlen data) off (off + zlen data) (set_node fs [x] (File (write_at old off data)))
         (if l_ind_seg cd then EvSegmentRecv srcid seq off (zlen data) :: lg else lg), Ok tt).
Proof.
  intros off data fs lg old Hl Hpos.
  rewrite (sm_busy cd rd crc large srcid idw seq seqw Hrem) by reflexivity.
  unfold catch_abandoned; apply catch_ok. change 3%nat with (S 2). cbn [non_idle_fsm].
  unfold DA at 1, dstA, dpA, hB, fin0. unfold fsm_advancement at 1. mrun.
  rw_hfd (hfd_again off data fs lg old Hl Hpos).
  rewrite Z.max_id. unfold DA, dstA, dpA, hB, fin0. mrun. reflexivity.
Qed.

(* the second copy of the EOF PDU arrives after the ACK (EOF) was retrieved: the call first advances as a call without a
   PDU would (checksum verified, transfer complete, Finished PDU queued, Positive-ACK timer started), then treats the
   EOF PDU in the new step: it is acknowledged again *)
Lemma dm_eof_re : forall nw cks fl ls fs lg data,
  lookup fs [x] = Some (File data) -> calculate_checksum ckt (Some data) fsz 4096 = Ok cks ->
  Dest.state_machine (Some (PEof hA' C_NO_ERROR cks fsz fl)) (RE' nw 0 [] cks ls fs lg) =
    (RW' nw nw 0 2 [finP'; ackE'] cks ls fs (evFin' :: lg), Ok tt).
Proof.
  intros nw cks fl ls fs lg data Hl Hck.
  rewrite (sm_busy cd rd crc large srcid idw seq seqw Hrem) by reflexivity.
  unfold catch_abandoned; apply catch_ok. change 3%nat with (S 2). cbn [non_idle_fsm].
  unfold RE, RW, dT, dpT, hB, fin0, fin1. unfold fsm_advancement at 1. mrun.
  unfold checksum_verify; mrun; dpr;
  (destruct (ckt =? CK_NULL) eqn:Eck; cbn [orb]; mrun;
   [| unfold vfs_checksum; mrun; rewrite Eck; mrun; rewrite Hl, Hck; cbv iota; mrun; rewrite bytes_eqb_refl; dpr; rewrite Z.leb_refl; cbn [andb]; mrun]);
  unfold handle_transfer_completion, notice_of_completion; mrun; rewrite Hfin; mrun; dpr; mrun;
  unfold prepare_finished_pdu, conf, add_packet; mrun;
  unfold handle_finished_pdu_sent; mrun; unfold start_positive_ack_procedure, rcfg_or_assert, now; mrun;
  unfold handle_waiting_for_finished_ack, prepare_eof_ack_packet, conf, add_packet; mrun; reflexivity.
Qed.
End ReceiverD.

(* ================================================================== *)
(* 3. the scheduler of System.v on a link that duplicates one PDU      *)
(* ================================================================== *)
Local Opaque state_machine_s Dest.state_machine.

Ltac ypr :=
  unfold set; cbv beta;
  cbn [y_src y_dst y_s2d y_d2s y_cnt_s2d y_cnt_d2s y_delayed y_round y_src_cur y_dst_cur y_src_done y_dst_done
       y_errs y_faults fst snd].

(* what the link delivers of the PDUs [ps] emitted as number [c], [c + 1], ... on direction [dir]: the PDU the fault
   names arrives twice, one copy right after the other *)
Fixpoint dupl (ft : fault) (dir c : Z) (ps : list pdu) : list pdu :=
  match ps with
  | [] => []
  | p :: t => if hit ft dir c then p :: p :: dupl ft dir (c + 1) t else p :: dupl ft dir (c + 1) t
  end.

Section SchedD.
Variable ft : fault.
Hypothesis Hk : ft_kind ft = 1.

Lemma emit_d0 : forall ps er s dd q1 q2 c1 c2 rnd scur dcur sdone ddone,
  emit_pdus 0 ps (ZG [ft] er s dd q1 q2 c1 c2 rnd scur dcur sdone ddone) =
  ZG [ft] er s dd (q1 ++ dupl ft 0 c1 ps) q2 (c1 + zlen ps) c2 rnd scur dcur sdone ddone.
Proof.
  unfold ZG. induction ps as [|p t IH]; intros er s dd q1 q2 c1 c2 rnd scur dcur sdone ddone.
  - cbn [emit_pdus dupl]. rewrite app_nil_r. change (zlen (@nil pdu)) with 0. rewrite Z.add_0_r. reflexivity.
  - pose proof (zlen_cons _ p t) as Hz.
    cbn [emit_pdus dupl]. ypr. change (0 =? 0) with true. cbv iota. ypr.
    cbn [find_fault]. fold (hit ft 0 c1). destruct (hit ft 0 c1); cbv iota.
    + rewrite Hk. change (1 =? 0) with false. change (1 =? 1) with true. cbv iota.
      unfold link_push. change (0 =? 0) with true. cbv iota. ypr. rewrite IH.
      rewrite <- app_assoc. cbn [app]. rewrite Hz. f_equal. lia.
    + unfold link_push. change (0 =? 0) with true. cbv iota. ypr. rewrite IH.
      rewrite <- app_assoc. cbn [app]. rewrite Hz. f_equal. lia.
Qed.

Lemma emit_d1 : forall ps er s dd q1 q2 c1 c2 rnd scur dcur sdone ddone,
  emit_pdus 1 ps (ZG [ft] er s dd q1 q2 c1 c2 rnd scur dcur sdone ddone) =
  ZG [ft] er s dd q1 (q2 ++ dupl ft 1 c2 ps) c1 (c2 + zlen ps) rnd scur dcur sdone ddone.
Proof.
  unfold ZG. induction ps as [|p t IH]; intros er s dd q1 q2 c1 c2 rnd scur dcur sdone ddone.
  - cbn [emit_pdus dupl]. rewrite app_nil_r. change (zlen (@nil pdu)) with 0. rewrite Z.add_0_r. reflexivity.
  - pose proof (zlen_cons _ p t) as Hz.
    cbn [emit_pdus dupl]. ypr. change (1 =? 0) with false. cbv iota. ypr.
    cbn [find_fault]. fold (hit ft 1 c2). destruct (hit ft 1 c2); cbv iota.
    + rewrite Hk. change (1 =? 0) with false. change (1 =? 1) with true. cbv iota.
      unfold link_push. change (1 =? 0) with false. cbv iota. ypr. rewrite IH.
      rewrite <- app_assoc. cbn [app]. rewrite Hz. f_equal. lia.
    + unfold link_push. change (1 =? 0) with false. cbv iota. ypr. rewrite IH.
      rewrite <- app_assoc. cbn [app]. rewrite Hz. f_equal. lia.
Qed.

(* ---- one API call *)
Lemma call_src_d : forall pkt s s' ps er dd q1 q2 c1 c2 rnd scur dcur sdone ddone,
  pump_with pkt s = (s', Ok ps) -> Forall onw ps ->
  call_src pkt (ZG [ft] er s dd q1 q2 c1 c2 rnd scur dcur sdone ddone) =
   (ZG [ft] er s' dd (q1 ++ dupl ft 0 c1 ps) q2 (c1 + zlen ps) c2 rnd
       (ncur (s_state s' =? ST_BUSY) (q_tid (s_p s')) scur) dcur (ndone (s_state s' =? ST_BUSY) scur sdone) ddone,
    zlen ps).
Proof.
  intros pkt s s' ps er dd q1 q2 c1 c2 rnd scur dcur sdone ddone H Ho.
  unfold pump_with in H.
  destruct (state_machine_s pkt s) as [s1 [u|e]] eqn:Hsm; [|discriminate H].
  assert (Es1 : s_state (fst (drain_s s1)) = s_state s1) by reflexivity.
  assert (Es2 : q_tid (s_p (fst (drain_s s1))) = q_tid (s_p s1)) by reflexivity.
  destruct (drain_s s1) as [s2 ps2] eqn:Ed. cbn [fst] in Es1, Es2. injection H as -> ->.
  rewrite Es1, Es2.
  unfold call_src, ZG. ypr. rewrite Hsm. ypr. rewrite nds_m. ypr. rewrite Ed.
  change (fun p => match on_wire p with Some q => [q] | None => [] end) with ow.
  rewrite (ow_all _ Ho). exact (f_equal (fun y => (y, zlen ps)) (emit_d0 ps er s' dd q1 q2 c1 c2 rnd _ dcur _ ddone)).
Qed.

Lemma call_dst_d : forall pkt dd dd1 dd' outs er s q1 q2 c1 c2 rnd scur dcur sdone ddone,
  Dest.state_machine pkt dd = (dd1, Ok tt) -> drain_d dd1 = (dd', outs) -> Forall onw outs ->
  call_dst pkt (ZG [ft] er s dd q1 q2 c1 c2 rnd scur dcur sdone ddone) =
   (ZG [ft] er s dd' q1 (q2 ++ dupl ft 1 c2 outs) c1 (c2 + zlen outs) rnd scur
       (ncur (d_state dd' =? ST_BUSY) (p_tid (d_p dd')) dcur) sdone (ndone (d_state dd' =? ST_BUSY) dcur ddone),
    zlen outs).
Proof.
  intros pkt dd dd1 dd' outs er s q1 q2 c1 c2 rnd scur dcur sdone ddone H1 Hdr Ho.
  assert (Es1 : d_state (fst (drain_d dd1)) = d_state dd1) by reflexivity.
  assert (Es2 : p_tid (d_p (fst (drain_d dd1))) = p_tid (d_p dd1)) by reflexivity.
  rewrite Hdr in Es1, Es2. cbn [fst] in Es1, Es2. rewrite Es1, Es2.
  unfold call_dst, ZG. ypr. rewrite H1. ypr. rewrite ndd_m. ypr. rewrite Hdr.
  change (fun p => match on_wire p with Some q => [q] | None => [] end) with ow.
  rewrite (ow_all _ Ho). exact (f_equal (fun y => (y, zlen outs)) (emit_d1 outs er s dd' q1 q2 c1 c2 rnd scur _ sdone _)).
Qed.

(* ---- the PDUs on their way to a handler are handed to it one after the other *)
(* the busy sender takes the PDU *)
Lemma da_src_ok : forall pk t s s' ps er dd q1 q2 c1 c2 rnd scur dcur sdone ddone a,
  s_state s = ST_BUSY -> pump_with (Some pk) s = (s', Ok ps) -> Forall onw ps ->
  deliver_all deliver_to_source (pk :: t) (ZG [ft] er s dd q1 q2 c1 c2 rnd scur dcur sdone ddone) a =
  deliver_all deliver_to_source t
    (ZG [ft] er s' dd (q1 ++ dupl ft 0 c1 ps) q2 (c1 + zlen ps) c2 rnd
        (ncur (s_state s' =? ST_BUSY) (q_tid (s_p s')) scur) dcur (ndone (s_state s' =? ST_BUSY) scur sdone) ddone)
    (a + 1 + zlen ps).
Proof.
  intros pk t s s' ps er dd q1 q2 c1 c2 rnd scur dcur sdone ddone a Hb P Ho. cbn [deliver_all].
  assert (E : deliver_to_source pk (ZG [ft] er s dd q1 q2 c1 c2 rnd scur dcur sdone ddone) =
              call_src (Some pk) (ZG [ft] er s dd q1 q2 c1 c2 rnd scur dcur sdone ddone)).
  { unfold deliver_to_source, ZG. ypr. rewrite Hb. reflexivity. }
  rewrite E, (call_src_d (Some pk) s s' ps) by assumption. reflexivity.
Qed.

(* the busy sender refuses the PDU *)
Lemma da_src_err : forall pk t s e er dd q1 q2 c1 c2 rnd scur dcur sdone ddone a,
  s_state s = ST_BUSY -> state_machine_s (Some pk) s = (s, Err e) -> s_queue s = [] ->
  deliver_all deliver_to_source (pk :: t) (ZG [ft] er s dd q1 q2 c1 c2 rnd scur dcur sdone ddone) a =
  deliver_all deliver_to_source t
    (ZG [ft] ((0, e) :: er) (fst (drain_s s)) dd q1 q2 c1 c2 rnd
        (ncur (s_state s =? ST_BUSY) (q_tid (s_p s)) scur) dcur (ndone (s_state s =? ST_BUSY) scur sdone) ddone)
    (a + 1 + 0).
Proof.
  intros pk t s e er dd q1 q2 c1 c2 rnd scur dcur sdone ddone a Hb Hsm Hq. cbn [deliver_all].
  assert (E : deliver_to_source pk (ZG [ft] er s dd q1 q2 c1 c2 rnd scur dcur sdone ddone) =
              call_src (Some pk) (ZG [ft] er s dd q1 q2 c1 c2 rnd scur dcur sdone ddone)).
  { unfold deliver_to_source, ZG. ypr. rewrite Hb. reflexivity. }
  rewrite E, (call_src_err ft pk s e) by assumption. reflexivity.
Qed.

(* the receiver takes the PDU *)
Lemma da_dst_ok : forall pd t dd dd1 dd' outs er s q1 q2 c1 c2 rnd scur dcur sdone ddone a,
  dguard pd dd ddone ->
  Dest.state_machine (Some pd) dd = (dd1, Ok tt) -> drain_d dd1 = (dd', outs) -> Forall onw outs ->
  deliver_all deliver_to_dest (pd :: t) (ZG [ft] er s dd q1 q2 c1 c2 rnd scur dcur sdone ddone) a =
  deliver_all deliver_to_dest t
    (ZG [ft] er s dd' q1 (q2 ++ dupl ft 1 c2 outs) c1 (c2 + zlen outs) rnd scur
        (ncur (d_state dd' =? ST_BUSY) (p_tid (d_p dd')) dcur) sdone (ndone (d_state dd' =? ST_BUSY) dcur ddone))
    (a + 1 + zlen outs).
Proof.
  intros pd t dd dd1 dd' outs er s q1 q2 c1 c2 rnd scur dcur sdone ddone a [G1 G2] Hd Hdr Ho. cbn [deliver_all].
  unfold ZG at 1. rewrite deliver_to_dest_pass by assumption.
  fold (ZG [ft] er s dd q1 q2 c1 c2 rnd scur dcur sdone ddone).
  rewrite (call_dst_d (Some pd) dd dd1 dd' outs) by assumption. reflexivity.
Qed.

(* an ACK for a transaction the idle receiver has closed: dropped by its surrounding entity *)
Lemma da_dst_closed : forall h dv cond st t dd er s q1 q2 c1 c2 rnd scur dcur sdone ddone a,
  d_state dd = ST_IDLE -> tid_mem (h_src h, h_seq h) ddone = true ->
  deliver_all deliver_to_dest (PAck h dv cond st :: t) (ZG [ft] er s dd q1 q2 c1 c2 rnd scur dcur sdone ddone) a =
  deliver_all deliver_to_dest t (ZG [ft] er s dd q1 q2 c1 c2 rnd scur dcur sdone ddone) (a + 1 + 0).
Proof.
  intros h dv cond st t dd er s q1 q2 c1 c2 rnd scur dcur sdone ddone a Hi Hmem. cbn [deliver_all].
  assert (E : deliver_to_dest (PAck h dv cond st) (ZG [ft] er s dd q1 q2 c1 c2 rnd scur dcur sdone ddone) =
              (ZG [ft] er s dd q1 q2 c1 c2 rnd scur dcur sdone ddone, 0)).
  { unfold deliver_to_dest. unfold ZG at 1 2 3. ypr. rewrite Hi. change (ST_IDLE =? ST_IDLE) with true.
    cbn [pdu_hdr andb]. rewrite Hmem. reflexivity. }
  rewrite E. reflexivity.
Qed.

(* ---- the two halves of a round *)
Lemma sph0_d : forall s s' ps er dd c1 c2 rnd scur dcur sdone ddone,
  pump s = (s', Ok ps) -> Forall onw ps ->
  sphase [] (ZG [ft] er s dd [] [] c1 c2 rnd scur dcur sdone ddone) =
   (ZG [ft] er s' dd (dupl ft 0 c1 ps) [] (c1 + zlen ps) c2 rnd
       (ncur (s_state s' =? ST_BUSY) (q_tid (s_p s')) scur) dcur (ndone (s_state s' =? ST_BUSY) scur sdone) ddone,
    0 + zlen ps + (if (s_state s =? s_state s') && (s_step s =? s_step s') then 0 else 1)).
Proof.
  intros s s' ps er dd c1 c2 rnd scur dcur sdone ddone P Ho.
  unfold sphase. cbn [deliver_all]. rewrite (call_src_d None s s' ps) by assumption. cbn [app]. reflexivity.
Qed.

Lemma sph_list : forall pk t y, sphase (pk :: t) y = deliver_all deliver_to_source (pk :: t) y 0.
Proof. intros. unfold sphase. destruct (deliver_all deliver_to_source (pk :: t) y 0). reflexivity. Qed.

Lemma dph0_d : forall dd dd1 dd' outs er s c1 c2 rnd scur dcur sdone ddone a2,
  Dest.state_machine None dd = (dd1, Ok tt) -> drain_d dd1 = (dd', outs) -> Forall onw outs ->
  dphase (ZG [ft] er s dd [] [] c1 c2 rnd scur dcur sdone ddone) a2 =
   (ZG [ft] er s dd' [] (dupl ft 1 c2 outs) c1 (c2 + zlen outs) rnd scur
       (ncur (d_state dd' =? ST_BUSY) (p_tid (d_p dd')) dcur) sdone (ndone (d_state dd' =? ST_BUSY) dcur ddone),
    a2 + zlen outs + (if (d_state dd =? d_state dd') && (d_step dd =? d_step dd') then 0 else 1)).
Proof.
  intros dd dd1 dd' outs er s c1 c2 rnd scur dcur sdone ddone a2 Hd Hdr Ho.
  unfold dphase. unfold ZG at 1 2. ypr. cbn [deliver_all].
  fold (ZG [ft] er s dd [] [] c1 c2 rnd scur dcur sdone ddone).
  rewrite (call_dst_d None dd dd1 dd' outs) by assumption. cbn [app]. reflexivity.
Qed.

Lemma dph_list : forall pd t er s dd c1 c2 rnd scur dcur sdone ddone a2,
  dphase (ZG [ft] er s dd (pd :: t) [] c1 c2 rnd scur dcur sdone ddone) a2 =
  deliver_all deliver_to_dest (pd :: t) (ZG [ft] er s dd [] [] c1 c2 rnd scur dcur sdone ddone) a2.
Proof.
  intros. rewrite (dphase_cons (ZG [ft] er s dd (pd :: t) [] c1 c2 rnd scur dcur sdone ddone) a2 pd t eq_refl). reflexivity.
Qed.

Lemma da_nil : forall f y a, deliver_all f [] y a = (y, a).
Proof. reflexivity. Qed.
End SchedD.

(* ================================================================== *)
(* 4. the two-entity system with one duplicated PDU                    *)
(* ================================================================== *)
Lemma hit_d00 : forall i c, hit (mkFault 0 i 1 0) 0 c = (i =? c). Proof. reflexivity. Qed.
Lemma hit_d01 : forall i c, hit (mkFault 0 i 1 0) 1 c = false. Proof. reflexivity. Qed.
Lemma hit_d10 : forall i c, hit (mkFault 1 i 1 0) 0 c = false. Proof. reflexivity. Qed.
Lemma hit_d11 : forall i c, hit (mkFault 1 i 1 0) 1 c = (i =? c). Proof. reflexivity. Qed.

(* the second copy of a File Data PDU writes what the first has written *)
Lemma write_again : forall (d : bytes) seg off, 1 <= seg -> 0 <= off < zlen d ->
  write_at (ztake (off + Z.min seg (zlen d - off)) d) off (ztake seg (zdrop off d)) =
  ztake (off + Z.min seg (zlen d - off)) d.
Proof.
  intros d seg off H1 H2.
  pose proof (tile_len d seg off H1 H2) as Hl.
  assert (Hne : ztake seg (zdrop off d) <> []).
  { intro E. rewrite E in Hl. change (zlen (@nil Z)) with 0 in Hl. lia. }
  assert (E : ztake (off + Z.min seg (zlen d - off)) d = ztake off d ++ ztake seg (zdrop off d) ++ []).
  { rewrite app_nil_r. rewrite ztake_add by lia. unfold read_at. rewrite ztake_min by lia. reflexivity. }
  assert (Ho : zlen (ztake off d) = off) by (rewrite zlen_ztake by lia; lia).
  pose proof (write_mid (ztake off d) (ztake seg (zdrop off d)) [] (ztake seg (zdrop off d)) Hne eq_refl) as Hw.
  rewrite Ho in Hw. rewrite E. exact Hw.
Qed.

Section SysD.
Variables (cs cd : lcfg) (p : putreq) (rs rd : rcfg) (sn : path) (x : Z) (data cks : bytes) (cf : sconf)
          (seg tick : Z) (clo : bool) (fss : tree) (ft : fault).
Hypothesis Hnames : pr_names p = Some (sn, [x]).
Hypothesis Hlook : lookup fss sn = Some (File data).
Hypothesis Hseg : 1 <= seg.
Hypothesis Hm : sc_mode cf = ACKED.
Hypothesis Hck : calculate_checksum (r_cktype rs) (Some data) (zlen data) seg = Ok cks.
Hypothesis Hck2 : calculate_checksum (r_cktype rs) (Some data) (zlen data) 4096 = Ok cks.
Hypothesis Hfins : l_ind_fin cs = true.
Hypothesis Hfind : l_ind_fin cd = true.
Hypothesis Hrem : get_remote (l_remotes cd) (sc_src cf) = Some rd.
Hypothesis Hdst : sc_dst cf = l_id cd.
Hypothesis Hacks : 0 < r_ack_ms rs.
Hypothesis Hackd : 0 < r_ack_ms rd.
Hypothesis Hsrc : sc_src cf = l_id cs.
Hypothesis Hdstr : sc_dst cf = r_id rs.
Hypothesis Hk : ft_kind ft = 1.

Local Notation hRA' := (hRA cd cf).
Local Notation tid := (tidA cf).
Local Notation RT f :=
  (f cd rd x (sc_crc cf) (sc_large cf) clo (sc_src cf) (sc_srcw cf) (sc_seq cf) (sc_seqw cf) (r_cktype rs) (zlen data))
  (only parsing).
Local Notation DAx := (RT DA) (only parsing).
Local Notation RAx := (RT RA) (only parsing).
Local Notation REx := (RT RE) (only parsing).
Local Notation RWx := (RT RW) (only parsing).
Local Notation RFx := (RF cd (sc_src cf) (sc_seq cf)) (only parsing).
Local Notation InvAx := (InvA cs p rs fss data cf seg clo tid) (only parsing).
Local Notation T7 := (TailT cs p rs fss data cf seg tid) (only parsing).
Local Notation T8 := (Tail cs p rs cf tid SS_WAITING_FOR_FINISHED None) (only parsing).
Local Notation T9 := (Tail cs p rs cf tid SS_SENDING_ACK_OF_FINISHED (Some (C_NO_ERROR, DATA_COMPLETE, FS_RETAINED, None)))
  (only parsing).
Local Notation ackE' := (ackEA cd cf).
Local Notation finP' := (finPA cd cf).
Local Notation evF := (evFinD cf).
Local Notation eofG' := (eofG cd data cks cf).
Local Notation ackFG' := (ackFG cd cf).
Local Notation nfd' := (nfd data seg).
Local Notation FinalGx := (FinalG cd x data cf ft).
Local Notation fin_okx := (fin_ok cd x data cf tick ft).

(* the system between two rounds: nothing on its way to the receiver, [q] on its way to the sender; [c1], [c2] PDUs
   emitted so far in the two directions; the surrounding entities know the transaction as current (the receiver's as
   long as its handler is busy: that is what lets it drop the second copy of the ACK (Finished)) *)
Definition atD (er : list (Z * Z)) (s : src) (dd : dst) (q : list pdu) (c1 c2 : Z) (y : sys) : Prop :=
  exists rnd dcur sdone ddone,
    y = ZG [ft] er s dd [] q c1 c2 rnd (Some tid) dcur sdone ddone /\ (d_state dd = ST_BUSY -> dcur = Some tid).

Ltac at_here := unfold atD; do 4 eexists; split; [reflexivity | intros _; apply ncur_busy; reflexivity].

(* while File Data is sent *)
Definition SPd (off c1 : Z) (y : sys) : Prop :=
  exists s ls fs lg,
    atD [] s (DAx off ls off fs lg) [] c1 0 y /\ InvAx off s /\
    lookup fs [x] = Some (File (ztake off data)) /\ clean lg.

(* after the EOF PDU *)
Definition Wd (er : list (Z * Z)) (Ps : src -> Prop) (mk : tree -> list event -> dst) (fin : bool) (q : list pdu)
           (c1 c2 : Z) (y : sys) : Prop :=
  exists s fs lg,
    atD er s (mk fs (if fin then evF :: lg else lg)) q c1 c2 y /\ Ps s /\
    lookup fs [x] = Some (File data) /\ clean lg.

Definition rEd (nwd ls : Z) : tree -> list event -> dst := fun fs lg => REx nwd 0 [] cks ls fs lg.
Definition rWd (nwd td kd ls : Z) : tree -> list event -> dst := fun fs lg => RWx nwd td kd 0 [] cks ls fs lg.
Definition rFd (nwd : Z) : tree -> list event -> dst := fun fs lg => RFx nwd fs lg.

Ltac sbusy H := first [exact (InvA_busy _ _ _ _ _ _ _ _ _ _ _ H) | exact (Tail_busy _ _ _ _ _ _ _ H)
                       | exact (TailT_busy _ _ _ _ _ _ _ _ _ _ _ _ H)].
Ltac stid H := first [exact (InvA_tid _ _ _ _ _ _ _ _ _ _ H) | exact (Tail_tid _ _ _ _ _ _ _ H)
                      | exact (TailT_tid _ _ _ _ _ _ _ _ _ _ _ _ H)].
Ltac keep H := rewrite (ncur_busy _ _ tid _ ltac:(sbusy H) ltac:(stid H)), (ndone_busy _ _ _ ltac:(sbusy H)).
Ltac fo := repeat (first [apply Forall_nil | apply Forall_cons; [reflexivity|]]).
Ltac norm0 := change (zlen (@nil pdu)) with 0; rewrite ?Z.add_0_r.
Ltac apos := repeat match goal with |- context[if ?b then 0 else 1] => destruct b end; unfold zlen; cbn [length]; lia.

Lemma Tail_drain : forall st qf s, Tail cs p rs cf tid st qf s -> Tail cs p rs cf tid st qf (fst (drain_s s)).
Proof.
  clear. intros st0 qf s (H1&H2&H3&H4&H5&H6&H7&H8&H9&H10&H11).
  destruct s as [cfg st step ready queue q sb pt sc sbits [nw' fs' rw lg]].
  cbn in *. subst. unfold Tail, drain_s. cbn. repeat (split; [first [assumption|reflexivity]|]); assumption.
Qed.
Lemma Tail_queue : forall st qf s, Tail cs p rs cf tid st qf s -> s_queue s = [].
Proof. intros st qf s (_&_&_&H&_). exact H. Qed.

(* ---- what the handlers do, in the vocabulary of this section *)
Lemma Ld_final : forall s, InvAx (zlen data) s -> exists s' nw, pump s = (s', Ok [eofG']) /\ T7 nw nw 0 s'.
Proof.
  intros s HI.
  destruct (step_final_t cs p rs fss data cks cf seg clo tid sn [x] Hnames Hlook Hm Hck Hacks s HI) as (s' & nw & P & HT).
  rewrite (hdr_eq_a cd cf Hm Hdst) in P. exists s', nw. split; assumption.
Qed.
Lemma Ld_eof_ra : forall nwd ls fs lg,
  Dest.state_machine (Some eofG') (RAx nwd ls fs lg) =
    (REx nwd 1 [ackE'] cks ls fs ((if l_ind_eof_recv cd then [EvEofRecv (sc_src cf) (sc_seq cf)] else []) ++ lg), Ok tt).
Proof. intros. exact (tm_eof_ra cd rd x _ _ clo _ _ _ _ _ _ Hrem nwd cks None ls fs lg). Qed.
Lemma Ld_eof_re : forall nwd ls fs lg, lookup fs [x] = Some (File data) ->
  Dest.state_machine (Some eofG') (REx nwd 0 [] cks ls fs lg) =
    (RWx nwd nwd 0 2 [finP'; ackE'] cks ls fs (evF :: lg), Ok tt).
Proof.
  intros nwd ls fs lg Hl. exact (dm_eof_re cd rd x _ _ clo _ _ _ _ _ _ Hrem Hfind nwd cks None ls fs lg data Hl Hck2).
Qed.
Lemma Ld_ack : forall nw t0 k s, T7 nw t0 k s -> exists s', pump_with (Some ackE') s = (s', Ok []) /\ T8 s'.
Proof.
  intros nw t0 k s HT.
  destruct (step_ack_eof cs p rs cf tid Hm Hsrc Hdstr s C_NO_ERROR TS_ACTIVE (TailT_Tail _ _ _ _ _ _ _ _ _ _ _ _ HT))
    as (s' & P & HT').
  rewrite (hdr_eq_b cd cf Hm Hdst) in P. exists s'. split; assumption.
Qed.
Lemma Ld_ack_refused : forall s, T8 s -> state_machine_s (Some ackE') s = (s, Err E_PDU_IGNORED_SOURCE).
Proof.
  intros s HT. pose proof (t8_ack_refused cs p rs cf tid Hm Hsrc Hdstr s C_NO_ERROR TS_ACTIVE HT) as P.
  rewrite (hdr_eq_b cd cf Hm Hdst) in P. exact P.
Qed.
Lemma Ld_fin : forall s, T8 s -> exists s', pump_with (Some finP') s = (s', Ok [ackFG']) /\ T9 s'.
Proof.
  intros s HT. destruct (step_finished cs p rs cf tid Hm Hsrc Hdstr s FS_RETAINED HT) as (s' & P & HT').
  rewrite (hdr_eq_b cd cf Hm Hdst), (hdr_eq_a cd cf Hm Hdst) in P. exists s'. split; assumption.
Qed.
Lemma Ld_t9_ack : forall s, T9 s -> exists s' lg0, pump_with (Some ackE') s = (s', Ok []) /\ s_state s' = ST_IDLE /\
  e_log (s_env s') = EvFinished (sc_src cf) (sc_seq cf) C_NO_ERROR DATA_COMPLETE FS_RETAINED None :: lg0 /\ clean lg0.
Proof.
  intros s HT.
  destruct (t9_ack_done cs p rs cf tid Hm Hfins Hsrc Hdstr s FS_RETAINED C_NO_ERROR TS_ACTIVE HT) as (s' & lg0 & P & H).
  rewrite (hdr_eq_b cd cf Hm Hdst) in P. exists s', lg0. split; assumption.
Qed.
Lemma Ld_t9_fin : forall s, T9 s -> exists s' lg0, pump_with (Some finP') s = (s', Ok []) /\ s_state s' = ST_IDLE /\
  e_log (s_env s') = EvFinished (sc_src cf) (sc_seq cf) C_NO_ERROR DATA_COMPLETE FS_RETAINED None :: lg0 /\ clean lg0.
Proof.
  intros s HT.
  destruct (t9_fin_done cs p rs cf tid Hm Hfins Hsrc Hdstr s FS_RETAINED C_NO_ERROR DATA_COMPLETE FS_RETAINED None HT)
    as (s' & lg0 & P & H).
  rewrite (hdr_eq_b cd cf Hm Hdst) in P. exists s', lg0. split; assumption.
Qed.
Lemma Ld_complete : forall nwd ls fs lg, lookup fs [x] = Some (File data) ->
  Dest.state_machine None (REx nwd 0 [] cks ls fs lg) = (RWx nwd nwd 0 1 [finP'] cks ls fs (evF :: lg), Ok tt).
Proof.
  intros nwd ls fs lg Hl.
  exact (tm_complete cd rd x _ _ clo _ _ _ _ _ _ Hfind Hackd nwd cks ls fs lg data Hl Hck2).
Qed.
Lemma Ld_ack_fin : forall st nwd td kd ls fs lg,
  Dest.state_machine (Some (PAck hRA' D_FINISHED C_NO_ERROR st)) (RWx nwd td kd 0 [] cks ls fs lg) = (RFx nwd fs lg, Ok tt).
Proof. intros. exact (tm_ack_fin cd rd x _ _ clo _ _ _ _ _ _ Hrem nwd td kd C_NO_ERROR st cks ls fs lg). Qed.

Lemma clean_eofr'' : forall a b lg, clean lg -> clean ((if l_ind_eof_recv cd then [EvEofRecv a b] else []) ++ lg).
Proof. intros. apply clean_eofr'. assumption. Qed.

(* ---- the rounds before the EOF PDU *)
Lemma round_md_n : forall s1 s3,
  pump s1 = (s3, Ok [PMetadata (hdr_of cf TOWARDS_RECEIVER) clo (r_cktype rs) (zlen data) (Some (sn, [x])) []]) ->
  InvAx 0 s3 -> hit ft 0 0 = false ->
  exists y', reach tick (ZG [ft] [] s1 (dst_init cd) [] [] 0 0 0 None None [] []) y' /\ SPd 0 1 y'.
Proof.
  intros s1 s3 P HI Hh. rewrite (hdr_eq_a cd cf Hm Hdst) in P.
  pose proof (sm_md_a cd rd x (sc_crc cf) (sc_large cf) clo (sc_src cf) (sc_srcw cf) (sc_seq cf) (sc_seqw cf)
                (r_cktype rs) (zlen data) Hrem sn []) as Hsm.
  assert (G : dguard (PMetadata hRA' clo (r_cktype rs) (zlen data) (Some (sn, [x])) []) (dst_init cd) []) by (split; reflexivity).
  eexists. split.
  - eapply reach_step.
    + rewrite (step_round_ZG ft), (sph0_d ft Hk s1 s3 _ _ _ _ _ _ _ _ _ _ P ltac:(fo)). cbv beta iota.
      cbn [dupl]. rewrite Hh.
      rewrite dph_list, (da_dst_ok ft Hk _ _ (dst_init cd) _ _ [] _ _ _ _ _ _ _ _ _ _ _ _ G Hsm eq_refl ltac:(fo)).
      rewrite da_nil. keep HI. reflexivity.
    + apos.
    + apply qz_sbusy. sbusy HI.
  - do 4 eexists. split; [at_here|]. split; [exact HI|]. split.
    + cbn [lookup lookup_raw path_eqb]. rewrite Z.eqb_refl. reflexivity.
    + apply clean_cons; [reflexivity|reflexivity|apply clean_nil].
Qed.

(* the Metadata PDU arrives twice: the second copy reaches the receiver while it expects File Data and is ignored *)
Lemma round_md_h : forall s1 s3,
  pump s1 = (s3, Ok [PMetadata (hdr_of cf TOWARDS_RECEIVER) clo (r_cktype rs) (zlen data) (Some (sn, [x])) []]) ->
  InvAx 0 s3 -> hit ft 0 0 = true ->
  exists y', reach tick (ZG [ft] [] s1 (dst_init cd) [] [] 0 0 0 None None [] []) y' /\ SPd 0 1 y'.
Proof.
  intros s1 s3 P HI Hh. rewrite (hdr_eq_a cd cf Hm Hdst) in P.
  pose proof (sm_md_a cd rd x (sc_crc cf) (sc_large cf) clo (sc_src cf) (sc_srcw cf) (sc_seq cf) (sc_seqw cf)
                (r_cktype rs) (zlen data) Hrem sn []) as Hsm.
  pose proof (dm_md_again cd rd x (sc_crc cf) (sc_large cf) clo (sc_src cf) (sc_srcw cf) (sc_seq cf) (sc_seqw cf)
                (r_cktype rs) (zlen data) Hrem clo (r_cktype rs) (zlen data) (Some (sn, [x])) [] 0 0 0 [([x], File [])]
                [EvMetadataRecv (sc_src cf) (sc_seq cf) (sc_src cf) (Some (zlen data)) (Some (sn, [x])) []]) as Hsm2.
  assert (G2 : forall dn, dguard (PMetadata hRA' clo (r_cktype rs) (zlen data) (Some (sn, [x])) [])
                 (DAx 0 0 0 [([x], File [])] [EvMetadataRecv (sc_src cf) (sc_seq cf) (sc_src cf) (Some (zlen data)) (Some (sn, [x])) []]) dn)
    by (intro; apply dbusy_guard; split; reflexivity).
  assert (G : dguard (PMetadata hRA' clo (r_cktype rs) (zlen data) (Some (sn, [x])) []) (dst_init cd) []) by (split; reflexivity).
  eexists. split.
  - eapply reach_step.
    + rewrite (step_round_ZG ft), (sph0_d ft Hk s1 s3 _ _ _ _ _ _ _ _ _ _ P ltac:(fo)). cbv beta iota.
      cbn [dupl]. rewrite Hh.
      rewrite dph_list, (da_dst_ok ft Hk _ _ (dst_init cd) _
                 (DAx 0 0 0 [([x], File [])] [EvMetadataRecv (sc_src cf) (sc_seq cf) (sc_src cf) (Some (zlen data)) (Some (sn, [x])) []])
                 [] _ _ _ _ _ _ _ _ _ _ _ _ G Hsm eq_refl ltac:(fo)).
      rewrite (da_dst_ok ft Hk _ _ _ _ _ [] _ _ _ _ _ _ _ _ _ _ _ _ (G2 _) Hsm2 eq_refl ltac:(fo)).
      rewrite da_nil. keep HI. reflexivity.
    + apos.
    + apply qz_sbusy. sbusy HI.
  - do 4 eexists. split; [at_here|]. split; [exact HI|]. split.
    + cbn [lookup lookup_raw path_eqb]. rewrite Z.eqb_refl. reflexivity.
    + apply clean_cons; [reflexivity|reflexivity|apply clean_nil].
Qed.

Lemma round_fd_n : forall off c1 y, SPd off c1 y -> off < zlen data -> hit ft 0 c1 = false ->
  exists y', reach tick y y' /\ SPd (off + Z.min seg (zlen data - off)) (c1 + 1) y'.
Proof.
  intros off c1 y (s & ls & fs & lg & (rnd & dcur & sdone & ddone & -> & Hdc) & HI & Hl & Hc) Hlt Hh.
  pose proof (InvA_range _ _ _ _ _ _ _ _ _ _ _ HI) as Hr.
  destruct (step_fd_a cs p rs fss data cf seg clo tid sn [x] Hnames Hlook Hseg Hm off s HI Hlt) as (s' & P & HI').
  unfold fd_of in P. cbn [fst snd] in P. rewrite (hdr_eq_a cd cf Hm Hdst) in P.
  set (tile := ztake seg (zdrop off data)) in *.
  assert (Htl : zlen tile = Z.min seg (zlen data - off)) by (apply tile_len; lia).
  assert (How : onw (PFileData hRA' off tile)).
  { unfold onw. destruct tile; [change (zlen (@nil Z)) with 0 in Htl; lia | reflexivity]. }
  assert (Hpos : 0 < zlen tile) by lia.
  pose proof (sm_fd_a cd rd x (sc_crc cf) (sc_large cf) clo (sc_src cf) (sc_srcw cf) (sc_seq cf) (sc_seqw cf)
                (r_cktype rs) (zlen data) Hrem off ls tile fs lg _ Hl Hpos) as Hsm.
  rewrite Z.max_l in Hsm by lia. rewrite Htl in Hsm.
  assert (G : dguard (PFileData hRA' off tile) (DAx off ls off fs lg) ddone) by (apply dbusy_guard; split; reflexivity).
  eexists. split.
  - eapply reach_step.
    + rewrite (step_round_ZG ft), (sph0_d ft Hk s s' _ _ _ _ _ _ _ _ _ _ P (Forall_cons _ How (Forall_nil _))). cbv beta iota.
      cbn [dupl]. rewrite Hh.
      rewrite dph_list, (da_dst_ok ft Hk _ _ _ _ _ [] _ _ _ _ _ _ _ _ _ _ _ _ G Hsm eq_refl (Forall_nil _)).
      rewrite da_nil. keep HI'. reflexivity.
    + apos.
    + apply qz_sbusy. sbusy HI'.
  - do 4 eexists. split; [at_here|]. split; [exact HI'|]. split.
    + rewrite lookup_set_node by discriminate. rewrite path_eqb_refl. f_equal. f_equal.
      apply write_append; lia.
    + destruct (l_ind_seg cd); [apply clean_cons; [reflexivity|reflexivity|exact Hc] | exact Hc].
Qed.

(* a File Data PDU arrives twice: the second copy is the segment just received once more - no gap before it, it does
   not end before the last segment started, the progress does not move; it is written again at the same offset *)
Lemma round_fd_h : forall off c1 y, SPd off c1 y -> off < zlen data -> hit ft 0 c1 = true ->
  exists y', reach tick y y' /\ SPd (off + Z.min seg (zlen data - off)) (c1 + 1) y'.
Proof.
  intros off c1 y (s & ls & fs & lg & (rnd & dcur & sdone & ddone & -> & Hdc) & HI & Hl & Hc) Hlt Hh.
  pose proof (InvA_range _ _ _ _ _ _ _ _ _ _ _ HI) as Hr.
  destruct (step_fd_a cs p rs fss data cf seg clo tid sn [x] Hnames Hlook Hseg Hm off s HI Hlt) as (s' & P & HI').
  unfold fd_of in P. cbn [fst snd] in P. rewrite (hdr_eq_a cd cf Hm Hdst) in P.
  set (tile := ztake seg (zdrop off data)) in *.
  assert (Htl : zlen tile = Z.min seg (zlen data - off)) by (apply tile_len; lia).
  assert (How : onw (PFileData hRA' off tile)).
  { unfold onw. destruct tile; [change (zlen (@nil Z)) with 0 in Htl; lia | reflexivity]. }
  assert (Hpos : 0 < zlen tile) by lia.
  pose proof (sm_fd_a cd rd x (sc_crc cf) (sc_large cf) clo (sc_src cf) (sc_srcw cf) (sc_seq cf) (sc_seqw cf)
                (r_cktype rs) (zlen data) Hrem off ls tile fs lg _ Hl Hpos) as Hsm.
  rewrite Z.max_l in Hsm by lia.
  set (fs1 := set_node fs [x] (File (write_at (ztake off data) off tile))) in *.
  set (lg1 := if l_ind_seg cd then EvSegmentRecv (sc_src cf) (sc_seq cf) off (zlen tile) :: lg else lg) in *.
  assert (Hl1 : lookup fs1 [x] = Some (File (ztake (off + zlen tile) data))).
  { unfold fs1. rewrite lookup_set_node by discriminate. rewrite path_eqb_refl. f_equal. f_equal. rewrite Htl.
    apply write_append; lia. }
  pose proof (dm_fd_again cd rd x (sc_crc cf) (sc_large cf) clo (sc_src cf) (sc_srcw cf) (sc_seq cf) (sc_seqw cf)
                (r_cktype rs) (zlen data) Hrem off tile fs1 lg1 _ Hl1 Hpos) as Hsm2.
  assert (G : dguard (PFileData hRA' off tile) (DAx off ls off fs lg) ddone) by (apply dbusy_guard; split; reflexivity).
  assert (G2 : forall dn, dguard (PFileData hRA' off tile) (DAx (off + zlen tile) off (off + zlen tile) fs1 lg1) dn)
    by (intro; apply dbusy_guard; split; reflexivity).
  rewrite <- Htl.
  eexists. split.
  - eapply reach_step.
    + rewrite (step_round_ZG ft), (sph0_d ft Hk s s' _ _ _ _ _ _ _ _ _ _ P (Forall_cons _ How (Forall_nil _))). cbv beta iota.
      cbn [dupl]. rewrite Hh.
      rewrite dph_list, (da_dst_ok ft Hk _ _ _ _ (DAx (off + zlen tile) off (off + zlen tile) fs1 lg1) [] _ _ _ _ _ _ _ _ _ _ _ _
                            G Hsm eq_refl (Forall_nil _)).
      rewrite (da_dst_ok ft Hk _ _ _ _ _ [] _ _ _ _ _ _ _ _ _ _ _ _ (G2 _) Hsm2 eq_refl (Forall_nil _)).
      rewrite da_nil. keep HI'. reflexivity.
    + apos.
    + apply qz_sbusy. sbusy HI'.
  - do 4 eexists. split; [at_here|]. split; [rewrite Htl; exact HI'|]. split.
    + rewrite lookup_set_node by discriminate. rewrite path_eqb_refl. f_equal. f_equal. rewrite Htl.
      apply write_again; lia.
    + unfold lg1. destruct (l_ind_seg cd); repeat (apply clean_cons; [reflexivity|reflexivity|]); exact Hc.
Qed.

Lemma round_fd_d : forall off c1 y, SPd off c1 y -> off < zlen data ->
  exists y', reach tick y y' /\ SPd (off + Z.min seg (zlen data - off)) (c1 + 1) y'.
Proof.
  intros off c1 y H Hlt. destruct (hit ft 0 c1) eqn:Hh; [exact (round_fd_h off c1 y H Hlt Hh)|exact (round_fd_n off c1 y H Hlt Hh)].
Qed.

Lemma prefix_d : forall m i y, 0 <= i -> SPd (Z.min (i * seg) (zlen data)) (i + 1) y ->
  (i = 0 \/ (i - 1) * seg < zlen data) -> (Z.to_nat (zlen data - i * seg) <= m)%nat ->
  exists y', reach tick y y' /\ SPd (zlen data) (nfd' + 1) y'.
Proof.
  pose proof (nfd_spec data seg Hseg) as HN. assert (HL : 0 <= zlen data) by (unfold zlen; lia).
  induction m as [|m IH]; intros i y Hi HS Hprev Hmm;
    (destruct (Z_lt_le_dec (i * seg) (zlen data)) as [Hlt|Hge];
     [| exists y; split; [apply reach_refl|];
        rewrite Z.min_r in HS by lia; replace (nfd' + 1) with (i + 1); [exact HS|];
        destruct Hprev as [->|Hp]; nia ]).
  - exfalso. lia.
  - rewrite Z.min_l in HS by lia.
    destruct (round_fd_d (i * seg) (i + 1) y HS Hlt) as (y1 & R1 & H1).
    replace (i * seg + Z.min seg (zlen data - i * seg)) with (Z.min ((i + 1) * seg) (zlen data)) in H1 by lia.
    destruct (IH (i + 1) y1 ltac:(lia) H1 ltac:(right; replace (i + 1 - 1) with i by lia; exact Hlt) ltac:(nia))
      as (y2 & R2 & H2).
    exists y2. split; [exact (reach_trans tick _ _ _ R1 R2)|exact H2].
Qed.

(* from the put request to the state in which the EOF PDU is due: whichever PDU before the EOF PDU the link duplicates *)
Lemma to_eof_d : forall s1 s3,
  pump s1 = (s3, Ok [PMetadata (hdr_of cf TOWARDS_RECEIVER) clo (r_cktype rs) (zlen data) (Some (sn, [x])) []]) ->
  InvAx 0 s3 ->
  exists y', reach tick (ZG [ft] [] s1 (dst_init cd) [] [] 0 0 0 None None [] []) y' /\ SPd (zlen data) (nfd' + 1) y'.
Proof.
  intros s1 s3 P HI. assert (HL : 0 <= zlen data) by (unfold zlen; lia).
  assert (M : exists y', reach tick (ZG [ft] [] s1 (dst_init cd) [] [] 0 0 0 None None [] []) y' /\ SPd 0 1 y').
  { destruct (hit ft 0 0) eqn:Hh; [exact (round_md_h s1 s3 P HI Hh)|exact (round_md_n s1 s3 P HI Hh)]. }
  destruct M as (y1 & R1 & H1).
  destruct (prefix_d (Z.to_nat (zlen data)) 0 y1 ltac:(lia) ltac:(rewrite Z.mul_0_l, Z.min_l by lia; exact H1)
              ltac:(left; reflexivity) ltac:(lia)) as (y2 & R2 & H2).
  exists y2. split; [exact (reach_trans tick _ _ _ R1 R2)|exact H2].
Qed.

(* ---- the EOF PDU *)
Local Notation eofr := (if l_ind_eof_recv cd then [EvEofRecv (sc_src cf) (sc_seq cf)] else []) (only parsing).

(* the EOF PDU and its ACK pass *)
Lemma E_nn : forall c1 y, SPd (zlen data) c1 y -> hit ft 0 c1 = false -> hit ft 1 0 = false ->
  exists y', reach tick y y' /\ exists ls nw, Wd [] (T7 nw nw 0) (rEd 0 ls) false [ackE'] (c1 + 1) 1 y'.
Proof.
  intros c1 y (s & ls & fs & lg & (rnd & dcur & sdone & ddone & -> & Hdc) & HI & Hl & Hc) Hh Hh1.
  destruct (Ld_final s HI) as (s' & nw & P & HT). rewrite ztake_all in Hl.
  change (DAx (zlen data) ls (zlen data) fs lg) with (RAx 0 ls fs lg).
  pose proof (Ld_eof_ra 0 ls fs lg) as Hsm.
  assert (G : dguard eofG' (RAx 0 ls fs lg) ddone) by (apply dbusy_guard; split; reflexivity).
  eexists. split.
  - eapply reach_step.
    + rewrite (step_round_ZG ft), (sph0_d ft Hk s s' _ _ _ _ _ _ _ _ _ _ P ltac:(fo)). cbv beta iota.
      cbn [dupl]. rewrite Hh.
      rewrite dph_list, (da_dst_ok ft Hk _ _ _ _ _ [ackE'] _ _ _ _ _ _ _ _ _ _ _ _ G Hsm eq_refl ltac:(fo)).
      rewrite da_nil. keep HT. cbn [dupl app]. rewrite Hh1. reflexivity.
    + apos.
    + apply qz_sbusy. sbusy HT.
  - exists ls, nw. do 3 eexists. split; [at_here|]. split; [exact HT|]. split; [exact Hl|].
    apply clean_eofr''. exact Hc.
Qed.

(* the ACK (EOF) arrives twice *)
Lemma E_nh : forall c1 y, SPd (zlen data) c1 y -> hit ft 0 c1 = false -> hit ft 1 0 = true ->
  exists y', reach tick y y' /\ exists ls nw, Wd [] (T7 nw nw 0) (rEd 0 ls) false [ackE'; ackE'] (c1 + 1) 1 y'.
Proof.
  intros c1 y (s & ls & fs & lg & (rnd & dcur & sdone & ddone & -> & Hdc) & HI & Hl & Hc) Hh Hh1.
  destruct (Ld_final s HI) as (s' & nw & P & HT). rewrite ztake_all in Hl.
  change (DAx (zlen data) ls (zlen data) fs lg) with (RAx 0 ls fs lg).
  pose proof (Ld_eof_ra 0 ls fs lg) as Hsm.
  assert (G : dguard eofG' (RAx 0 ls fs lg) ddone) by (apply dbusy_guard; split; reflexivity).
  eexists. split.
  - eapply reach_step.
    + rewrite (step_round_ZG ft), (sph0_d ft Hk s s' _ _ _ _ _ _ _ _ _ _ P ltac:(fo)). cbv beta iota.
      cbn [dupl]. rewrite Hh.
      rewrite dph_list, (da_dst_ok ft Hk _ _ _ _ _ [ackE'] _ _ _ _ _ _ _ _ _ _ _ _ G Hsm eq_refl ltac:(fo)).
      rewrite da_nil. keep HT. cbn [dupl app]. rewrite Hh1. reflexivity.
    + apos.
    + apply qz_sbusy. sbusy HT.
  - exists ls, nw. do 3 eexists. split; [at_here|]. split; [exact HT|]. split; [exact Hl|].
    apply clean_eofr''. exact Hc.
Qed.

(* the EOF PDU arrives twice.  The first copy is acknowledged; the second reaches the receiver after that ACK (EOF) was
   retrieved: the call completes the transfer (checksum, Transaction-Finished indication, Finished PDU, Positive-ACK
   timer) and acknowledges the EOF PDU again.  Three PDUs are on their way to the sender. *)
Lemma E_h : forall c1 y, SPd (zlen data) c1 y -> hit ft 0 c1 = true -> (forall c, hit ft 1 c = false) ->
  exists y', reach tick y y' /\
    exists ls nw, Wd [] (T7 nw nw 0) (rWd 0 0 0 ls) true [ackE'; finP'; ackE'] (c1 + 1) 3 y'.
Proof.
  intros c1 y (s & ls & fs & lg & (rnd & dcur & sdone & ddone & -> & Hdc) & HI & Hl & Hc) Hh Hd.
  destruct (Ld_final s HI) as (s' & nw & P & HT). rewrite ztake_all in Hl.
  change (DAx (zlen data) ls (zlen data) fs lg) with (RAx 0 ls fs lg).
  pose proof (Ld_eof_ra 0 ls fs lg) as Hsm.
  pose proof (Ld_eof_re 0 ls fs (eofr ++ lg) Hl) as Hsm2.
  assert (G : dguard eofG' (RAx 0 ls fs lg) ddone) by (apply dbusy_guard; split; reflexivity).
  assert (G2 : forall dn, dguard eofG' (REx 0 0 [] cks ls fs (eofr ++ lg)) dn) by (intro; apply dbusy_guard; split; reflexivity).
  eexists. split.
  - eapply reach_step.
    + rewrite (step_round_ZG ft), (sph0_d ft Hk s s' _ _ _ _ _ _ _ _ _ _ P ltac:(fo)). cbv beta iota.
      cbn [dupl]. rewrite Hh.
      rewrite dph_list, (da_dst_ok ft Hk _ _ _ _ (REx 0 0 [] cks ls fs (eofr ++ lg)) [ackE'] _ _ _ _ _ _ _ _ _ _ _ _
                            G Hsm eq_refl ltac:(fo)).
      rewrite (da_dst_ok ft Hk _ _ _ _ _ [finP'; ackE'] _ _ _ _ _ _ _ _ _ _ _ _ (G2 _) Hsm2 eq_refl ltac:(fo)).
      rewrite da_nil. keep HT. cbn [dupl app]. rewrite !Hd. cbn [app]. reflexivity.
    + apos.
    + apply qz_sbusy. sbusy HT.
  - exists ls, nw. exists s', fs, (eofr ++ lg). split; [at_here|]. split; [exact HT|]. split; [exact Hl|].
    apply clean_eofr''. exact Hc.
Qed.

(* ---- ACK (EOF) reaches the sender; the receiver completes the transfer and emits the Finished PDU *)
Lemma A_n : forall er nw t0 k nwd ls c1 c2 y, Wd er (T7 nw t0 k) (rEd nwd ls) false [ackE'] c1 c2 y ->
  hit ft 1 c2 = false ->
  exists y', reach tick y y' /\ Wd er T8 (rWd nwd nwd 0 ls) true [finP'] c1 (c2 + 1) y'.
Proof.
  intros er nw t0 k nwd ls c1 c2 y (s & fs & lg & (rnd & dcur & sdone & ddone & -> & Hdc) & HT & Hl & Hc) Hh.
  destruct (Ld_ack nw t0 k s HT) as (s' & P & HT'). pose proof (Ld_complete nwd ls fs lg Hl) as Hsm.
  unfold rEd. eexists. split.
  - eapply reach_step.
    + rewrite (step_round_ZG ft), sph_list,
        (da_src_ok ft Hk _ _ s s' [] _ _ _ _ _ _ _ _ _ _ _ _ ltac:(sbusy HT) P ltac:(fo)), da_nil. cbv beta iota.
      cbn [dupl app].
      rewrite (dph0_d ft Hk _ _ _ [finP'] _ _ _ _ _ _ _ _ _ _ Hsm eq_refl ltac:(fo)).
      norm0. keep HT'. cbn [dupl]. rewrite Hh. reflexivity.
    + apos.
    + apply qz_sbusy. sbusy HT'.
  - exists s', fs, lg. split; [at_here|]. split; [exact HT'|]. split; [exact Hl|exact Hc].
Qed.

(* the same round when the Finished PDU arrives twice *)
Lemma A_h : forall er nw t0 k nwd ls c1 c2 y, Wd er (T7 nw t0 k) (rEd nwd ls) false [ackE'] c1 c2 y ->
  hit ft 1 c2 = true ->
  exists y', reach tick y y' /\ Wd er T8 (rWd nwd nwd 0 ls) true [finP'; finP'] c1 (c2 + 1) y'.
Proof.
  intros er nw t0 k nwd ls c1 c2 y (s & fs & lg & (rnd & dcur & sdone & ddone & -> & Hdc) & HT & Hl & Hc) Hh.
  destruct (Ld_ack nw t0 k s HT) as (s' & P & HT'). pose proof (Ld_complete nwd ls fs lg Hl) as Hsm.
  unfold rEd. eexists. split.
  - eapply reach_step.
    + rewrite (step_round_ZG ft), sph_list,
        (da_src_ok ft Hk _ _ s s' [] _ _ _ _ _ _ _ _ _ _ _ _ ltac:(sbusy HT) P ltac:(fo)), da_nil. cbv beta iota.
      cbn [dupl app].
      rewrite (dph0_d ft Hk _ _ _ [finP'] _ _ _ _ _ _ _ _ _ _ Hsm eq_refl ltac:(fo)).
      norm0. keep HT'. cbn [dupl]. rewrite Hh. reflexivity.
    + apos.
    + apply qz_sbusy. sbusy HT'.
  - exists s', fs, lg. split; [at_here|]. split; [exact HT'|]. split; [exact Hl|exact Hc].
Qed.

Ltac keeps H := repeat (first [rewrite (ncur_busy _ _ tid _ ltac:(sbusy H) ltac:(stid H)) | rewrite (ndone_busy _ _ _ ltac:(sbusy H))]).

(* two copies of the ACK (EOF): the first moves the sender on to WAITING_FOR_FINISHED, there the second is refused with
   PduIgnoredForSource - the one exception a duplicate provokes; nothing else changes *)
Lemma A2 : forall er nw t0 k nwd ls c1 c2 y, Wd er (T7 nw t0 k) (rEd nwd ls) false [ackE'; ackE'] c1 c2 y ->
  hit ft 1 c2 = false ->
  exists y', reach tick y y' /\
    Wd ((0, E_PDU_IGNORED_SOURCE) :: er) T8 (rWd nwd nwd 0 ls) true [finP'] c1 (c2 + 1) y'.
Proof.
  intros er nw t0 k nwd ls c1 c2 y (s & fs & lg & (rnd & dcur & sdone & ddone & -> & Hdc) & HT & Hl & Hc) Hh.
  destruct (Ld_ack nw t0 k s HT) as (s' & P & HT'). pose proof (Ld_ack_refused s' HT') as Hr.
  pose proof (Tail_drain _ _ _ HT') as HT''.
  pose proof (Ld_complete nwd ls fs lg Hl) as Hsm.
  unfold rEd. eexists. split.
  - eapply reach_step.
    + rewrite (step_round_ZG ft), sph_list,
        (da_src_ok ft Hk _ _ s s' [] _ _ _ _ _ _ _ _ _ _ _ _ ltac:(sbusy HT) P ltac:(fo)),
        (da_src_err ft _ _ s' _ _ _ _ _ _ _ _ _ _ _ _ _ ltac:(sbusy HT') Hr (Tail_queue _ _ _ HT')), da_nil. cbv beta iota.
      cbn [dupl app].
      rewrite (dph0_d ft Hk _ _ _ [finP'] _ _ _ _ _ _ _ _ _ _ Hsm eq_refl ltac:(fo)).
      norm0. keeps HT'. cbn [dupl]. rewrite Hh. reflexivity.
    + apos.
    + apply qz_sbusy. sbusy HT''.
  - exists (fst (drain_s s')), fs, lg. split; [at_here|]. split; [exact HT''|]. split; [exact Hl|exact Hc].
Qed.

Ltac at_idle := unfold atD; do 4 eexists; split; [reflexivity | let Hx := fresh "Hx" in intro Hx; discriminate Hx].

(* ---- the Finished PDU reaches the sender, its ACK reaches the receiver *)
Lemma F_n : forall er nwd td kd ls c1 c2 y, Wd er T8 (rWd nwd td kd ls) true [finP'] c1 c2 y ->
  hit ft 0 c1 = false ->
  exists y', reach tick y y' /\ Wd er T9 (rFd nwd) true [] (c1 + 1) c2 y'.
Proof.
  intros er nwd td kd ls c1 c2 y (s & fs & lg & (rnd & dcur & sdone & ddone & -> & Hdc) & HT & Hl & Hc) Hh.
  destruct (Ld_fin s HT) as (s' & P & HT').
  pose proof (Ld_ack_fin TS_ACTIVE nwd td kd ls fs (evF :: lg)) as Hsm. fold ackFG' in Hsm.
  unfold rWd.
  assert (G : dguard ackFG' (RWx nwd td kd 0 [] cks ls fs (evF :: lg)) ddone) by (apply dbusy_guard; split; reflexivity).
  eexists. split.
  - eapply reach_step.
    + rewrite (step_round_ZG ft), sph_list,
        (da_src_ok ft Hk _ _ s s' [ackFG'] _ _ _ _ _ _ _ _ _ _ _ _ ltac:(sbusy HT) P ltac:(fo)), da_nil. cbv beta iota.
      cbn [dupl app]. rewrite Hh.
      rewrite dph_list, (da_dst_ok ft Hk _ _ _ _ (RFx nwd fs (evF :: lg)) [] _ _ _ _ _ _ _ _ _ _ _ _ G Hsm eq_refl ltac:(fo)), da_nil.
      norm0. keeps HT'. reflexivity.
    + apos.
    + apply qz_sbusy. sbusy HT'.
  - exists s', fs, lg. split; [at_idle|]. split; [exact HT'|]. split; [exact Hl|exact Hc].
Qed.

(* the ACK (Finished) arrives twice: the first copy closes the transaction at the receiver, its surrounding entity
   records it as done and drops the second copy *)
Lemma F_h : forall er nwd td kd ls c1 c2 y, Wd er T8 (rWd nwd td kd ls) true [finP'] c1 c2 y ->
  hit ft 0 c1 = true ->
  exists y', reach tick y y' /\ Wd er T9 (rFd nwd) true [] (c1 + 1) c2 y'.
Proof.
  intros er nwd td kd ls c1 c2 y (s & fs & lg & (rnd & dcur & sdone & ddone & -> & Hdc) & HT & Hl & Hc) Hh.
  pose proof (Hdc eq_refl) as Hd0. subst dcur. clear Hdc.
  destruct (Ld_fin s HT) as (s' & P & HT').
  pose proof (Ld_ack_fin TS_ACTIVE nwd td kd ls fs (evF :: lg)) as Hsm. fold ackFG' in Hsm.
  unfold rWd.
  assert (G : dguard ackFG' (RWx nwd td kd 0 [] cks ls fs (evF :: lg)) ddone) by (apply dbusy_guard; split; reflexivity).
  assert (Hmem : tid_mem (h_src hRA', h_seq hRA') (ndone (d_state (RFx nwd fs (evF :: lg)) =? ST_BUSY) (Some tid) ddone) = true)
    by exact (tid_mem_hd cf ddone).
  eexists. split.
  - eapply reach_step.
    + rewrite (step_round_ZG ft), sph_list,
        (da_src_ok ft Hk _ _ s s' [ackFG'] _ _ _ _ _ _ _ _ _ _ _ _ ltac:(sbusy HT) P ltac:(fo)), da_nil. cbv beta iota.
      cbn [dupl app]. rewrite Hh.
      rewrite dph_list, (da_dst_ok ft Hk _ _ _ _ (RFx nwd fs (evF :: lg)) [] _ _ _ _ _ _ _ _ _ _ _ _ G Hsm eq_refl ltac:(fo)).
      unfold ackFG at 1. rewrite (da_dst_closed ft) by first [reflexivity | exact Hmem]. rewrite da_nil.
      norm0. keeps HT'. reflexivity.
    + apos.
    + apply qz_sbusy. sbusy HT'.
  - exists s', fs, lg. split; [at_idle|]. split; [exact HT'|]. split; [exact Hl|exact Hc].
Qed.

(* ---- the last round *)
(* the sender issues its Transaction-Finished indication; both handlers idle *)
Lemma R_done : forall er nwd c1 c2 y, Wd er T9 (rFd nwd) true [] c1 c2 y ->
  exists y' a, step_round y = (y', a) /\ quiescent y' = true /\ FinalGx er y'.
Proof.
  intros er nwd c1 c2 y (s & fs & lg & (rnd & dcur & sdone & ddone & -> & Hdc) & HT & Hl & Hc).
  destruct (step_done cs p rs cf tid Hfins s FS_RETAINED HT) as (s' & lg0 & P & Hst & Hlog & Hc0).
  pose proof (tm_idle cd (sc_src cf) (sc_seq cf) nwd fs (evF :: lg)) as Hsm.
  unfold rFd. eexists. eexists. split; [|split].
  - rewrite (step_round_ZG ft), (sph0_d ft Hk s s' [] _ _ _ _ _ _ _ _ _ P ltac:(fo)). cbv beta iota. cbn [dupl].
    rewrite (dph0_d ft Hk _ _ _ [] _ _ _ _ _ _ _ _ _ _ Hsm eq_refl ltac:(fo)). reflexivity.
  - unfold quiescent, ZG. cbn [y_src y_dst y_s2d y_d2s y_delayed dupl]. rewrite Hst. reflexivity.
  - do 12 eexists. split; [reflexivity|]. split; [exact Hlog|]. split; [exact Hc0|]. split; [exact Hc|exact Hl].
Qed.

(* the Finished PDU arrives twice: the first copy is acknowledged; the second reaches the sender after that
   ACK (Finished) was retrieved, passes the admission check and the call completes the transaction (as a call without
   a PDU would have in the next round); the one ACK (Finished) closes the transaction at the receiver *)
Lemma F2_last : forall er nwd td kd ls c1 c2 y, Wd er T8 (rWd nwd td kd ls) true [finP'; finP'] c1 c2 y ->
  hit ft 0 c1 = false ->
  exists y' a, step_round y = (y', a) /\ quiescent y' = true /\ FinalGx er y'.
Proof.
  intros er nwd td kd ls c1 c2 y (s & fs & lg & (rnd & dcur & sdone & ddone & -> & Hdc) & HT & Hl & Hc) Hh.
  destruct (Ld_fin s HT) as (s1 & P1 & HT1).
  destruct (Ld_t9_fin s1 HT1) as (s2 & lg0 & P2 & Hst & Hlog & Hc0).
  pose proof (Ld_ack_fin TS_ACTIVE nwd td kd ls fs (evF :: lg)) as Hsm. fold ackFG' in Hsm.
  unfold rWd.
  assert (G : forall dn, dguard ackFG' (RWx nwd td kd 0 [] cks ls fs (evF :: lg)) dn)
    by (intro; apply dbusy_guard; split; reflexivity).
  eexists. eexists. split; [|split].
  - rewrite (step_round_ZG ft), sph_list,
      (da_src_ok ft Hk _ _ s s1 [ackFG'] _ _ _ _ _ _ _ _ _ _ _ _ ltac:(sbusy HT) P1 ltac:(fo)),
      (da_src_ok ft Hk _ _ s1 s2 [] _ _ _ _ _ _ _ _ _ _ _ _ ltac:(sbusy HT1) P2 ltac:(fo)), da_nil. cbv beta iota.
    cbn [dupl app]. rewrite Hh. cbn [app].
    rewrite dph_list, (da_dst_ok ft Hk _ _ _ _ (RFx nwd fs (evF :: lg)) [] _ _ _ _ _ _ _ _ _ _ _ _ (G _) Hsm eq_refl ltac:(fo)), da_nil.
    reflexivity.
  - unfold quiescent, ZG. cbn [y_src y_dst y_s2d y_d2s y_delayed dupl app]. rewrite Hst. reflexivity.
  - do 12 eexists. split; [reflexivity|]. split; [exact Hlog|]. split; [exact Hc0|]. split; [exact Hc|exact Hl].
Qed.

(* after the duplicated EOF PDU: ACK (EOF), Finished PDU and the second ACK (EOF) reach the sender in one round.  The
   first makes it wait for the Finished PDU, the second is acknowledged, the third - arriving after that ACK (Finished)
   was retrieved - passes the admission check and the call completes the transaction *)
Lemma E3_last : forall er nw t0 k nwd td kd ls c1 c2 y,
  Wd er (T7 nw t0 k) (rWd nwd td kd ls) true [ackE'; finP'; ackE'] c1 c2 y -> hit ft 0 c1 = false ->
  exists y' a, step_round y = (y', a) /\ quiescent y' = true /\ FinalGx er y'.
Proof.
  intros er nw t0 k nwd td kd ls c1 c2 y (s & fs & lg & (rnd & dcur & sdone & ddone & -> & Hdc) & HT & Hl & Hc) Hh.
  destruct (Ld_ack nw t0 k s HT) as (s1 & P1 & HT1).
  destruct (Ld_fin s1 HT1) as (s2 & P2 & HT2).
  destruct (Ld_t9_ack s2 HT2) as (s3 & lg0 & P3 & Hst & Hlog & Hc0).
  pose proof (Ld_ack_fin TS_ACTIVE nwd td kd ls fs (evF :: lg)) as Hsm. fold ackFG' in Hsm.
  unfold rWd.
  assert (G : forall dn, dguard ackFG' (RWx nwd td kd 0 [] cks ls fs (evF :: lg)) dn)
    by (intro; apply dbusy_guard; split; reflexivity).
  eexists. eexists. split; [|split].
  - rewrite (step_round_ZG ft), sph_list,
      (da_src_ok ft Hk _ _ s s1 [] _ _ _ _ _ _ _ _ _ _ _ _ ltac:(sbusy HT) P1 ltac:(fo)),
      (da_src_ok ft Hk _ _ s1 s2 [ackFG'] _ _ _ _ _ _ _ _ _ _ _ _ ltac:(sbusy HT1) P2 ltac:(fo)),
      (da_src_ok ft Hk _ _ s2 s3 [] _ _ _ _ _ _ _ _ _ _ _ _ ltac:(sbusy HT2) P3 ltac:(fo)), da_nil. cbv beta iota.
    norm0. cbn [dupl app]. rewrite Hh. cbn [app].
    rewrite dph_list, (da_dst_ok ft Hk _ _ _ _ (RFx nwd fs (evF :: lg)) [] _ _ _ _ _ _ _ _ _ _ _ _ (G _) Hsm eq_refl ltac:(fo)), da_nil.
    reflexivity.
  - unfold quiescent, ZG. cbn [y_src y_dst y_s2d y_d2s y_delayed dupl app]. rewrite Hst. reflexivity.
  - do 12 eexists. split; [reflexivity|]. split; [exact Hlog|]. split; [exact Hc0|]. split; [exact Hc|exact Hl].
Qed.

(* ---- the runs *)
Lemma fin_R9 : forall er nwd c1 c2 y, Wd er T9 (rFd nwd) true [] c1 c2 y -> fin_okx er y.
Proof.
  intros er nwd c1 c2 y H. destruct (R_done _ _ _ _ _ H) as (y' & a & R & Q & F).
  exact (fin_last cd x data cf tick ft er y y' a R Q F).
Qed.

Lemma fin_F : forall er nwd td kd ls c1 c2 y, Wd er T8 (rWd nwd td kd ls) true [finP'] c1 c2 y -> fin_okx er y.
Proof.
  intros er nwd td kd ls c1 c2 y H.
  assert (M : exists y', reach tick y y' /\ Wd er T9 (rFd nwd) true [] (c1 + 1) c2 y').
  { destruct (hit ft 0 c1) eqn:Hh; [exact (F_h _ _ _ _ _ _ _ _ H Hh)|exact (F_n _ _ _ _ _ _ _ _ H Hh)]. }
  destruct M as (y1 & R1 & H1). apply (fin_reach cd x data cf tick ft er y y1 R1). exact (fin_R9 _ _ _ _ _ H1).
Qed.

(* a PDU before the EOF PDU or the ACK (Finished) is duplicated (or none): EOF, ACK (EOF), Finished, ACK (Finished) *)
Lemma path_plain : forall c1 y, SPd (zlen data) c1 y -> hit ft 0 c1 = false -> (forall c, hit ft 1 c = false) ->
  fin_okx [] y.
Proof.
  intros c1 y HS Hh Hd.
  destruct (E_nn c1 y HS Hh (Hd 0)) as (y1 & R1 & ls & nw & H1). apply (fin_reach cd x data cf tick ft [] y y1 R1).
  destruct (A_n _ _ _ _ _ _ _ _ _ H1 (Hd 1)) as (y2 & R2 & H2). apply (fin_reach cd x data cf tick ft [] y1 y2 R2).
  exact (fin_F _ _ _ _ _ _ _ _ H2).
Qed.

(* the EOF PDU is duplicated: the run is one round shorter than on a perfect link *)
Lemma path_eof : forall c1 y, SPd (zlen data) c1 y -> hit ft 0 c1 = true -> hit ft 0 (c1 + 1) = false ->
  (forall c, hit ft 1 c = false) -> fin_okx [] y.
Proof.
  intros c1 y HS Hh Hh1 Hd.
  destruct (E_h c1 y HS Hh Hd) as (y1 & R1 & ls & nw & H1). apply (fin_reach cd x data cf tick ft [] y y1 R1).
  destruct (E3_last _ _ _ _ _ _ _ _ _ _ _ H1 Hh1) as (y2 & a & R2 & Q2 & F).
  exact (fin_last cd x data cf tick ft [] y1 y2 a R2 Q2 F).
Qed.

(* the ACK (EOF) is duplicated: the second copy is refused by the sender *)
Lemma path_ackeof : forall c1 y, SPd (zlen data) c1 y -> (forall c, hit ft 0 c = false) -> hit ft 1 0 = true ->
  hit ft 1 1 = false -> fin_okx [(0, E_PDU_IGNORED_SOURCE)] y.
Proof.
  intros c1 y HS Hh Hd0 Hd1.
  destruct (E_nh c1 y HS (Hh _) Hd0) as (y1 & R1 & ls & nw & H1). apply (fin_reach cd x data cf tick ft _ y y1 R1).
  destruct (A2 _ _ _ _ _ _ _ _ _ H1 Hd1) as (y2 & R2 & H2). apply (fin_reach cd x data cf tick ft _ y1 y2 R2).
  exact (fin_F _ _ _ _ _ _ _ _ H2).
Qed.

(* the Finished PDU is duplicated *)
Lemma path_fin : forall c1 y, SPd (zlen data) c1 y -> (forall c, hit ft 0 c = false) -> hit ft 1 0 = false ->
  hit ft 1 1 = true -> fin_okx [] y.
Proof.
  intros c1 y HS Hh Hd0 Hd1.
  destruct (E_nn c1 y HS (Hh _) Hd0) as (y1 & R1 & ls & nw & H1). apply (fin_reach cd x data cf tick ft [] y y1 R1).
  destruct (A_h _ _ _ _ _ _ _ _ _ H1 Hd1) as (y2 & R2 & H2). apply (fin_reach cd x data cf tick ft [] y1 y2 R2).
  destruct (F2_last _ _ _ _ _ _ _ _ H2 (Hh _)) as (y3 & a & R3 & Q3 & F).
  exact (fin_last cd x data cf tick ft [] y2 y3 a R3 Q3 F).
Qed.

(* the exceptions the API calls raise in the run: none, except for the second copy of the ACK (EOF) *)
Definition dup_errs (f : fault) : list (Z * Z) :=
  if (ft_dir f =? 1) && (ft_index f =? 0) then [(0, E_PDU_IGNORED_SOURCE)] else [].

(* the whole run *)
Lemma main_d : forall s1 s3,
  pump s1 = (s3, Ok [PMetadata (hdr_of cf TOWARDS_RECEIVER) clo (r_cktype rs) (zlen data) (Some (sn, [x])) []]) ->
  InvAx 0 s3 ->
  ((exists i, 0 <= i <= nfd' + 2 /\ ft = mkFault 0 i 1 0) \/ ft = mkFault 1 0 1 0 \/ ft = mkFault 1 1 1 0) ->
  fin_okx (dup_errs ft) (ZG [ft] [] s1 (dst_init cd) [] [] 0 0 0 None None [] []).
Proof.
  intros s1 s3 P HI Hft.
  destruct (to_eof_d s1 s3 P HI) as (y1 & R1 & H1). apply (fin_reach cd x data cf tick ft _ _ y1 R1).
  destruct Hft as [(i & Hi & E)|[E|E]].
  - assert (Hd : forall c, hit ft 1 c = false) by (intro c; rewrite E; apply hit_d01).
    assert (Er : dup_errs ft = []) by (rewrite E; reflexivity). rewrite Er.
    destruct (Z.eq_dec i (nfd' + 1)) as [Hi1|Hne].
    + apply (path_eof _ _ H1); [rewrite E, hit_d00; apply Z.eqb_eq; exact Hi1 | rewrite E, hit_d00; apply Z.eqb_neq; lia | exact Hd].
    + apply (path_plain _ _ H1); [rewrite E, hit_d00; apply Z.eqb_neq; exact Hne | exact Hd].
  - assert (Er : dup_errs ft = [(0, E_PDU_IGNORED_SOURCE)]) by (rewrite E; reflexivity). rewrite Er.
    apply (path_ackeof _ _ H1); [intro c; rewrite E; apply hit_d10 | rewrite E; reflexivity | rewrite E; reflexivity].
  - assert (Er : dup_errs ft = []) by (rewrite E; reflexivity). rewrite Er.
    apply (path_fin _ _ H1); [intro c; rewrite E; apply hit_d10 | rewrite E; reflexivity | rewrite E; reflexivity].
Qed.
End SysD.

(* ================================================================== *)
(* 5. property C03, K = 1, duplication                                 *)
(* ================================================================== *)
(* the run ends with both handlers idle in a state the verdict accepts, and the API calls have raised exactly the
   exceptions [dup_errs ft]: none, unless the duplicated PDU is the ACK (EOF), whose second copy the sender (then waiting
   for the Finished PDU) refuses with PduIgnoredForSource.  No timer expires in such a run (every round has activity):
   neither the Positive-ACK limits nor the clock advance per idle round matter, they are not constrained. *)
Lemma single_duplicate_run :
  forall (cs cd : lcfg) (seq0 bits : Z) (p : putreq) (rs rd : rcfg) (sn dn : path) (data : bytes) (tick : Z) (ft : fault),
  let w := Z.max (l_idw cs) (pr_dstw p) in
  let large := 4294967295 <? zlen data in
  let derived := r_max_packet rs - (4 + 2 * w + bits / 8) - (if large then 8 else 4) - (if r_crc rs then 2 else 0) in
  let seg := match r_max_seg rs with Some m => Z.min m derived | None => derived end in
  let cf := mkSconf (l_id cs) w (pr_dst p) w seq0 (bits / 8) ACKED large (r_crc rs) in
  get_remote (l_remotes cs) (pr_dst p) = Some rs ->
  pr_names p = Some (sn, dn) -> sn <> [] -> dn <> [] -> pr_msgs p = None ->
  (match pr_mode p with Some m => m | None => r_mode rs end) = ACKED ->
  let n := (zlen data + seg - 1) / seg in
  ((exists i, 0 <= i <= n + 2 /\ ft = mkFault 0 i 1 0) \/ ft = mkFault 1 0 1 0 \/ ft = mkFault 1 1 1 0) ->
  0 < r_ack_ms rs -> 0 < r_ack_ms rd ->
  (bits = 8 \/ bits = 16 \/ bits = 32) -> 0 <= seq0 < 2 ^ bits -> 1 <= seg -> 6 <= derived ->
  (r_cktype rs = CK_CRC32 \/ r_cktype rs = CK_CRC32C \/ r_cktype rs = CK_NULL \/ r_cktype rs = CK_MODULAR) ->
  bytes_ok data = true ->
  l_id cd = pr_dst p -> get_remote (l_remotes cd) (l_id cs) = Some rd -> length dn = 1%nat ->
  get_fault_handler (l_faults cd) C_CHECKSUM_FAILURE <> None ->
  l_ind_fin cs = true -> l_ind_fin cd = true ->
  exists fuel y' x,
    dn = [x] /\ transfer cs cd seq0 bits p sn data [ft] fuel tick = (y', true) /\ FinalG cd x data cf ft (dup_errs ft) y'.
Proof.
  intros cs cd seq0 bits p rs rd sn dn data tick ft w large derived seg cf
         Hrs Hn Hsn Hdn Hmsgs Hmode n Hft Hacks Hackd Hbits Hseq Hseg Hd6 Hck Hbytes Hid Hrd Hlen
         Hfh Hfs Hfd.
  destruct dn as [|x [|x' dn']]; try discriminate Hlen.
  set (fss := [(sn, File data)]).
  assert (Hlook : lookup fss sn = Some (File data)).
  { destruct sn as [|a sn']; [contradiction|]. unfold fss. cbn [lookup lookup_raw].
    rewrite path_eqb_refl. reflexivity. }
  destruct (ck_agree (r_cktype rs) data seg Hck Hseg) as (cks & C1 & C2).
  set (clo := match pr_closure p with Some b => b | None => r_closure rs end).
  destruct (first_call_a cs seq0 bits fss p rs sn [x] data Hrs Hn Hlook Hmode Hbits Hseq Hseg Hd6)
    as (s1 & s3 & P1 & P2 & HI).
  rewrite Hmsgs in P2.
  assert (Hdst : sc_dst cf = l_id cd) by (symmetry; exact Hid).
  assert (Hdstr : sc_dst cf = r_id rs) by (symmetry; exact (get_remote_id _ _ _ Hrs)).
  assert (Hk : ft_kind ft = 1) by (destruct Hft as [(i & _ & E)|[E|E]]; rewrite E; reflexivity).
  destruct (main_d cs cd p rs rd sn x data cks cf seg tick clo fss ft Hn Hlook Hseg eq_refl C1 C2 Hfs Hfd Hrd Hdst
              Hacks Hackd eq_refl Hdstr Hk s1 s3 P2 HI Hft) as (fuel & y' & Rr & F).
  exists fuel, y', x. split; [reflexivity|]. split; [|exact F].
  unfold transfer, sys_init. cbn [y_src]. fold fss. rewrite P1. exact Rr.
Qed.

(* the statement of props/C03d.v: the file is delivered, and the exceptions raised by the API calls are exactly known *)
Lemma single_duplicate :
  forall (cs cd : lcfg) (seq0 bits : Z) (p : putreq) (rs rd : rcfg) (sn dn : path) (data : bytes) (tick : Z) (ft : fault),
  let w := Z.max (l_idw cs) (pr_dstw p) in
  let large := 4294967295 <? zlen data in
  let derived := r_max_packet rs - (4 + 2 * w + bits / 8) - (if large then 8 else 4) - (if r_crc rs then 2 else 0) in
  let seg := match r_max_seg rs with Some m => Z.min m derived | None => derived end in
  get_remote (l_remotes cs) (pr_dst p) = Some rs ->
  pr_names p = Some (sn, dn) -> sn <> [] -> dn <> [] -> pr_msgs p = None ->
  (match pr_mode p with Some m => m | None => r_mode rs end) = ACKED ->
  let n := (zlen data + seg - 1) / seg in
  ((exists i, 0 <= i <= n + 2 /\ ft = mkFault 0 i 1 0) \/ ft = mkFault 1 0 1 0 \/ ft = mkFault 1 1 1 0) ->
  0 < r_ack_ms rs -> 0 < r_ack_ms rd ->
  (bits = 8 \/ bits = 16 \/ bits = 32) -> 0 <= seq0 < 2 ^ bits -> 1 <= seg -> 6 <= derived ->
  (r_cktype rs = CK_CRC32 \/ r_cktype rs = CK_CRC32C \/ r_cktype rs = CK_NULL \/ r_cktype rs = CK_MODULAR) ->
  bytes_ok data = true ->
  l_id cd = pr_dst p -> get_remote (l_remotes cd) (l_id cs) = Some rd -> length dn = 1%nat ->
  get_fault_handler (l_faults cd) C_CHECKSUM_FAILURE <> None ->
  l_ind_fin cs = true -> l_ind_fin cd = true ->
  exists fuel,
    let res := transfer cs cd seq0 bits p sn data [ft] fuel tick in
    delivered_ok dn data res = true /\
    y_errs (fst res) = (if (ft_dir ft =? 1) && (ft_index ft =? 0) then [(0, E_PDU_IGNORED_SOURCE)] else []).
Proof.
  intros cs cd seq0 bits p rs rd sn dn data tick ft w large derived seg
         Hrs Hn Hsn Hdn Hmsgs Hmode n Hft Hacks Hackd Hbits Hseq Hseg Hd6 Hck Hbytes Hid Hrd Hlen
         Hfh Hfs Hfd.
  destruct (single_duplicate_run cs cd seq0 bits p rs rd sn dn data tick ft Hrs Hn Hsn Hdn Hmsgs Hmode Hft Hacks Hackd
              Hbits Hseq Hseg Hd6 Hck Hbytes Hid Hrd Hlen Hfh Hfs Hfd) as (fuel & y' & x & -> & Et & F).
  exists fuel. cbv zeta. rewrite Et.
  exact (final_verdict_g cd x data _ ft _ y' F).
Qed.

(* unless the duplicated PDU is the ACK (EOF), the run passes the verdict of the fault-free runs as well: delivery, no
   exception raised by an API call, no fault event in either log, exactly one Transaction-Finished indication on each
   side *)
Lemma single_duplicate_fault_free :
  forall (cs cd : lcfg) (seq0 bits : Z) (p : putreq) (rs rd : rcfg) (sn dn : path) (data : bytes) (tick : Z) (ft : fault),
  let w := Z.max (l_idw cs) (pr_dstw p) in
  let large := 4294967295 <? zlen data in
  let derived := r_max_packet rs - (4 + 2 * w + bits / 8) - (if large then 8 else 4) - (if r_crc rs then 2 else 0) in
  let seg := match r_max_seg rs with Some m => Z.min m derived | None => derived end in
  get_remote (l_remotes cs) (pr_dst p) = Some rs ->
  pr_names p = Some (sn, dn) -> sn <> [] -> dn <> [] -> pr_msgs p = None ->
  (match pr_mode p with Some m => m | None => r_mode rs end) = ACKED ->
  let n := (zlen data + seg - 1) / seg in
  ((exists i, 0 <= i <= n + 2 /\ ft = mkFault 0 i 1 0) \/ ft = mkFault 1 1 1 0) ->
  0 < r_ack_ms rs -> 0 < r_ack_ms rd ->
  (bits = 8 \/ bits = 16 \/ bits = 32) -> 0 <= seq0 < 2 ^ bits -> 1 <= seg -> 6 <= derived ->
  (r_cktype rs = CK_CRC32 \/ r_cktype rs = CK_CRC32C \/ r_cktype rs = CK_NULL \/ r_cktype rs = CK_MODULAR) ->
  bytes_ok data = true ->
  l_id cd = pr_dst p -> get_remote (l_remotes cd) (l_id cs) = Some rd -> length dn = 1%nat ->
  get_fault_handler (l_faults cd) C_CHECKSUM_FAILURE <> None ->
  l_ind_fin cs = true -> l_ind_fin cd = true ->
  exists fuel,
    let res := transfer cs cd seq0 bits p sn data [ft] fuel tick in
    fault_free_ok dn data res = true.
Proof.
  intros cs cd seq0 bits p rs rd sn dn data tick ft w large derived seg
         Hrs Hn Hsn Hdn Hmsgs Hmode n Hft Hacks Hackd Hbits Hseq Hseg Hd6 Hck Hbytes Hid Hrd Hlen
         Hfh Hfs Hfd.
  assert (Hft' : (exists i, 0 <= i <= n + 2 /\ ft = mkFault 0 i 1 0) \/ ft = mkFault 1 0 1 0 \/ ft = mkFault 1 1 1 0)
    by (destruct Hft as [H|H]; [left; exact H|right; right; exact H]).
  destruct (single_duplicate_run cs cd seq0 bits p rs rd sn dn data tick ft Hrs Hn Hsn Hdn Hmsgs Hmode Hft' Hacks Hackd
              Hbits Hseq Hseg Hd6 Hck Hbytes Hid Hrd Hlen Hfh Hfs Hfd) as (fuel & y' & x & -> & Et & F).
  assert (Er : dup_errs ft = []) by (destruct Hft as [(i & _ & E)|E]; rewrite E; reflexivity).
  rewrite Er in F.
  exists fuel. cbv zeta. rewrite Et.
  exact (final_fault_free_g cd x data _ ft y' F).
Qed.

(* ================================================================== *)
(* 6. instances                                                        *)
(* ================================================================== *)
(* a file of 7 bytes in segments of 3 (Metadata, 3 File Data PDUs, EOF, ACK (Finished) / ACK (EOF), Finished), all limits
   1, every PDU duplicated in turn: the verdicts, the one exception, and the clocks that never advance *)
Example duplicate_examples :
  let run d i := run_case ACKED false CK_CRC32 3 false 1 7 [mkFault d i 1 0] in
  forallb (fun i => fault_free_ok [2] (test_data 7) (run 0 (Z.of_nat i))) (seq 0 6) = true /\
  fault_free_ok [2] (test_data 7) (run 1 1) = true /\
  delivered_ok [2] (test_data 7) (run 1 0) = true /\
  y_errs (fst (run 1 0)) = [(0, E_PDU_IGNORED_SOURCE)] /\
  map (fun i => y_round (fst (run 0 (Z.of_nat i)))) (seq 0 6) = [8; 8; 8; 8; 6; 8] /\
  y_round (fst (run 1 0)) = 8 /\ y_round (fst (run 1 1)) = 7 /\
  forallb (fun di => let y := fst (run (fst di) (snd di)) in
                     (e_now (s_env (y_src y)) =? 0) && (e_now (d_env (y_dst y)) =? 0))
          [(0, 0); (0, 1); (0, 2); (0, 3); (0, 4); (0, 5); (1, 0); (1, 1)] = true.
Proof. vm_compute. repeat split; reflexivity. Qed.

(* the hypotheses of the theorem are satisfiable: the configuration above, duplicated ACK (EOF) *)
Example single_duplicate_instance :
  let rs := rc 2 (Some 3) false ACKED CK_CRC32 1 false in
  let rd := rc 1 (Some 3) false ACKED CK_CRC32 1 false in
  exists fuel,
    let res := transfer (lc 1 rs) (lc 2 rd) 0 16 (mkPut 2 2 None None (Some ([1], [2])) None) [1] (test_data 7)
                 [mkFault 1 0 1 0] fuel 0 in
    delivered_ok [2] (test_data 7) res = true /\ y_errs (fst res) = [(0, E_PDU_IGNORED_SOURCE)].
Proof.
  intros rs rd.
  apply (single_duplicate (lc 1 rs) (lc 2 rd) 0 16 (mkPut 2 2 None None (Some ([1], [2])) None) rs rd [1] [2] (test_data 7) 0
           (mkFault 1 0 1 0));
    try reflexivity; try discriminate; try (vm_compute; discriminate); try (vm_compute; reflexivity).
  - right; left; reflexivity.
  - right; left; reflexivity.
  - split; [discriminate | reflexivity].
  - left; reflexivity.
Qed.
