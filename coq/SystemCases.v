(* SystemCases.v — the finite spaces over which the kernel-checked instances of C02 / C03 are evaluated. *)
From CFDP Require Import Base LostSeg Fs Checksum Handler Dest Source SourceSpec System.
From CFDP.gen Require Import Tables.

Definition test_data (size : Z) : bytes := map (fun i => (7 * Z.of_nat i + 3) mod 256) (seq 0 (Z.to_nat size)).

(* entity 1 sends to entity 2; 16-bit ids and sequence numbers; intervals 1000 ms; default fault table (as generated) *)
Definition rc (id : Z) (seg : option Z) (closure : bool) (mode ck lim : Z) (imm : bool) : rcfg :=
  mkRcfg id 2 seg 64 closure false mode ck 1000 lim lim false imm 1000 lim.
Definition lc (id : Z) (r : rcfg) : lcfg := mkLcfg id 2 true true true true default_fault_table 1000 [r].

Definition run_case (mode : Z) (closure : bool) (ck : Z) (seg : Z) (imm : bool) (lim : Z) (size : Z) (faults : list fault)
  : sys * bool :=
  transfer (lc 1 (rc 2 (Some seg) closure mode ck lim imm)) (lc 2 (rc 1 (Some seg) closure mode ck lim imm))
           0 16 (mkPut 2 2 None None (Some ([1], [2])) None) [1] (test_data size) faults 300 1000.

Definition c02_point (mode : Z) (closure : bool) (ck seg : Z) (imm : bool) (size : Z) : bool :=
  fault_free_ok [2] (test_data size) (run_case mode closure ck seg imm 2 size []).
Definition c02_case (c : Z * (bool * (Z * (Z * (bool * Z))))) : bool :=
  let '(mode, (closure, (ck, (seg, (imm, size))))) := c in c02_point mode closure ck seg imm size.

Definition c02_space : list (Z * (bool * (Z * (Z * (bool * Z))))) :=
  list_prod [ACKED; UNACKED] (list_prod [false; true] (list_prod [CK_MODULAR; CK_CRC32C; CK_CRC32; CK_NULL]
    (list_prod [1; 2; 4; 64] (list_prod [false; true] [0; 1; 2; 3; 4; 5; 7; 8; 9])))).

(* link faults: direction x index x kind (drop / duplicate / delay by 2 rounds) *)
Definition fault_space (nidx : nat) : list fault :=
  flat_map (fun d => flat_map (fun i => map (fun k => mkFault d (Z.of_nat i) k 2) [0; 1; 2]) (seq 0 nidx)) [0; 1].

Definition c03_case (closure imm : bool) (size : Z) (K : Z) (faults : list fault) : bool :=
  delivered_ok [2] (test_data size) (run_case ACKED closure CK_CRC32 4 imm (K + 3) size faults).

Fixpoint pairs {A} (l : list A) : list (A * A) :=
  match l with [] => [] | x :: t => map (fun y => (x, y)) t ++ pairs t end.

Fixpoint triples {A} (l : list A) : list (A * A * A) :=
  match l with [] => [] | x :: t => map (fun yz => (x, fst yz, snd yz)) (pairs t) ++ triples t end.
