(* Base.v — shared vocabulary of the cfdp-py model.
   Python ints are Z.  Exceptions are data.  No proofs in model files. *)
From Coq Require Export ZArith List Bool Lia.
Export ListNotations.
Open Scope Z_scope.

(* Result of a Python call that may raise.  [Err e] carries an exception tag. *)
Inductive res (E A : Type) : Type :=
| Ok  : A -> res E A
| Err : E -> res E A.
Arguments Ok {E A} _.
Arguments Err {E A} _.

(* byte strings *)
Definition bytes := list Z.
Definition byte_ok (b : Z) : bool := (0 <=? b) && (b <? 256).
Definition bytes_ok (l : bytes) : bool := forallb byte_ok l.

Definition zlen {A} (l : list A) : Z := Z.of_nat (length l).

(* Python slicing on lists with Z indices (only used with 0 <= a) *)
Definition ztake {A} (n : Z) (l : list A) : list A := firstn (Z.to_nat n) l.
Definition zdrop {A} (n : Z) (l : list A) : list A := skipn (Z.to_nat n) l.

Fixpoint zrepeat {A} (x : A) (n : nat) : list A :=
  match n with O => [] | S k => x :: zrepeat x k end.
