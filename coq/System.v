(* System.v — two CFDP entities (a SourceHandler and a DestHandler, each with the documented
   surrounding-entity duties of DESIGN.md 3.5), two link directions with a fault schedule, one clock.
   Mirrors harness/transfer.py::Runner round for round, so that whole transfers can be evaluated inside
   Coq (kernel-checked exhaustive instances of C02 / C03) and compared with the implementation. *)
From CFDP Require Import Base LostSeg Fs Checksum Handler Dest Source SourceSpec.
From RecordUpdate Require Import RecordSet.
Import RecordSetNotations.

(* a link fault: direction (0 = source->dest, 1 = dest->source), index of the PDU on that direction,
   kind (0 drop, 1 duplicate, 2 delay), argument (delay in rounds) *)
Record fault := mkFault { ft_dir : Z; ft_index : Z; ft_kind : Z; ft_arg : Z }.

Record sys := mkSys {
  y_src : src; y_dst : dst;
  y_s2d : list pdu; y_d2s : list pdu;
  y_cnt_s2d : Z; y_cnt_d2s : Z;
  y_delayed : list (Z * Z * pdu);                 (* release round, direction, pdu *)
  y_round : Z;
  y_src_cur : option (Z * Z); y_dst_cur : option (Z * Z);
  y_src_done : list (Z * Z); y_dst_done : list (Z * Z);
  y_errs : list (Z * Z);                           (* (0 source | 1 dest, exception code) of every raising API call *)
  y_faults : list fault }.
#[export] Instance eta_sys : Settable _ := settable! mkSys
  <y_src; y_dst; y_s2d; y_d2s; y_cnt_s2d; y_cnt_d2s; y_delayed; y_round; y_src_cur; y_dst_cur; y_src_done; y_dst_done;
   y_errs; y_faults>.

Definition tid_eqb (a b : Z * Z) : bool := (fst a =? fst b) && (snd a =? snd b).
Definition tid_mem (t : Z * Z) (l : list (Z * Z)) : bool := existsb (tid_eqb t) l.

(* what survives packing and parsing: spacepackets cannot parse File Data without data (no CRC) nor a Finished PDU
   that counts a fault location it does not pack *)
Definition on_wire (p : pdu) : option pdu :=
  match p with
  | PFileData h _ [] => if h_crc h then Some p else None
  | PFinished h c d f (Some fl) => if (c =? C_NO_ERROR) || (c =? C_UNSUPPORTED_CHECKSUM) then None else Some p
  | _ => Some p
  end.

Fixpoint find_fault (l : list fault) (dir idx : Z) : option fault :=
  match l with
  | [] => None
  | f :: t => if (ft_dir f =? dir) && (ft_index f =? idx) then Some f else find_fault t dir idx
  end.

Definition link_push (dir : Z) (ps : list pdu) (y : sys) : sys :=
  if dir =? 0 then y <| y_s2d ::= (fun q => q ++ ps) |> else y <| y_d2s ::= (fun q => q ++ ps) |>.

(* Runner.emit *)
Fixpoint emit_pdus (dir : Z) (ps : list pdu) (y : sys) : sys :=
  match ps with
  | [] => y
  | p :: t =>
      let i := if dir =? 0 then y_cnt_s2d y else y_cnt_d2s y in
      let y1 := if dir =? 0 then y <| y_cnt_s2d := i + 1 |> else y <| y_cnt_d2s := i + 1 |> in
      let y2 :=
        match find_fault (y_faults y) dir i with
        | None => link_push dir [p] y1
        | Some f =>
            if ft_kind f =? 0 then y1
            else if ft_kind f =? 1 then link_push dir [p; p] y1
            else y1 <| y_delayed ::= (fun d => d ++ [(y_round y + ft_arg f, dir, p)]) |>
        end in
      emit_pdus dir t y2
  end.

Definition release_delayed (y : sys) : sys :=
  fold_left (fun y e => let '(r, d, p) := e in
                        if r <=? y_round y then link_push d [p] y
                        else y <| y_delayed ::= (fun l => l ++ [e]) |>)
            (y_delayed y) (y <| y_delayed := [] |>).

Definition drain_d (s : dst) : dst * list pdu :=
  (s <| d_queue := [] |> <| d_ready := d_ready s - zlen (d_queue s) |>, d_queue s).

(* _note_done *)
Definition note_done_src (y : sys) : sys :=
  let s := y_src y in
  if (s_state s =? ST_BUSY) then
    match q_tid (s_p s) with Some t => y <| y_src_cur := Some t |> | None => y end
  else match y_src_cur y with
       | Some t => y <| y_src_done ::= cons t |> <| y_src_cur := None |>
       | None => y end.
Definition note_done_dst (y : sys) : sys :=
  let s := y_dst y in
  if (d_state s =? ST_BUSY) then
    match p_tid (d_p s) with Some t => y <| y_dst_cur := Some t |> | None => y end
  else match y_dst_cur y with
       | Some t => y <| y_dst_done ::= cons t |> <| y_dst_cur := None |>
       | None => y end.

(* one API call on a handler + retrieval of everything it queued; returns the number of PDUs retrieved *)
Definition call_src (pkt : option pdu) (y : sys) : sys * Z :=
  let '(s1, r) := state_machine_s pkt (y_src y) in
  let y1 := match r with Ok _ => y | Err e => y <| y_errs ::= cons (0, e) |> end in
  let y2 := note_done_src (y1 <| y_src := s1 |>) in
  let '(s2, ps) := drain_s (y_src y2) in
  (emit_pdus 0 (flat_map (fun p => match on_wire p with Some q => [q] | None => [] end) ps) (y2 <| y_src := s2 |>), zlen ps).
Definition call_dst (pkt : option pdu) (y : sys) : sys * Z :=
  let '(s1, r) := Dest.state_machine pkt (y_dst y) in
  let y1 := match r with Ok _ => y | Err e => y <| y_errs ::= cons (1, e) |> end in
  let y2 := note_done_dst (y1 <| y_dst := s1 |>) in
  let '(s2, ps) := drain_d (y_dst y2) in
  (emit_pdus 1 (flat_map (fun p => match on_wire p with Some q => [q] | None => [] end) ps) (y2 <| y_dst := s2 |>), zlen ps).

(* deliver_to_dest / deliver_to_source with the duties of the surrounding entity *)
Definition deliver_to_dest (p : pdu) (y : sys) : sys * Z :=
  let h := pdu_hdr p in
  let tid := (h_src h, h_seq h) in
  let d := y_dst y in
  if (d_state d =? ST_IDLE) && tid_mem tid (y_dst_done y) then
    match p with
    | PEof h c _ _ _ =>
        match acknowledge_inactive_eof_pdu h c TS_TERMINATED with
        | Some a => (emit_pdus 1 [a] y, 0)
        | None => (y, 0)
        end
    | _ => (y, 0)
    end
  else if (d_state d =? ST_BUSY) &&
          match p_tid (d_p d) with Some t => negb (tid_eqb tid t) | None => false end then (y, 0)
  else call_dst (Some p) y.

Definition deliver_to_source (p : pdu) (y : sys) : sys * Z :=
  let h := pdu_hdr p in
  let tid := (h_src h, h_seq h) in
  let s := y_src y in
  if s_state s =? ST_IDLE then
    match p with
    | PFinished h c _ _ _ =>
        if tid_mem tid (y_src_done y)
        then (emit_pdus 0 [PAck (set_dir TOWARDS_RECEIVER h) D_FINISHED c TS_TERMINATED] y, 0)
        else (y, 0)
    | _ => (y, 0)
    end
  else call_src (Some p) y.

Fixpoint deliver_all (f : pdu -> sys -> sys * Z) (ps : list pdu) (y : sys) (act : Z) : sys * Z :=
  match ps with
  | [] => (y, act)
  | p :: t => let '(y1, n) := f p y in deliver_all f t y1 (act + 1 + n)
  end.

(* Runner.step_round (extra_sm = 0) *)
Definition step_round (y0 : sys) : sys * Z :=
  let y := release_delayed (y0 <| y_round ::= (fun r => r + 1) |>) in
  let inbound := y_d2s y in
  let '(y1, a1) := deliver_all deliver_to_source inbound (y <| y_d2s := [] |>) 0 in
  let '(y2, a2) :=
    match inbound with
    | [] => let before := (s_state (y_src y1), s_step (y_src y1)) in
            let '(yy, n) := call_src None y1 in
            (yy, a1 + n + (if (fst before =? s_state (y_src yy)) && (snd before =? s_step (y_src yy)) then 0 else 1))
    | _ => (y1, a1)
    end in
  let inbound2 := y_s2d y2 in
  let '(y3, a3) := deliver_all deliver_to_dest inbound2 (y2 <| y_s2d := [] |>) a2 in
  match inbound2 with
  | [] => let before := (d_state (y_dst y3), d_step (y_dst y3)) in
          let '(yy, n) := call_dst None y3 in
          (yy, a3 + n + (if (fst before =? d_state (y_dst yy)) && (snd before =? d_step (y_dst yy)) then 0 else 1))
  | _ => (y3, a3)
  end.

Definition quiescent (y : sys) : bool :=
  (s_state (y_src y) =? ST_IDLE) && (d_state (y_dst y) =? ST_IDLE) &&
  match y_s2d y, y_d2s y, y_delayed y with [], [], [] => true | _, _, _ => false end.

Definition advance (ms : Z) (y : sys) : sys :=
  y <| y_src ::= (fun s => s <| s_env ::= (fun e => e <| e_now ::= Z.add ms |>) |>) |>
    <| y_dst ::= (fun s => s <| d_env ::= (fun e => e <| e_now ::= Z.add ms |>) |>) |>.

(* Runner.run: at most [fuel] rounds; a round without activity advances the clock by [tick] *)
Fixpoint run (fuel : nat) (tick : Z) (y : sys) : sys * bool :=
  match fuel with
  | O => (y, quiescent y)
  | S k =>
      let '(y1, a) := step_round y in
      if quiescent y1 then (y1, true)
      else run k tick (if a =? 0 then advance tick y1 else y1)
  end.

(* a fresh two-entity system: source file [data] at [sn] in the sender's filestore *)
Definition sys_init (cs cd : lcfg) (seq0 bits : Z) (sn : path) (data : bytes) (faults : list fault) : sys :=
  (* a later fault for the same (direction, index) overrides an earlier one *)
  mkSys (src_fresh cs seq0 bits [(sn, File data)]) (dst_init cd) [] [] 0 0 [] 0 None None [] [] [] (rev faults).

(* outcome of a transfer *)
Definition success_event (e : event) : bool :=
  match e with EvFinished _ _ c d _ _ => (c =? C_NO_ERROR) && (d =? DATA_COMPLETE) | _ => false end.
Definition fault_event (e : event) : bool := match e with EvFault _ _ _ _ _ => true | _ => false end.

Definition transfer (cs cd : lcfg) (seq0 bits : Z) (p : putreq) (sn : path) (data : bytes) (faults : list fault)
           (fuel : nat) (tick : Z) : sys * bool :=
  let y0 := sys_init cs cd seq0 bits sn data faults in
  let '(s1, r) := put_request p (y_src y0) in
  run fuel tick (y0 <| y_src := s1 |>).

(* every claim of C02 / C03 about one finished run *)
Definition delivered_ok (dn : path) (data : bytes) (res : sys * bool) : bool :=
  let '(y, q) := res in
  q && match file_content (e_fs (d_env (y_dst y))) dn with Some d => bytes_eqb d data | None => false end
    && (1 =? zlen (filter success_event (e_log (s_env (y_src y)))))
    && (1 <=? zlen (filter success_event (e_log (d_env (y_dst y)))))
    && success_event (hd (EvEofSent 0 0) (e_log (d_env (y_dst y)))).
Definition fault_free_ok (dn : path) (data : bytes) (res : sys * bool) : bool :=
  delivered_ok dn data res &&
  let y := fst res in
  match y_errs y with [] => true | _ => false end &&
  negb (existsb fault_event (e_log (s_env (y_src y)))) && negb (existsb fault_event (e_log (d_env (y_dst y)))) &&
  (1 =? zlen (filter success_event (e_log (d_env (y_dst y))))).
