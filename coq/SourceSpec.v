(* SourceSpec.v — vocabulary for the sender-side properties C07 / C08 / C04:
   pumping the state machine, tilings of a byte range, the PDU header of a transaction. *)
From CFDP Require Import Base Fs Handler Dest Source.
From RecordUpdate Require Import RecordSet.
Import RecordSetNotations.

(* retrieve every queued PDU (repeated get_next_packet until None) *)
Definition drain_s (s : src) : src * list pdu :=
  (s <| s_queue := [] |> <| s_ready := s_ready s - zlen (s_queue s) |>, s_queue s).

(* one state_machine(packet) call followed by retrieving every PDU *)
Definition pump_with (pkt : option pdu) (s : src) : src * res Z (list pdu) :=
  match state_machine_s pkt s with
  | (s', Ok _) => let '(s'', ps) := drain_s s' in (s'', Ok ps)
  | (s', Err e) => (s', Err e)
  end.
Definition pump := pump_with None.

(* n calls without inbound PDUs; the output of each call separately *)
Fixpoint pumps (n : nat) (s : src) : src * res Z (list (list pdu)) :=
  match n with
  | O => (s, Ok [])
  | S k => match pump s with
           | (s', Ok ps) => match pumps k s' with
                            | (s'', Ok rest) => (s'', Ok (ps :: rest))
                            | (s'', Err e) => (s'', Err e)
                            end
           | (s', Err e) => (s', Err e)
           end
  end.

(* ascending exact tiling of [d] in units of [seg], offsets counted from [off]; none empty *)
Fixpoint tiles_from (fuel : nat) (off seg : Z) (d : bytes) : list (Z * bytes) :=
  match fuel with
  | O => []
  | S k => match d with
           | [] => []
           | _ => (off, ztake seg d) :: tiles_from k (off + seg) seg (zdrop seg d)
           end
  end.
Definition tiles (seg : Z) (d : bytes) : list (Z * bytes) := tiles_from (length d) 0 seg d.
(* the tiling of the byte range [a, b) of a file *)
Definition range_tiles (d : bytes) (a b seg : Z) : list (Z * bytes) :=
  tiles_from (Z.to_nat (b - a)) a seg (ztake (b - a) (zdrop a d)).

Definition fd_of (h : hdr) (t : Z * bytes) : pdu := PFileData h (fst t) (snd t).

(* a freshly constructed source handler whose filestore holds [fs] *)
Definition src_fresh (c : lcfg) (seq0 bits : Z) (fs : tree) : src :=
  (src_init c seq0 bits) <| s_env ::= (fun e => e <| e_fs := fs |>) |>.
