(* LostSegSpec.v — the abstract reading of property C18: the tracker denotes a
   set of bytes; well-formed trackers are ascending, non-empty and disjoint. *)
From CFDP Require Import Base LostSeg.

Definition den (l : tracker) (x : Z) : Prop :=
  exists s e, In (s, e) l /\ s <= x < e.

(* ascending by start, no empty range, consecutive ranges do not overlap *)
Inductive Inv : tracker -> Prop :=
| Inv_nil : Inv []
| Inv_one : forall s e, s < e -> Inv [(s, e)]
| Inv_cons : forall s e s' e' t,
    s < e -> e <= s' -> Inv ((s', e') :: t) -> Inv ((s, e) :: (s', e') :: t).

(* as Inv, and additionally no two consecutive ranges are adjacent *)
Inductive InvGap : tracker -> Prop :=
| InvGap_nil : InvGap []
| InvGap_one : forall s e, s < e -> InvGap [(s, e)]
| InvGap_cons : forall s e s' e' t,
    s < e -> e < s' -> InvGap ((s', e') :: t) -> InvGap ((s, e) :: (s', e') :: t).

(* the preconditions the property states for each operation *)
Definition op_pre (l : tracker) (o : lop) : Prop :=
  match o with
  | OAdd s e => s < e /\ (forall x, s <= x < e -> ~ den l x)
  | ORemove s e =>
      s <= e /\
      ((exists a b, In (a, b) l /\ a <= s /\ e <= b) \/
       (forall x, s <= x < e -> ~ den l x))
  | OCoalesce => True
  | OReset => True
  end.

(* the obvious specification on sets of bytes *)
Definition spec_step (S : Z -> Prop) (o : lop) : Z -> Prop :=
  match o with
  | OAdd s e => fun x => S x \/ s <= x < e
  | ORemove s e => fun x => S x /\ ~ (s <= x < e)
  | OCoalesce => S
  | OReset => fun _ => False
  end.

Fixpoint run (l : tracker) (ops : list lop) : tracker :=
  match ops with [] => l | o :: t => run (fst (lstep l o)) t end.

Fixpoint spec_run (S : Z -> Prop) (ops : list lop) : Z -> Prop :=
  match ops with [] => S | o :: t => spec_run (spec_step S o) t end.

Fixpoint run_pre (l : tracker) (ops : list lop) : Prop :=
  match ops with
  | [] => True
  | o :: t => op_pre l o /\ run_pre (fst (lstep l o)) t
  end.
