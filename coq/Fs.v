(* Fs.v — reference model of filestore.py::NativeFilestore (filestore.py:180-331)
   on a POSIX file system, as used by property C17 and by the handler models.
   A path is a list of component ids relative to the sandbox root ([] = root).
   The tree is an association list path -> node; the root directory is implicit. *)
From CFDP Require Import Base.

Definition path := list Z.
Inductive node := File (data : bytes) | Dir.
Definition tree := list (path * node).

Fixpoint path_eqb (a b : path) : bool :=
  match a, b with
  | [], [] => true
  | x :: a', y :: b' => (x =? y) && path_eqb a' b'
  | _, _ => false
  end.

Fixpoint is_prefix (a b : path) : bool :=     (* a is a (non-strict) prefix of b *)
  match a, b with
  | [], _ => true
  | x :: a', y :: b' => (x =? y) && is_prefix a' b'
  | _ :: _, [] => false
  end.

Fixpoint lookup_raw (t : tree) (p : path) : option node :=
  match t with
  | [] => None
  | (q, n) :: t' => if path_eqb q p then Some n else lookup_raw t' p
  end.
Definition lookup (t : tree) (p : path) : option node :=
  match p with [] => Some Dir | _ => lookup_raw t p end.

Fixpoint remove_path (t : tree) (p : path) : tree :=
  match t with
  | [] => []
  | (q, n) :: t' => if path_eqb q p then remove_path t' p else (q, n) :: remove_path t' p
  end.
Fixpoint remove_subtree (t : tree) (p : path) : tree :=
  match t with
  | [] => []
  | (q, n) :: t' => if is_prefix p q then remove_subtree t' p else (q, n) :: remove_subtree t' p
  end.
Definition set_node (t : tree) (p : path) (n : node) : tree := (p, n) :: remove_path t p.

Definition parent (p : path) : path := removelast p.
Definition exists_ (t : tree) (p : path) : bool :=
  match lookup t p with Some _ => true | None => false end.
Definition is_dir (t : tree) (p : path) : bool :=
  match lookup t p with Some Dir => true | _ => false end.
Definition parent_is_dir (t : tree) (p : path) : bool :=
  match p with [] => false | _ => is_dir t (parent p) end.
Fixpoint has_child (t : tree) (p : path) : bool :=
  match t with
  | [] => false
  | (q, _) :: t' => (is_prefix p q && negb (path_eqb p q)) || has_child t' p
  end.

(* FilestoreResponseStatusCode values (spacepackets.cfdp.tlv) *)
Definition CREATE_SUCCESS : Z := 0.            (* 0b0000_0000 *)
Definition CREATE_NOT_ALLOWED : Z := 1.
Definition DELETE_SUCCESS : Z := 16.
Definition DELETE_FILE_DOES_NOT_EXIST : Z := 17.
Definition DELETE_NOT_ALLOWED : Z := 31.
Definition RENAME_SUCCESS : Z := 32.
Definition RENAME_OLD_FILE_DOES_NOT_EXIST : Z := 33.
Definition RENAME_NEW_FILE_DOES_EXIST : Z := 34.
Definition RENAME_NOT_ALLOWED : Z := 35.
Definition RENAME_NOT_PERFORMED : Z := 47.
Definition REPLACE_SUCCESS : Z := 64.
Definition REPLACE_ONE_DOES_NOT_EXIST : Z := 65.
Definition REPLACE_TWO_DOES_NOT_EXIST : Z := 66.
Definition REPLACE_NOT_ALLOWED : Z := 67.
Definition CREATE_DIR_SUCCESS : Z := 80.
Definition CREATE_DIR_CAN_NOT_BE_CREATED : Z := 81.
Definition REMOVE_DIR_SUCCESS : Z := 96.
Definition REMOVE_DIR_DOES_NOT_EXIST : Z := 97.
Definition REMOVE_DIR_NOT_ALLOWED : Z := 98.

(* OS errors that escape the native filestore *)
Inductive oserr := FileNotFoundError | IsADirectoryError | NotADirectoryError | PermissionError.

(* bytes written at an offset: zero fill between the old end and the offset *)
Definition write_at (old : bytes) (off : Z) (d : bytes) : bytes :=
  match d with
  | [] => old
  | _ =>
    let n := Z.to_nat off in
    firstn n old ++ zrepeat 0 (n - length old) ++ d ++ skipn (n + length d) old
  end.

Definition fs_file_exists (t : tree) (p : path) : bool := exists_ t p.
Definition fs_is_directory (t : tree) (p : path) : bool := is_dir t p.

Definition fs_create_file (t : tree) (p : path) : tree * Z :=
  if exists_ t p then (t, CREATE_NOT_ALLOWED)
  else if parent_is_dir t p then (set_node t p (File []), CREATE_SUCCESS)
  else (t, CREATE_NOT_ALLOWED).

Definition fs_delete_file (t : tree) (p : path) : tree * Z :=
  match lookup t p with
  | None => (t, DELETE_FILE_DOES_NOT_EXIST)
  | Some Dir => (t, DELETE_NOT_ALLOWED)
  | Some (File _) => (remove_path t p, DELETE_SUCCESS)
  end.

Definition fs_rename_file (t : tree) (o n : path) : res oserr (tree * Z) :=
  if is_dir t o || is_dir t n then Ok (t, RENAME_NOT_PERFORMED)
  else match lookup t o with
  | None => Ok (t, RENAME_OLD_FILE_DOES_NOT_EXIST)
  | Some nd =>
      if exists_ t n then Ok (t, RENAME_NEW_FILE_DOES_EXIST)
      else if parent_is_dir t n then Ok (set_node (remove_path t o) n nd, RENAME_SUCCESS)
      else Err FileNotFoundError   (* ENOENT or ENOTDIR: the harness does not distinguish the two *)
  end.

Definition fs_replace_file (t : tree) (replaced src : path) : tree * Z :=
  if is_dir t replaced || is_dir t src then (t, REPLACE_NOT_ALLOWED)
  else match lookup t replaced, lookup t src with
  | None, _ => (t, REPLACE_ONE_DOES_NOT_EXIST)
  | Some _, None => (t, REPLACE_TWO_DOES_NOT_EXIST)
  | Some _, Some nd =>
      if path_eqb replaced src then (t, REPLACE_SUCCESS)
      else (set_node (remove_path t src) replaced nd, REPLACE_SUCCESS)
  end.

Definition fs_create_directory (t : tree) (p : path) : res oserr (tree * Z) :=
  if exists_ t p then Ok (t, CREATE_DIR_CAN_NOT_BE_CREATED)
  else if parent_is_dir t p then Ok (set_node t p Dir, CREATE_DIR_SUCCESS)
  else Err FileNotFoundError.      (* ENOENT or ENOTDIR *)

(* remove_directory after the F13 repair: a non-empty directory removed
   non-recursively is refused with REMOVE_DIR_NOT_ALLOWED *)
Definition fs_remove_directory (t : tree) (p : path) (recursive : bool) : tree * Z :=
  match p with [] => (t, REMOVE_DIR_NOT_ALLOWED) | _ =>    (* the sandbox root is outside the universe *)
  match lookup t p with
  | None => (t, REMOVE_DIR_DOES_NOT_EXIST)
  | Some (File _) => (t, REMOVE_DIR_NOT_ALLOWED)
  | Some Dir =>
      if recursive then (remove_subtree t p, REMOVE_DIR_SUCCESS)
      else if has_child t p then (t, REMOVE_DIR_NOT_ALLOWED)
      else (remove_path t p, REMOVE_DIR_SUCCESS)
  end end.

Definition fs_truncate_file (t : tree) (p : path) : res oserr tree :=
  match lookup t p with
  | None => Err FileNotFoundError
  | Some Dir => Err IsADirectoryError
  | Some (File _) => Ok (set_node t p (File []))
  end.

Definition fs_write_data (t : tree) (p : path) (d : bytes) (off : Z) : res oserr tree :=
  match lookup t p with
  | None => Err FileNotFoundError
  | Some Dir => Err IsADirectoryError
  | Some (File old) => Ok (set_node t p (File (write_at old off d)))
  end.

Definition fs_read_data (t : tree) (p : path) (off len : Z) : res oserr bytes :=
  match lookup t p with
  | None => Err FileNotFoundError
  | Some Dir => Err IsADirectoryError
  | Some (File d) => Ok (ztake len (zdrop off d))
  end.

Definition fs_file_size (t : tree) (p : path) : res oserr Z :=
  match lookup t p with
  | None => Err FileNotFoundError
  | Some Dir => Ok (-1)                 (* size of a directory: unspecified, never compared *)
  | Some (File d) => Ok (zlen d)
  end.

Definition file_content (t : tree) (p : path) : option bytes :=
  match lookup t p with Some (File d) => Some d | _ => None end.
