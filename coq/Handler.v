(* Handler.v — vocabulary shared by the models of both CFDP handlers:
   abstract PDUs, configuration records, timers, exceptions as data, the
   state-and-exception monad (state survives a raise, as in Python), events. *)
From CFDP Require Import Base LostSeg Fs.

(* ------------------------------------------------------------------ enums *)
(* Direction *)          Definition TOWARDS_RECEIVER : Z := 0. Definition TOWARDS_SENDER : Z := 1.
(* TransmissionMode *)   Definition ACKED : Z := 0.            Definition UNACKED : Z := 1.
(* CfdpState *)          Definition ST_IDLE : Z := 0.          Definition ST_BUSY : Z := 1.
(* DirectiveType *)
Definition D_EOF : Z := 4.  Definition D_FINISHED : Z := 5. Definition D_ACK : Z := 6.
Definition D_METADATA : Z := 7. Definition D_NAK : Z := 8. Definition D_PROMPT : Z := 9.
Definition D_KEEP_ALIVE : Z := 12.
(* ConditionCode *)
Definition C_NO_ERROR : Z := 0. Definition C_POS_ACK_LIMIT : Z := 1. Definition C_KEEP_ALIVE_LIMIT : Z := 2.
Definition C_INVALID_MODE : Z := 3. Definition C_FILESTORE_REJECTION : Z := 4.
Definition C_CHECKSUM_FAILURE : Z := 5. Definition C_FILE_SIZE_ERROR : Z := 6.
Definition C_NAK_LIMIT : Z := 7. Definition C_INACTIVITY : Z := 8. Definition C_CHECK_LIMIT : Z := 10.
Definition C_UNSUPPORTED_CHECKSUM : Z := 11. Definition C_CANCEL_REQUEST : Z := 15.
(* FaultHandlerCode *)
Definition FH_CANCEL : Z := 1. Definition FH_SUSPEND : Z := 2. Definition FH_IGNORE : Z := 3. Definition FH_ABANDON : Z := 4.
(* DeliveryCode / FileStatus / TransactionStatus *)
Definition DATA_COMPLETE : Z := 0. Definition DATA_INCOMPLETE : Z := 1.
Definition FS_DISCARDED_DELIBERATELY : Z := 0. Definition FS_DISCARDED_REJECTION : Z := 1.
Definition FS_RETAINED : Z := 2. Definition FS_UNREPORTED : Z := 3.
Definition TS_UNDEFINED : Z := 0. Definition TS_ACTIVE : Z := 1. Definition TS_TERMINATED : Z := 2. Definition TS_UNRECOGNIZED : Z := 3.

(* ------------------------------------------------------------------ exceptions as data *)
(* library exceptions (cfdppy.exceptions) *)
Definition E_UNRETRIEVED : Z := 1.        Definition E_INVALID_DIRECTION : Z := 2.
Definition E_INVALID_DEST_ID : Z := 3.    Definition E_INVALID_SOURCE_ID : Z := 4.
Definition E_NO_REMOTE_CFG : Z := 5.      Definition E_INVALID_PDU_FOR_DEST : Z := 6.
Definition E_INVALID_PDU_FOR_SOURCE : Z := 7. Definition E_PDU_IGNORED_DEST : Z := 8.
Definition E_PDU_IGNORED_SOURCE : Z := 9. Definition E_INVALID_NAK : Z := 10.
Definition E_INVALID_SEQ_NUM : Z := 11.   Definition E_SOURCE_FILE_MISSING : Z := 12.
Definition E_CHECKSUM_NOT_IMPL : Z := 13.
(* internal errors leaking out of a handler: 100 + kind *)
Definition E_ASSERT : Z := 101. Definition E_VALUE : Z := 102. Definition E_TYPE : Z := 103.
Definition E_ATTRIBUTE : Z := 104. Definition E_KEY : Z := 105.
(* OS errors escaping from the filestore: 200 + kind *)
Definition E_FILE_NOT_FOUND : Z := 201. Definition E_IS_A_DIRECTORY : Z := 202. Definition E_PERMISSION : Z := 204.
Definition E_FUEL : Z := 999.
(* internal control flow of the receiver: a fault handler abandoned the transaction (dest.py _TransactionAbandoned);
   always caught by state_machine, never visible to the caller *)
Definition E_ABANDONED : Z := 998.

Definition oserr_exn (e : oserr) : Z :=
  match e with FileNotFoundError => E_FILE_NOT_FOUND | IsADirectoryError => E_IS_A_DIRECTORY
             | NotADirectoryError => E_FILE_NOT_FOUND | PermissionError => E_PERMISSION end.

(* ------------------------------------------------------------------ PDUs *)
Record hdr := mkHdr {
  h_dir : Z; h_mode : Z; h_crc : bool; h_large : bool;
  h_src : Z; h_dst : Z; h_idw : Z; h_seq : Z; h_seqw : Z }.

Inductive pdu :=
| PFileData (h : hdr) (offset : Z) (data : bytes)
| PMetadata (h : hdr) (closure : bool) (cktype : Z) (fsize : Z)
            (names : option (path * path))           (* source name, dest name; None = metadata only *)
            (msgs : list Z)                          (* messages to user, abstract codes *)
| PEof (h : hdr) (cond : Z) (cksum : bytes) (fsize : Z) (fault_loc : option (Z * Z))   (* value, width *)
| PFinished (h : hdr) (cond deliv fstatus : Z) (fault_loc : option (Z * Z))
| PAck (h : hdr) (acked : Z) (cond : Z) (status : Z)
| PNak (h : hdr) (sos eos : Z) (reqs : list (Z * Z))
| PKeepAlive (h : hdr) (progress : Z)
| PPrompt (h : hdr) (resp : Z).

Definition pdu_hdr (p : pdu) : hdr :=
  match p with
  | PFileData h _ _ | PMetadata h _ _ _ _ _ | PEof h _ _ _ _ | PFinished h _ _ _ _
  | PAck h _ _ _ | PNak h _ _ _ | PKeepAlive h _ | PPrompt h _ => h
  end.
Definition is_file_data (p : pdu) : bool := match p with PFileData _ _ _ => true | _ => false end.
(* directive_type; None for File Data (attribute does not exist) *)
Definition directive (p : pdu) : option Z :=
  match p with
  | PFileData _ _ _ => None | PMetadata _ _ _ _ _ _ => Some D_METADATA | PEof _ _ _ _ _ => Some D_EOF
  | PFinished _ _ _ _ _ => Some D_FINISHED | PAck _ _ _ _ => Some D_ACK | PNak _ _ _ _ => Some D_NAK
  | PKeepAlive _ _ => Some D_KEEP_ALIVE | PPrompt _ _ => Some D_PROMPT
  end.
Definition set_dir (d : Z) (h : hdr) : hdr :=
  mkHdr d (h_mode h) (h_crc h) (h_large h) (h_src h) (h_dst h) (h_idw h) (h_seq h) (h_seqw h).

(* packed lengths (spacepackets 0.26.1; validated against len(pdu.pack()) by the harness) *)
Definition hdr_len (h : hdr) : Z := 4 + 2 * h_idw h + h_seqw h.
Definition crc_len (h : hdr) : Z := if h_crc h then 2 else 0.
Definition fss_len (h : hdr) : Z := if h_large h then 8 else 4.
Definition pdu_len (p : pdu) : Z :=
  match p with
  | PFileData h _ d => hdr_len h + fss_len h + zlen d + crc_len h
  | PMetadata h _ _ _ _ _ => 0                          (* not modelled: exempt from the length bound *)
  | PEof h _ _ _ fl => hdr_len h + 2 + 4 + fss_len h + (match fl with Some (_, w) => 2 + w | None => 0 end) + crc_len h
  | PFinished h c _ _ fl =>
      hdr_len h + 2 +
      (match fl with Some (_, w) => if (c =? C_NO_ERROR) || (c =? C_UNSUPPORTED_CHECKSUM) then 0 else 2 + w | None => 0 end)
      + crc_len h
  | PAck h _ _ _ => hdr_len h + 3 + crc_len h
  | PNak h _ _ r => hdr_len h + 1 + 2 * fss_len h + zlen r * (2 * fss_len h) + crc_len h
  | PKeepAlive h _ => hdr_len h + 1 + fss_len h + crc_len h
  | PPrompt h _ => hdr_len h + 2 + crc_len h
  end.

(* nak.get_max_seg_reqs_for_max_packet_size_and_pdu_cfg; None = ValueError *)
Definition max_seg_reqs (max_packet : Z) (h : hdr) : option Z :=
  let base := hdr_len h + 1 + crc_len h + 2 * fss_len h in
  if max_packet <? base then None else Some ((max_packet - base) / (2 * fss_len h)).
(* file_data.get_max_file_seg_len_for_max_packet_len_and_pdu_cfg; None = ValueError *)
Definition max_file_seg_len (h : hdr) (max_packet : Z) : option Z :=
  let sub := hdr_len h + fss_len h + crc_len h in
  if max_packet <? sub then None else Some (max_packet - sub).

(* ------------------------------------------------------------------ configuration *)
Record rcfg := mkRcfg {
  r_id : Z; r_idw : Z; r_max_seg : option Z; r_max_packet : Z; r_closure : bool; r_crc : bool;
  r_mode : Z; r_cktype : Z; r_ack_ms : Z; r_ack_limit : Z; r_check_limit : Z; r_disposition : bool;
  r_imm_nak : bool; r_nak_ms : Z; r_nak_limit : Z }.

Record lcfg := mkLcfg {
  l_id : Z; l_idw : Z;
  l_ind_eof_sent : bool; l_ind_eof_recv : bool; l_ind_seg : bool; l_ind_fin : bool;
  l_faults : list (Z * Z);            (* fault handler table: condition -> handler code *)
  l_check_ms : Z;                     (* interval of the timers the CheckTimerProvider hands out *)
  l_remotes : list rcfg }.

Fixpoint get_remote (l : list rcfg) (id : Z) : option rcfg :=
  match l with [] => None | r :: t => if r_id r =? id then Some r else get_remote t id end.
Fixpoint get_fault_handler (l : list (Z * Z)) (c : Z) : option Z :=
  match l with [] => None | (k, v) :: t => if k =? c then Some v else get_fault_handler t c end.

(* Countdown: (start_ms, timeout_ms); timed_out <-> now - start >= timeout *)
Definition timer := (Z * Z)%type.
Definition timed_out (now : Z) (t : timer) : bool := snd t <=? now - fst t.

(* ------------------------------------------------------------------ events (user indications, fault callbacks) *)
Inductive event :=
| EvTransaction (src seq : Z) (orig : option (Z * Z))
| EvEofSent (src seq : Z)
| EvFinished (src seq : Z) (cond deliv fstatus : Z) (fault_loc : option (Z * Z))
| EvMetadataRecv (src seq : Z) (source_id : Z) (fsize : option Z) (names : option (path * path)) (msgs : list Z)
| EvSegmentRecv (src seq : Z) (offset len : Z)
| EvEofRecv (src seq : Z)
| EvFault (kind : Z) (src seq : Z) (cond progress : Z).   (* kind = fault handler code whose callback ran *)

(* ------------------------------------------------------------------ environment shared by both handlers *)
Record env := mkEnv {
  e_now : Z; e_fs : tree; e_reject_writes : bool; e_log : list event (* newest first *) }.

(* ------------------------------------------------------------------ state + exception monad *)
Definition M (S A : Type) := S -> S * res Z A.
Definition ret {S A} (a : A) : M S A := fun s => (s, Ok a).
Definition raise {S A} (e : Z) : M S A := fun s => (s, Err e).
Definition bind {S A B} (m : M S A) (f : A -> M S B) : M S B :=
  fun s => match m s with (s', Ok a) => f a s' | (s', Err e) => (s', Err e) end.
Definition get {S} : M S S := fun s => (s, Ok s).
Definition put {S} (s : S) : M S unit := fun _ => (s, Ok tt).
Definition modify {S} (f : S -> S) : M S unit := fun s => (f s, Ok tt).
Definition gets {S A} (f : S -> A) : M S A := fun s => (s, Ok (f s)).
Definition when {S} (b : bool) (m : M S unit) : M S unit := if b then m else ret tt.
(* try: body, handler for one exception code *)
Definition catch {S A} (m : M S A) (h : Z -> option (M S A)) : M S A :=
  fun s => match m s with
           | (s', Ok a) => (s', Ok a)
           | (s', Err e) => match h e with Some k => k s' | None => (s', Err e) end
           end.
Declare Scope monad_scope.
Delimit Scope monad_scope with monad.
Notation "x <- m ;; f" := (bind m (fun x => f)) (at level 61, m at next level, right associativity) : monad_scope.
Notation "m ;;; f" := (bind m (fun _ => f)) (at level 61, right associativity) : monad_scope.
Notation "'assert_' b" := (if b then ret tt else raise E_ASSERT) (at level 60) : monad_scope.

Definition opt_z (o : option Z) : Z := match o with Some v => v | None => -1 end.
