(* HandlerSpec.v — small vocabulary shared by the handler-level property statements. *)
From CFDP Require Import Base Fs Handler Dest Source.
Definition log_d (s : dst) : list event := e_log (d_env s).
Definition log_s (s : src) : list event := e_log (s_env s).
Definition fs_d (s : dst) : tree := e_fs (d_env s).
Definition fs_s (s : src) : tree := e_fs (s_env s).
Definition now_d (s : dst) : Z := e_now (d_env s).
Definition now_s (s : src) : Z := e_now (s_env s).
