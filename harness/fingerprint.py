"""Change-triggered deepening (DESIGN.md 4.5): a fingerprint of every function / class body of /repo/src/cfdppy is kept in
/verif/fingerprints.json (written on the tree the machinery was validated on).  When a check runs on a tree in which a unit
of one of ITS property's anchor files differs, the quick tier explores several independent random streams instead of one.
The fingerprint never decides anything: a changed unit is neither a violation nor a reason to skip a check."""
from __future__ import annotations

import ast
import hashlib
import json
import sys
from pathlib import Path

VERIF = Path(__file__).resolve().parent.parent
SRC = Path("/repo/src/cfdppy")
BASELINE = VERIF / "fingerprints.json"


def _strip_doc(body):
    if body and isinstance(body[0], ast.Expr) and isinstance(getattr(body[0], "value", None), ast.Constant) \
            and isinstance(body[0].value.value, str):
        return body[1:]
    return body


def _h(nodes):
    return hashlib.sha1("\n".join(ast.dump(n) for n in nodes).encode()).hexdigest()[:16]


def units(src: Path = SRC) -> dict:
    out = {}
    for f in sorted(src.rglob("*.py")):
        rel = "src/cfdppy/" + str(f.relative_to(src))
        try:
            tree = ast.parse(f.read_text())
        except SyntaxError:
            out[rel + "::<unparsable>"] = "x"
            continue

        def walk(body, prefix):
            rest = []
            for n in _strip_doc(body):
                if isinstance(n, (ast.FunctionDef, ast.AsyncFunctionDef)):
                    n2 = ast.parse(ast.unparse(n)).body[0]
                    n2.body = _strip_doc(n2.body) or [ast.Pass()]
                    out[f"{prefix}::{n.name}"] = _h([n2])
                elif isinstance(n, ast.ClassDef):
                    walk(n.body, f"{prefix}::{n.name}")
                    rest.append(ast.Name(id="class " + n.name + "(" + ",".join(ast.unparse(b) for b in n.bases) + ")"))
                else:
                    rest.append(n)
            out[f"{prefix}::<body>"] = _h(rest)
        walk(tree.body, rel)
    return out


def changed() -> list[str]:
    if not BASELINE.exists():
        return []
    base = json.loads(BASELINE.read_text())
    now = units()
    return sorted(k for k in set(base) | set(now) if base.get(k) != now.get(k))


def changed_for(prop: str) -> list[str]:
    ch = changed()
    if not ch:
        return []
    files = []
    for line in (VERIF / "properties.jsonl").read_text().splitlines():
        d = json.loads(line)
        if d["id"] == prop:
            files = d["anchors"]["files"]
    return [u for u in ch if any(u.startswith(f + "::") for f in files)]


if __name__ == "__main__":
    if "--write" in sys.argv:
        BASELINE.write_text(json.dumps(units(), indent=0, sort_keys=True) + "\n")
        print(f"{len(units())} units written to {BASELINE}")
    else:
        print(json.dumps(changed(), indent=1))
