"""C09 — File checksums are correct for every content, length and chunking.

Proof: coq/props/C09.v over Crc.v/Checksum.v.  Tie: NativeFilestore.calculate_checksum /
verify_checksum on real files vs the extracted model; oracle: zlib.crc32, an independent bitwise
CRC-32C and a direct word sum.  The EOF-checksum clause is checked on source-handler traces.
"""
from __future__ import annotations

import itertools
import json
import random
import shutil
import zlib
from pathlib import Path

from harness import common

PROP = "C09"
TYPES = {"MODULAR": 0, "CRC32C": 2, "CRC32": 3, "NULL": 15}


def crc32c_ref(data: bytes) -> int:
    c = 0xFFFFFFFF
    for b in data:
        c ^= b
        for _ in range(8):
            c = (c >> 1) ^ (0x82F63B78 if c & 1 else 0)
    return c ^ 0xFFFFFFFF


def expected(ty: int, prefix: bytes) -> bytes:
    if ty == 15:
        return bytes(4)
    if ty == 3:
        return zlib.crc32(prefix).to_bytes(4, "big")
    if ty == 2:
        return crc32c_ref(prefix).to_bytes(4, "big")
    if ty == 0:
        s = 0
        for i, b in enumerate(prefix):
            s += b << (8 * (3 - i % 4))
        return (s % 2 ** 32).to_bytes(4, "big")
    raise AssertionError


class Impl:
    def __init__(self):
        from cfdppy.filestore import NativeFilestore
        self.fs = NativeFilestore()
        self.dir = common.sandbox_dir("c09")
        self.path = self.dir / "f.bin"
        self.cur = None

    def close(self):
        shutil.rmtree(self.dir, ignore_errors=True)

    def _file(self, exists, data):
        if not exists:
            return self.dir / "missing.bin"
        if self.cur != data:
            self.path.write_bytes(data)
            self.cur = data
        return self.path

    def op(self, o):
        from spacepackets.cfdp.defs import ChecksumType
        from cfdppy.exceptions import ChecksumNotImplemented
        kind, ty, ex, size, seg = o[:5]
        try:
            cty = ChecksumType(ty)
        except ValueError:
            return [-2]
        try:
            if kind == 0:
                r = self.fs.calculate_checksum(cty, self._file(ex, bytes(o[5:])), size, seg)
                return [0] + list(r)
            ck = bytes(o[5:9])
            r = self.fs.verify_checksum(ck, cty, self._file(ex, bytes(o[9:])), size, seg)
            return [0, 1 if r else 0]
        except FileNotFoundError:
            return [1]
        except ValueError:
            return [2]
        except ChecksumNotImplemented:
            return [3]


def gen_cases(tier, rng):
    cases = []  # each case = list of ops (one file content per case)
    alpha = [0, 1, 0x80, 0xFF]
    strings = [bytes(c) for n in range(0, 4) for c in itertools.product(alpha, repeat=n)]
    strings += [bytes([b]) for b in range(256)]
    if tier == "thorough":
        strings += [bytes(c) for c in itertools.product([0, 0x55, 0xFF], repeat=5)]
    for data in strings:
        ops = []
        for ty in TYPES.values():
            for n in range(len(data) + 1):
                for seg in range(1, len(data) + 2):
                    ops.append([0, ty, 1, n, seg] + list(data))
        cases.append(ops)
    nrand = 250 if tier == "quick" else 20000
    maxlen = 600 if tier == "quick" else 2048
    for _ in range(nrand):
        ln = rng.choice([0, 1, 2, 3, 4, 5, 7, 8, 9, 63, 64, 65, rng.randint(0, maxlen)])
        data = bytes(rng.getrandbits(8) for _ in range(ln))
        ops = []
        for _ in range(6):
            ty = rng.choice(list(TYPES.values()))
            n = rng.choice([0, ln, max(0, ln - 1), rng.randint(0, ln)])
            seg = rng.choice([1, 2, 3, 4, 7, ln + 1, max(1, ln), rng.randint(1, ln + 1), 4096])
            ops.append([0, ty, 1, n, seg] + list(data))
            good = expected(ty, data[:n])
            ck = good if rng.random() < 0.5 else bytes([good[0] ^ rng.choice([0, 1]), good[1], good[2], good[3] ^ rng.choice([0, 128])])
            ops.append([1, ty, 1, n, seg] + list(ck) + list(data))
        cases.append(ops)
    # files and chunk lengths beyond one 4096-byte block (a segment length derived from a large max_packet_len)
    for _ in range(4 if tier == "quick" else 60):
        ln = rng.choice([4097, 5000, 8192, 8193, 10000])
        data = bytes(rng.getrandbits(8) for _ in range(ln))
        ops = []
        for ty in TYPES.values():
            for seg in (4095, 4096, 4097, 5000, 8178, ln, ln + 1):
                for n in (ln, ln - 1, 4097, rng.randint(4097, ln)):
                    ops.append([0, ty, 1, n, seg] + list(data))
        cases.append(ops)
    # hostile / outside the quantifier (correspondence only)
    host = []
    for data in [b"", b"\x01\x02\x03\x04\x05"]:
        for ty in [0, 1, 2, 3, 15]:
            for n in [0, 3, 5, 9, -1]:
                for seg in [0, 1, 2, 4096]:
                    for ex in [0, 1]:
                        host.append([0, ty, ex, n, seg] + list(data))
                        host.append([1, ty, ex, n, seg, 0, 0, 0, 0] + list(data))
    cases.append(host)
    return list(common.share(cases))


def eof_checksums(v, tier, rng):
    """EOF clause: every EOF the source emits (nominal, after a cancel, re-sent on ACK-timer expiry) carries the checksum
    of exactly the bytes it has sent (its file size field)."""
    from harness import codec, hcommon, srcprops, timers
    from harness.transfer import Cfg
    n = 0
    cases = []
    for ck in (0, 2, 3, 15):
        for size in (0, 1, 5, 9):
            for seg in (1, 4):
                cases.append(("nominal", Cfg(mode=rng.choice([0, 1]), cktype=ck, max_seg=seg), size))
    for ck in (0, 2, 3):
        for k in (1, 2, 3, 4):
            cases.append(("cancel", Cfg(mode=0, cktype=ck, max_seg=2, ack_limit=3), k))
    for kind, cfg, x in cases:
        if kind == "nominal":
            data = bytes(rng.getrandbits(8) for _ in range(x))
            side = srcprops.nominal_source_case(cfg, data)
        else:
            c = timers.CancelSilentCase(cfg, 9, "src", x)
            c.run()
            side = c.sides[0]
            data = bytes((5 * i + 1) % 256 for i in range(9))
        tr = hcommon.Trace(*side)
        for i, g, _ in tr.emitted():
            if g["kind"] == codec.K_EOF:
                n += 1
                want = expected(cfg.cktype, data[:g["fsize"]])
                if g["cksum"] != want:
                    v.violation(f"oracle: EOF PDU (condition {g['cond']}, size {g['fsize']}) carries checksum {g['cksum'].hex()}, the "
                                f"checksum of the {g['fsize']} bytes sent is {want.hex()}",
                                {"kind": "source", "ops": side[1][:i + 1], "clause": "EOF checksum"})
                    return n
    # any history: several transactions on one handler pair, cancels (either side) and lost ACKs in a later transaction, so
    # that EOF and EOF (cancel) PDUs are re-sent on Positive-ACK timer expiries after earlier transactions have completed
    from harness import campaign
    for _ in common.share(range(60 if tier == "quick" else 6000)):
        nt = rng.choice([1, 2, 2, 3])
        cfg = campaign.rand_cfg(rng, mode=rng.choice([0, 0, 0, 1]), cktype=rng.choice([0, 2, 3, 15]), req_mode=None)
        datas = [bytes(rng.getrandbits(8) for _ in range(rng.choice(campaign.SIZES + [20, 33]))) for _ in range(nt)]
        cancel = (rng.choice(["src", "src", "dst"]), rng.randint(0, 6), True) if rng.random() < 0.6 else None
        if rng.random() < 0.5:      # the receiver's first PDUs of that transaction are lost: EOF / EOF (cancel) get re-sent
            faults = [campaign.Fault("d2s", i, "drop", 1) for i in range(rng.randint(1, 4))]
        else:
            faults = [campaign.Fault("d2s", rng.randint(0, 6), "drop", 1) for _ in range(rng.choice([0, 1, 2, 4]))] + \
                campaign.rand_faults(rng, rng.choice([0, 0, 1, 2]), ("drop", "dup", "delay"))
        case = campaign.TransferCase(cfg, datas, faults, cancel, None, extra_sm=rng.choice([0, 0, 1]), fault_tx=rng.randrange(nt),
                                     tag="c09eof")
        case.run()
        side = case.sides[0]
        try:
            n += srcprops.oracle_eof_checksum(hcommon.Trace(*side))
        except hcommon.Failure as f:
            v.violation("oracle: " + str(f), {"kind": "source", "ops": side[1], "clause": "EOF checksum", "case": case.describe()})
            return n
    return n


def in_quantifier(o):
    kind, ty, ex, size, seg = o[:5]
    data = o[5:] if kind == 0 else o[9:]
    return ex == 1 and ty in (0, 2, 3, 15) and 0 <= size <= len(data) and seg >= 1


def run(tier, seed):
    v = common.Verdict(PROP, tier, seed)
    common.proof_gate(v, PROP)
    rng = random.Random(seed)
    cases = []
    cdir = common.CORPUS / PROP
    if cdir.exists():
        for f in sorted(cdir.glob("*.json")):
            cases.append(json.loads(f.read_text())["ops"])
    cases += gen_cases(tier, rng)
    model = common.run_model("checksum", cases)
    impl = Impl()
    n_ops = n_judged = internal = 0
    dist = {}
    distinct = set()
    try:
        for ops, mo in zip(cases, model):
            for o, m in zip(ops, mo):
                r = impl.op(o)
                n_ops += 1
                inq = in_quantifier(o)
                dist[(o[0], o[1], r[0])] = dist.get((o[0], o[1], r[0]), 0) + 1
                if inq:
                    n_judged += 1
                    kind, ty, ex, size, seg = o[:5]
                    data = bytes(o[5:] if kind == 0 else o[9:])
                    exp = expected(ty, data[:size])
                    if len(data) >= 1:
                        distinct.add((ty, data, size, min(seg, len(data) + 1), kind))
                    if kind == 0 and r != [0] + list(exp):
                        v.violation(f"oracle: calculate_checksum(type {ty}, {len(data)} bytes, prefix {size}, chunk {seg}) "
                                    f"= {r}, expected {list(exp)}", {"kind": "checksum", "ops": [o], "impl": r, "model": m})
                    if kind == 1 and r != [0, 1 if bytes(o[5:9]) == exp else 0]:
                        v.violation(f"oracle: verify_checksum wrong for type {ty}", {"kind": "checksum", "ops": [o], "impl": r, "model": m})
                if r != m:
                    if inq:
                        v.violation("correspondence: Checksum.v and filestore.calculate_checksum differ inside the "
                                    "property's quantifier", {"kind": "checksum", "ops": [o], "impl": r, "model": m,
                                                              "theorem": "c09_calc_crc_chunk_independent / c09_modular_spec"},
                                    has_input=False)
                    else:
                        internal += 1
                if len(v.violations) > 3:
                    break
            if len(v.violations) > 3:
                break
    finally:
        impl.close()
    # EOF checksum clause: traces of the source handler (shared transfer harness)
    eof_checked = eof_checksums(v, tier, rng)
    sample = [c[:3] for c in cases[5:8]]
    try:
        if common.coq_eval("run_checksum", sample) != common.run_model("checksum", sample):
            v.violation("extracted runner and in-Coq evaluation differ", {"sample": sample}, has_input=False)
    except Exception as e:
        v.notes.append(f"in-Coq cross-check skipped: {e}")
    if getattr(v, "proof_error", None) and not v.violations:
        v.violation(v.proof_error, {"theorem": "props/C09.v", "error": v.proof_error}, has_input=False)
    v.coverage.update({
        "evaluations": n_ops, "distinct_nontrivial": len(distinct),
        "rule": "calculate/verify calls on real files: exhaustive (all strings <=3 over {00,01,80,FF}, all single bytes) x "
                "every prefix x every chunk 1..len+1 x 4 types, random contents, plus a hostile stream outside the "
                "quantifier (correspondence only); distinct non-trivial = distinct (type, non-empty content, prefix, chunk, op)",
        "traces_validated_against_impl": n_ops, "ops_judged_by_oracle": n_judged,
        "internal_divergence_outside_quantifier": internal,
        "eof_pdus_checked": eof_checked,
        "distribution": {f"op{k[0]}/type{k[1]}/code{k[2]}": n for k, n in sorted(dist.items())},
        "samples": [cases[-2][0][:12], cases[3][:2]],
    })
    v.assumptions = list(common.ASSUMPTIONS) + ["crcmod 1.7 computes the Rocksoft-model CRC of Crc.v (validated on every case of this run)"]
    return v.finish()


def replay(path):
    data = json.loads(open(path).read())
    if data.get("clause") == "EOF checksum":
        from harness import hcommon, srcprops, transfer
        obs, _ = transfer.replay_ops(data["kind"], data["ops"])
        try:
            srcprops.oracle_eof_checksum(hcommon.Trace(data["kind"], data["ops"], obs))
        except hcommon.Failure as f:
            print(f"VIOLATION property={PROP} replay={path}")
            print(" ", f)
            return 1
        return 0
    if "ops" not in data:
        print("replay file names a theorem/correspondence, not an input")
        return 0
    impl = Impl()
    try:
        common.build()
        mo = common.run_model("checksum", [data["ops"]])[0]
        bad = 0
        for o, m in zip(data["ops"], mo):
            r = impl.op(o)
            print(json.dumps({"op": o[:9], "impl": r, "model": m}))
            if in_quantifier(o) and o[0] == 0 and r != [0] + list(expected(o[1], bytes(o[5:])[:o[3]])):
                bad += 1
        if bad:
            print(f"VIOLATION property={PROP} replay={path}")
        return 1 if bad else 0
    finally:
        impl.close()
