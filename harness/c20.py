"""C20 — PDU routing agrees with what each handler accepts.

The space PDU type x acked directive x direction x mode x id width x CRC flag is enumerated completely;
every descriptor is routed with the real helper and handed (as a real, packed and re-parsed PDU with
matching ids and sequence number) to both handlers in every step a running transfer reaches."""
import itertools
import json

from harness import codec, common, hcommon, transfer
from harness.hcommon import Failure
from harness.transfer import Cfg, Runner, World, start_transfer

PROP = "C20"
SRC_ROUTED = {codec.K_FIN, codec.K_NAK, codec.K_KA}
DST_ROUTED = {codec.K_FD, codec.K_MD, codec.K_EOF, codec.K_PROMPT}


def expected_route(ints):
    k = ints[0]
    if k in DST_ROUTED:
        return 1
    if k in SRC_ROUTED:
        return 0
    return 1 if ints[10] == 5 else 0        # ACK of Finished -> dest, ACK of EOF -> source


def descriptors(mode, idw, crc, src, dst, seq, seqw):
    out = []
    for dirn in (0, 1):
        h = [dirn, mode, crc, 0, src, dst, idw, seq, seqw]
        out.append([codec.K_FD] + h + [0, 2, 7, 8])
        out.append([codec.K_MD] + h + [0, 3, 4, 1, 1, 1, 1, 2, 0])
        out.append([codec.K_EOF] + h + [0, 0, 0, 0, 0, 4, 0, 0, 0])
        out.append([codec.K_PROMPT] + h + [0])
        out.append([codec.K_FIN] + h + [0, 0, 2, 0, 0, 0])
        out.append([codec.K_NAK] + h + [0, 4, 1, 0, 2])
        out.append([codec.K_KA] + h + [2])
        out.append([codec.K_ACK] + h + [4, 0, 1])
        out.append([codec.K_ACK] + h + [5, 0, 1])
    return out


def route_table_check(hc):
    from cfdppy.handler.common import PacketDestination, get_packet_destination
    pm = codec.PathMap("/nonexistent-root")
    n = 0
    for mode, idw, seqw, crc in itertools.product((0, 1), (1, 2, 4, 8), (1, 2, 4), (0, 1)):
        for ints in descriptors(mode, idw, crc, 1, 2, 3, seqw):
            pdu = codec.reparse(codec.build_pdu(ints, pm))
            exp = expected_route(ints)
            try:
                got = get_packet_destination(pdu)
            except Exception as e:  # noqa: BLE001
                hc.v.violation(f"oracle: get_packet_destination raises {type(e).__name__} for PDU kind {ints[0]}; the property's table "
                               f"routes it to the {'destination' if exp else 'source'} handler", {"pdu": ints})
                return n
            n += 1
            if (got == PacketDestination.DEST_HANDLER) != (exp == 1):
                hc.v.violation(f"oracle: get_packet_destination routes PDU kind {ints[0]} (acked {ints[10] if ints[0] == 4 else '-'}) to "
                               f"{got}, the property's table says {'dest' if exp else 'source'}", {"pdu": ints})
                return n
    # the helper for inactive EOFs
    from cfdppy.handler.dest import acknowledge_inactive_eof_pdu
    from spacepackets.cfdp.pdu import TransactionStatus
    for cond in (0, 15, 4):
        eof = codec.reparse(codec.build_pdu([codec.K_EOF, 0, 0, 0, 0, 1, 2, 2, 3, 2, cond, 1, 2, 3, 4, 9, 0, 0, 0], pm))
        for st in TransactionStatus:
            try:
                ack = acknowledge_inactive_eof_pdu(codec.reparse(eof), st)
                a = codec.enc_pdu(codec.reparse(ack), pm)
                ok = st != TransactionStatus.ACTIVE and a[0] == codec.K_ACK and a[1] == 1 and a[10:] == [4, cond, int(st)]
            except ValueError:
                ok = st == TransactionStatus.ACTIVE
            n += 1
            if not ok:
                hc.v.violation(f"oracle: acknowledge_inactive_eof_pdu(cond {cond}, status {st!r}) wrong", {"cond": cond, "status": int(st)})
    return n


def oracle_c20(tr):
    """On a trace in which descriptors were injected: routed-elsewhere => refused (library exception, nothing changes);
    routed-here => never refused as belonging to the other side."""
    mine = 1 if tr.kind == "dest" else 0
    foreign_exc = 6 if tr.kind == "dest" else 7
    for st in tr.steps:
        if st.tag != 0:
            continue
        ints = st.op[1:]
        route = expected_route(ints)
        if route != mine:
            if st.ob["exc"] not in transfer.LIB_EXC:
                raise Failure(f"C20 PDU kind {ints[0]} (dir {ints[1]}, acked {ints[10] if ints[0] == 4 else '-'}) routed to the other "
                              f"handler was not refused by the {tr.kind} handler in step {st.prev['fields']['step'] if st.prev else 0}"
                              f" (exception code {st.ob['exc']})")
            if st.prev is not None:
                a = {k: v for k, v in st.prev["fields"].items() if k not in ("exc", "ret")}
                b = {k: v for k, v in st.ob["fields"].items() if k not in ("exc", "ret")}
                if a != b or st.ob["events"] or st.prev["tracker"] != st.ob["tracker"]:
                    raise Failure(f"C20 refused PDU kind {ints[0]} changed the {tr.kind} handler")
        else:
            if st.ob["exc"] == foreign_exc:
                raise Failure(f"C20 PDU kind {ints[0]} (dir {ints[1]}) routed to the {tr.kind} handler was refused by it as "
                              f"belonging to the other side")


def injected_traces(hc, tier):
    """Replay prefixes of nominal traces; at every prefix inject every descriptor (one replay per descriptor)."""
    base = []
    for mode, closure, size in ((0, False, 5), (1, True, 5), (0, False, 0), (1, False, 3)):
        cfg = Cfg(mode=mode, closure=closure, max_seg=4, ack_limit=3, nak_limit=3, imm_nak=False)
        w = World(cfg, "c20")
        try:
            start_transfer(w, bytes(range(size)))
            faults = [transfer.Fault("s2d", 1, "drop")] if mode == 0 and size else []
            r = Runner(w, faults, max_rounds=40)
            r.run()
            base.append((cfg, "source", list(w.src.ops)))
            base.append((cfg, "dest", list(w.dst.ops)))
        finally:
            w.close()
    n = 0
    for cfg, kind, ops in base:
        seqs = sorted({(o[9], o[10]) for o in ops if o[0] == 0})[:1] or [(0, 2)]
        seq, seqw = seqs[0]
        idw = max(cfg.src_idw, cfg.dst_idw)
        descs = []
        for mode in (0, 1):
            for crc in (0, 1):
                descs += descriptors(mode, idw, crc, cfg.src_id, cfg.dst_id, seq, seqw)
        if tier == "quick":
            descs = [d for d in descs if d[3] == 0] + [d for i, d in enumerate(descs) if d[3] == 1 and i % 3 == 0]
        cut_points = [k for k in range(1, len(ops) + 1) if k == len(ops) or ops[k][0] in (0, 1)]
        for k in cut_points:
            prefix = ops[:k]
            # refused PDUs leave the state unchanged, so many descriptors share one replay; accepted ones get their own
            foreign = [d for d in descs if expected_route(d) != (1 if kind == "dest" else 0)]
            own = [d for d in descs if expected_route(d) == (1 if kind == "dest" else 0)]
            seq_ops = prefix + [[0] + d for d in foreign]
            try:
                obs, _ = transfer.replay_ops(kind, seq_ops, "c20")
                hc.add_trace(kind, seq_ops, obs, label=f"{kind} prefix {k}: foreign descriptors", oracle=oracle_c20)
                n += len(foreign)
            except ValueError:
                pass
            for d in own if tier == "thorough" else own[::2]:
                seq_ops = prefix + [[0] + d, [2], [1]]
                try:
                    obs, _ = transfer.replay_ops(kind, seq_ops, "c20")
                except ValueError:
                    continue
                hc.add_trace(kind, seq_ops, obs, label=f"{kind} prefix {k}: own descriptor", oracle=oracle_c20)
                n += 1
            if len(hc.v.violations) > 3:
                return n
    return n


def run(tier, seed):
    hc = hcommon.HandlerCheck(PROP, tier, seed)
    hc.gate()
    hc.run_corpus(lambda kind: oracle_c20)
    nroute = route_table_check(hc)
    ninj = injected_traces(hc, tier)
    hc.correspondence(project=hcommon.proj_exc_state, theorem="c20_*_refuses_foreign / c20_*_admits_own (correspondence)")
    return hc.finish("complete enumeration of PDU type x acked directive x direction x mode x id width x seq width x CRC flag through "
                     "get_packet_destination (real packed+parsed PDUs), and every descriptor injected into both handlers at every "
                     "step of acknowledged/unacknowledged transfers (with and without loss)",
                     {"route_table_evaluations": nroute, "descriptor_injections": ninj, "exhaustive": True})


def replay(path):
    d = json.loads(open(path).read())
    if "ops" not in d:
        return 0
    obs, _ = transfer.replay_ops(d["kind"], d["ops"])
    try:
        oracle_c20(hcommon.Trace(d["kind"], d["ops"], obs))
    except Failure as f:
        print(f"VIOLATION property={PROP} replay={path}")
        print(" ", f)
        return 1
    return 0
