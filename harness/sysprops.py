"""System-level properties C01, C02, C03, C11, C16: two handlers + link, the surrounding entity of DESIGN.md 3.5."""
from __future__ import annotations

import builtins
import itertools
import os
import random

from harness import c09, campaign, codec, hcommon
from harness.transfer import Cfg, Fault, Runner, VClock, World, dest_file_bytes, start_transfer

SUCCESS = (0, 0, 2)     # NO_ERROR, DATA_COMPLETE, FILE_RETAINED


def resolved_dest(cfg: Cfg, dst_is_dir):
    return tuple(cfg.dst_path) + (cfg.src_path[-1],) if dst_is_dir else tuple(cfg.dst_path)


class SysCase:
    def __init__(self, cfg: Cfg, data, faults=(), extra_sm=0, dst_is_dir=False, dst_exists=False, vfs="native",
                 reject_round=None, max_rounds=250, tag="sys", cancel=None):
        self.cancel = cancel        # (who: "src" | "dst", after how many scheduler rounds) - a user's cancel request
        self.cfg, self.data, self.faults, self.extra_sm = cfg, data, list(faults), extra_sm
        self.dst_is_dir, self.dst_exists, self.vfs, self.reject_round, self.max_rounds, self.tag = \
            dst_is_dir, dst_exists, vfs, reject_round, max_rounds, tag
        self.success_checks = []     # (who, what, identical, collision)

    def describe(self):
        c = self.cfg
        return {"mode": campaign.eff_mode(c), "closure": campaign.eff_closure(c), "cktype": c.cktype, "crc": c.crc,
                "imm_nak": c.imm_nak, "idw": (c.src_idw, c.dst_idw), "seqw": c.seqw, "max_seg": c.max_seg,
                "max_packet": c.max_packet, "limits": (c.ack_limit, c.nak_limit, c.check_limit),
                "size": None if self.data is None else len(self.data), "metadata_only": c.metadata_only,
                "faults": [(f.direction, f.index, f.kind, f.arg) for f in self.faults], "extra_sm": self.extra_sm,
                "dst_is_dir": self.dst_is_dir, "dst_exists": self.dst_exists, "vfs": self.vfs, "reject_round": self.reject_round,
                "cancel": self.cancel}

    def _c01_hook(self, w):
        cfg = self.cfg
        dest_path = resolved_dest(cfg, self.dst_is_dir)
        seen = {"src": 0, "dst": 0}

        def check(who, what):
            if cfg.metadata_only or self.data is None:
                return
            got = dest_file_bytes(w, dest_path)
            identical = got == self.data
            collision = False
            if not identical and got is not None and cfg.cktype in (2, 3):
                collision = c09.expected(cfg.cktype, got) == c09.expected(cfg.cktype, self.data)
            self.success_checks.append((who, what, identical, collision, None if got is None else len(got)))

        def hook(side, runner, pdu=None):
            key = "src" if side.kind == "source" else "dst"
            evs = side.events
            new = evs[seen[key]:] + [(None, e) for e in side.log]
            seen[key] = len(evs)
            for _, e in new:
                if e[0] == 3 and tuple(e[3:6]) == SUCCESS:
                    if key == "dst" or campaign.eff_mode(cfg) == 0 or campaign.eff_closure(cfg):
                        check(key, "indication")
            if pdu is not None and side.kind == "dest":
                ints = codec.enc_pdu(pdu, w.pm)
                if ints[0] == codec.K_FIN and tuple(ints[10:13]) == SUCCESS:
                    check("dst", "finished-pdu")
        return hook

    def run(self):
        cfg = self.cfg
        w = World(cfg, self.tag, vfs=self.vfs)
        self.world = w
        try:
            if self.dst_is_dir:
                w.dst.fs_op([7, 0] + codec.enc_path(cfg.dst_path))
            elif self.dst_exists:
                # an older, LONGER file of that name (24 bytes): it has to be truncated when the Metadata arrives, also a late one
                w.dst.fs_op([7, 1] + codec.enc_path(cfg.dst_path) + [24] + [9] * 24)
            self.put_ret = start_transfer(w, self.data)
            r = Runner(w, self.faults, max_rounds=self.max_rounds, extra_sm=self.extra_sm)
            r.hooks = [self._c01_hook(w)]
            self.runner = r
            if self.reject_round is not None:
                while r.round < self.reject_round and not r.quiescent():
                    r.step_round()
                w.dst.set_reject(True)
            if self.cancel is not None:
                who, at = self.cancel
                while r.round < at and not r.quiescent():
                    r.step_round()
                side = w.src if who == "src" else w.dst
                t = side.h.transaction_id
                if t is not None:
                    side.cancel(t.source_id.value, t.seq_num.value)
                    for hk in r.hooks:
                        hk(side, r)
                    r._note_done(side)
                    r._drain(side)
            self.quiescent = r.run()
            self.dest_bytes = dest_file_bytes(w, resolved_dest(cfg, self.dst_is_dir))
            w.dst.snapshot_file(list(resolved_dest(cfg, self.dst_is_dir)))
            self.src_events = [e for _, e in w.src.events]
            self.dst_events = [e for _, e in w.dst.events]
            self.api_exc = list(r.api_exc)
            self.sides = [("source", w.src.ops, w.src.obs), ("dest", w.dst.ops, w.dst.obs)]
            self.states = (w.src.h.state.value, w.dst.h.state.value)
            self.now = VClock.now
            if self.vfs != "native":
                self.src_calls = list(w.src_vfs.calls)
                self.dst_calls = list(w.dst_vfs.calls)
                self.host_tree = sorted(str(p.relative_to(w.root)) + ":" + (p.read_bytes().hex() if p.is_file() else "d")
                                        for p in w.root.rglob("*"))
            return self
        finally:
            w.close()


class SeqSysCase:
    """Several fault-free transfers one after the other on the SAME pair of handlers (the put request's own mode and
    closure vary, the link is perfect, the handlers sit idle for a while between transactions).  Each transaction is
    judged by check_c02 on its own."""

    def __init__(self, cfg: Cfg, txs, extra_sm=0, tag="c02seq"):
        self.cfg, self.txs, self.extra_sm, self.tag = cfg, list(txs), extra_sm, tag   # txs: (data, req_mode, req_closure, gap_ms)
        self.faults = []
        self.success_checks = []

    def describe(self):
        c = self.cfg
        return {"mode": campaign.eff_mode(c), "closure": campaign.eff_closure(c), "cktype": c.cktype, "crc": c.crc,
                "imm_nak": c.imm_nak, "max_seg": c.max_seg, "check_ms": c.check_ms, "extra_sm": self.extra_sm,
                "sequence": [(None if d is None else len(d), m, cl, gap) for d, m, cl, gap in self.txs], "faults": []}

    def run(self):
        import copy
        import types
        w = World(self.cfg, self.tag)
        self.results = []
        try:
            for data, rm, rc, gap in self.txs:
                w.cfg.req_mode, w.cfg.req_closure = rm, rc
                # data None = a metadata-only put request (messages to user, no file) in the middle of the sequence
                w.cfg.metadata_only, w.cfg.msgs = (True, [0]) if data is None else (False, None)
                s0, d0 = len(w.src.events), len(w.dst.events)
                start_transfer(w, data)
                r = Runner(w, [], max_rounds=250, extra_sm=self.extra_sm)
                q = r.run()
                res = types.SimpleNamespace(
                    cfg=copy.copy(w.cfg), data=data, quiescent=q, states=(w.src.h.state.value, w.dst.h.state.value),
                    api_exc=list(r.api_exc), src_events=[e for _, e in w.src.events[s0:]], dst_events=[e for _, e in w.dst.events[d0:]],
                    dest_bytes=dest_file_bytes(w, tuple(self.cfg.dst_path)), now=VClock.now, faults=[])
                self.results.append(res)
                if res.states != (0, 0):
                    break
                w.advance(gap)
            self.sides = [("source", w.src.ops, w.src.obs), ("dest", w.dst.ops, w.dst.obs)]
            return self
        finally:
            w.close()


def c02_seq_cases(tier, rng):
    gaps = [0, 0, 400, 1000, 3000, 20000, 120000]
    for _ in range(60 if tier == "quick" else 3000):
        cfg = campaign.rand_cfg(rng, req_mode=None, req_closure=None)
        txs = []
        for _ in range(rng.choice([2, 2, 3, 4])):
            size = rng.choice(campaign.SIZES + [0, 0])
            data = None if rng.random() < 0.2 else bytes(rng.getrandbits(8) for _ in range(size))
            txs.append((data, rng.choice([None, 0, 1, 1]), rng.choice([None, False, True, True]), rng.choice(gaps)))
        yield SeqSysCase(cfg, txs, extra_sm=rng.choice([0, 0, 1]))


# ------------------------------------------------------------------ oracles on a finished SysCase
def check_c01(case: SysCase):
    cfg = case.cfg
    flips = any(f.kind == "flip" for f in case.faults)
    for who, what, identical, collision, ln in case.success_checks:
        if identical:
            continue
        if cfg.cktype in (2, 3):
            if collision:
                continue
            return (f"C01 {who} reported success ({what}) while the destination file ({ln} bytes) differs from the source "
                    f"({len(case.data)} bytes) and their checksums differ")
        # null / modular checksum: the property covers acknowledged mode under loss/duplication/reordering only
        if campaign.eff_mode(cfg) == 0 and not flips and case.reject_round is None:
            return (f"C01 {who} reported success ({what}) with checksum type {cfg.cktype} in acknowledged mode although the "
                    f"destination file differs from the source (no corruption injected)")
    return None


def check_c02(case: SysCase):
    cfg = case.cfg
    if not case.quiescent or case.states != (0, 0):
        return f"C02 fault-free transfer did not run to completion (states {case.states}, now {case.now} ms)"
    if case.api_exc:
        return f"C02 an API call raised during a fault-free transfer: {case.api_exc[:3]}"
    faults = [e for e in case.src_events + case.dst_events if 11 <= e[0] <= 14]
    if faults:
        return f"C02 fault callback fired during a fault-free transfer: {faults[:3]}"
    if not cfg.metadata_only and case.dest_bytes != case.data:
        return f"C02 destination file differs from the source after a fault-free transfer"
    if cfg.ind[3]:
        sf = [e for e in case.src_events if e[0] == 3]
        df = [e for e in case.dst_events if e[0] == 3]
        if len(sf) != 1 or len(df) != 1:
            return f"C02 expected exactly one Transaction-Finished per side, got sender {len(sf)}, receiver {len(df)}"
        if (df[0][3], df[0][4]) != (0, 0) or (not cfg.metadata_only and df[0][5] != 2):
            return f"C02 receiver's Transaction-Finished is not a success: {df[0]}"
        if (sf[0][3], sf[0][4]) != (0, 0):
            return f"C02 sender's Transaction-Finished is not a success: {sf[0]}"
    return None


def check_c03(case: SysCase):
    cfg = case.cfg
    if not case.quiescent or case.states != (0, 0):
        return (f"C03 acknowledged transfer with {len(case.faults)} fault(s) {[(f.direction, f.index, f.kind, f.arg) for f in case.faults]} "
                f"did not complete (states {case.states} after {case.now} ms)")
    if not cfg.metadata_only and case.dest_bytes != case.data:
        return f"C03 file not delivered byte-identical after {len(case.faults)} fault(s)"
    if cfg.ind[3]:
        sf = [e for e in case.src_events if e[0] == 3]
        df = [e for e in case.dst_events if e[0] == 3]
        if not sf or (sf[-1][3], sf[-1][4]) != (0, 0) or not df or (df[-1][3], df[-1][4]) != (0, 0):
            return f"C03 not both users received a successful Transaction-Finished: sender {sf}, receiver {df}"
    return None


# ------------------------------------------------------------------ case generators
def c02_cases(tier, rng):
    sizes = [0, 1, 4, 5, 8, 9] if tier == "quick" else list(range(0, 14)) + [63, 64, 65, 255, 256, 257, 1000, 1024, 3000]
    n = 0
    for mode, closure, cktype in itertools.product((0, 1), (False, True), (0, 2, 3, 15)):
        for size in sizes:
            reps = 1 if tier == "quick" else 30
            for _ in range(reps):
                cfg = campaign.rand_cfg(rng, mode=mode, closure=closure, req_mode=None, req_closure=None, cktype=cktype)
                shape = rng.choice(["file", "file", "dir", "exists"])
                yield SysCase(cfg, bytes(rng.getrandbits(8) for _ in range(size)), extra_sm=rng.choice([0, 0, 1, 2, 3]),
                              dst_is_dir=shape == "dir", dst_exists=shape == "exists", tag="c02",
                              max_rounds=250 + 3 * (size // max(1, cfg.max_seg or 8)))   # the scheduler bound grows with the PDU count
    for mode, closure in itertools.product((0, 1), (False, True)):
        cfg = campaign.rand_cfg(rng, mode=mode, closure=closure, req_mode=None, req_closure=None)
        cfg.metadata_only = True
        yield SysCase(cfg, None, extra_sm=rng.choice([0, 1]), tag="c02")


def c01_cases(tier, rng):
    n = 400 if tier == "quick" else 40000
    for _ in range(n):
        cfg = campaign.rand_cfg(rng)
        size = rng.choice(campaign.SIZES)
        nf = rng.choice([0, 1, 2, 3, 5, 8, 12])
        kinds = ("drop", "dup", "delay", "flip", "flip")
        faults = campaign.rand_faults(rng, nf, kinds, span=14)
        reject = rng.randint(0, 5) if rng.random() < 0.15 else None
        # a user's cancel request at either entity, at any moment: no cancelled transfer may end as a reported success
        cancel = (rng.choice(["src", "src", "dst"]), rng.randint(0, 8)) if rng.random() < 0.25 else None
        yield SysCase(cfg, bytes(rng.getrandbits(8) for _ in range(size)), faults, extra_sm=rng.choice([0, 0, 1]),
                      reject_round=reject, max_rounds=200, tag="c01", cancel=cancel, dst_exists=rng.random() < 0.25)
    # the destination file exists already (longer) and the Metadata PDU arrives late: nothing of the old file may survive
    for imm in (False, True):
        for nlost in (1, 2):
            for size in (5, 9):
                cfg = campaign.rand_cfg(rng, mode=0, req_mode=None, imm_nak=imm, max_seg=4, max_packet=64, ack_limit=5, nak_limit=5)
                yield SysCase(cfg, bytes(rng.getrandbits(8) for _ in range(size)), [Fault("s2d", i, "drop") for i in range(nlost)],
                              max_rounds=300, tag="c01", dst_exists=True)
    # null / modular checksum (acknowledged mode, loss only): a lost range of two segments whose first retransmission is
    # lost again - only the lost-segment bookkeeping stands between a hole in the file and a reported success
    for ck in (15, 0):
        for imm in (False, True):
            for nseg in (4, 5):
                for first in (1, 2):
                    cfg = campaign.rand_cfg(rng, mode=0, req_mode=None, cktype=ck, imm_nak=imm, max_seg=4, max_packet=64,
                                            ack_limit=5, nak_limit=5, dst_over=None)
                    data = bytes(rng.getrandbits(8) | 1 for _ in range(4 * nseg))
                    for relost in (nseg + 2, nseg + 3):
                        yield SysCase(cfg, data, [Fault("s2d", first, "drop"), Fault("s2d", first + 1, "drop"),
                                                  Fault("s2d", relost, "drop")], max_rounds=300, tag="c01")
    # the sender cancels while the Metadata PDU (and possibly more) is lost: the EOF (cancel) is the first PDU to arrive
    for mode in (0, 0, 1):
        for at in (1, 2, 3):
            for nlost in (1, 2, 3):
                cfg = campaign.rand_cfg(rng, mode=mode, req_mode=None)
                data = bytes(rng.getrandbits(8) for _ in range(rng.choice([0, 5, 9, 13])))
                yield SysCase(cfg, data, [Fault("s2d", i, "drop") for i in range(nlost)], max_rounds=200, tag="c01",
                              cancel=("src", at))


def fault_space(max_index, kinds=("drop", "dup", "delay")):
    out = []
    for d in ("s2d", "d2s"):
        for i in range(max_index):
            for k in kinds:
                out.append(Fault(d, i, k, 2 if k == "delay" else 1))
    return out


def c03_cases(tier, rng):
    """K <= 1 complete + sampled K = 2 in quick; K <= 2 complete on small files in thorough; random K <= 6 beyond."""
    base = []
    for size, seg in ((0, 4), (3, 4), (5, 4), (9, 4)):
        for imm in (False, True):
            for closure in (False, True):
                base.append((size, seg, imm, closure))
    for size, seg, imm, closure in base:
        # the two entities' timer intervals are equal, or the receiver's are a quarter / four times the sender's
        asym = rng.choice([None, None, {"ack_ms": 250, "nak_ms": 250}, {"ack_ms": 4000, "nak_ms": 4000}, {"ack_ms": 250}])
        mk = lambda K: Cfg(mode=0, closure=closure, max_seg=seg, imm_nak=imm, ack_limit=K + 1 + 2, nak_limit=K + 1 + 2,
                           cktype=rng.choice([3, 2, 15, 0]), ack_ms=1000, nak_ms=1000, dst_over=asym)
        data = bytes((3 * i + 7) % 256 for i in range(size))
        space = fault_space(3 + (size + seg - 1) // seg + 4)
        yield SysCase(mk(0), data, [], tag="c03")
        for f in space:
            yield SysCase(mk(1), data, [f], tag="c03")
        pairs = list(itertools.combinations(space, 2))
        if tier == "quick":
            # all pairs of early losses sender->receiver (Metadata / File Data / EOF), early loss x early receiver->sender
            # fault, plus a random sample of the rest
            early = [f for f in space if f.direction == "s2d" and f.index < 5 and f.kind == "drop"]
            back = [f for f in space if f.direction == "d2s" and f.index < 3]
            pairs = list(itertools.combinations(early, 2)) + [(a, b) for a in early[:3] for b in back] + \
                rng.sample(pairs, min(len(pairs), 30))
        elif len(pairs) > 1500:
            pairs = rng.sample(pairs, 1500) if size else pairs
        for f1, f2 in pairs:
            yield SysCase(mk(2), data, [f1, f2], tag="c03")
    for _ in range(150 if tier == "quick" else 20000):
        K = rng.randint(1, 6)
        cfg = campaign.rand_cfg(rng, mode=0, req_mode=None, ack_limit=K + rng.randint(1, 3), nak_limit=K + rng.randint(1, 3))
        size = rng.choice(campaign.SIZES)
        yield SysCase(cfg, bytes(rng.getrandbits(8) for _ in range(size)),
                      campaign.rand_faults(rng, K, ("drop", "dup", "delay"), span=12), extra_sm=rng.choice([0, 0, 1]),
                      max_rounds=400, tag="c03")


# ------------------------------------------------------------------ C11: isolation
def normalise_trace(sides, seq_of):
    """Observable behaviour of a transaction up to its sequence number and the absolute clock."""
    out = []
    for kind, ops, obs in sides:
        tr = hcommon.Trace(kind, ops, obs)
        for st in tr.steps:
            ev = [tuple(_nseq(e, seq_of)) for e in st.ob["events"]]
            ex = st.ob["extra"]
            if st.tag == 2 and st.ob["ret"] == 1:
                ints = list(ex[1:1 + ex[0]])
                ints[8] = 0 if ints[8] == seq_of else ints[8]       # header seq
                ex = [ex[0]] + ints + list(ex[1 + ex[0]:])
            out.append((kind, st.tag, st.ob["exc"], st.ob["ret"], tuple(ev), tuple(ex)))
    return out


def _nseq(e, seq_of):
    e = list(e)
    if len(e) > 2 and e[2] == seq_of:
        e[2] = 0
    return e


class IsolationCase:
    """The same follow-up transaction (a) on fresh handlers, (b) on handlers with a history, (c) next to siblings
    that are in the middle of other transactions."""

    def __init__(self, cfg: Cfg, history, follow_data, follow_faults, seed, hist_req=None, follow_req=(None, None)):
        self.cfg, self.history, self.follow_data, self.follow_faults, self.seed = cfg, history, follow_data, follow_faults, seed
        self.hist_req = hist_req or [(None, None)] * len(history)     # request-level (mode, closure) of each earlier transaction
        self.follow_req = follow_req

    def describe(self):
        return {"history": list(zip(self.history, self.hist_req)), "follow_req": self.follow_req,
                "follow_size": len(self.follow_data), "mode": campaign.eff_mode(self.cfg),
                "imm_nak": self.cfg.imm_nak, "faults": [(f.direction, f.index, f.kind, f.arg) for f in self.follow_faults]}

    def _follow(self, w, start_ops):
        s0, d0 = len(w.src.ops), len(w.dst.ops)
        t0 = VClock.now
        w.cfg.req_mode, w.cfg.req_closure = self.follow_req
        start_transfer(w, self.follow_data)
        r = Runner(w, self.follow_faults, max_rounds=200)
        r.run()
        seq = None
        for _, e in w.src.events:
            if e[0] == 1:
                seq = e[2]
        sides = [("source", [w.src.ops[0]] + w.src.ops[s0:], [w.src.obs[0]] + w.src.obs[s0:]),
                 ("dest", [w.dst.ops[0]] + w.dst.ops[d0:], [w.dst.obs[0]] + w.dst.obs[d0:])]
        return normalise_trace(sides, seq), dest_file_bytes(w)

    def run(self):
        rng = random.Random(self.seed)
        cfg = self.cfg
        # (a) fresh
        w = World(cfg, "c11a")
        try:
            ref, ref_file = self._follow(w, None)
        finally:
            w.close()
        # (b) after a history on the same handler objects
        w = World(cfg, "c11b")
        self.sides = []
        try:
            for kind, (hm, hc_) in zip(self.history, self.hist_req):
                data = bytes(rng.getrandbits(8) for _ in range(rng.choice([0, 5, 9])))
                w.cfg.req_mode, w.cfg.req_closure = hm, hc_
                start_transfer(w, data)
                r = Runner(w, [], max_rounds=200)
                if kind == "completed":
                    r.run()
                elif kind == "lossy":
                    r.faults = {(f.direction, f.index): f for f in [Fault("s2d", 2, "drop"), Fault("s2d", 0, "delay", 2)]}
                    r.run()
                elif kind == "cancel_src":
                    r.step_round(); r.step_round()
                    t = w.src.h.transaction_id
                    if t is not None:
                        w.src.cancel(t.source_id.value, t.seq_num.value); r._note_done(w.src); r._drain(w.src)
                    r.run()
                elif kind == "cancel_dst":
                    r.step_round(); r.step_round()
                    t = w.dst.h.transaction_id
                    if t is not None:
                        w.dst.cancel(t.source_id.value, t.seq_num.value); r._note_done(w.dst); r._drain(w.dst)
                    r.run()
                elif kind == "reset_queued":
                    # the user resets both handlers in the middle of the transaction while PDUs they produced are still
                    # unretrieved (the receiver has just been handed what the link holds, the sender has just been called)
                    for _ in range(rng.choice([0, 1, 2])):
                        r.step_round()
                    stop = False
                    for _ in range(12):
                        w.src.sm(None)
                        r._drain(w.src)
                        pend = list(w.link_s2d)
                        w.link_s2d.clear()
                        for raw in pend:
                            w.dst.sm(codec.parse(raw))          # Side.sm records an exception, it does not raise
                            if w.dst.h.packets_ready and rng.random() < 0.7:
                                stop = True                     # an ACK / NAK / Finished PDU is waiting to be retrieved
                                break
                            r._drain(w.dst)
                        if stop or w.src.h.state.value == 0:
                            break
                        pend = list(w.link_d2s)
                        w.link_d2s.clear()
                        for raw in pend:
                            w.src.sm(codec.parse(raw))
                        if w.src.h.packets_ready and rng.random() < 0.3:
                            break
                    w.src.reset(); w.dst.reset()
                elif kind == "abandoned":
                    # peer silent: limits run out, both sides abandon / cancel
                    r.step_round(); r.step_round(); r.step_round()
                    for _ in range(6 * (cfg.ack_limit + cfg.nak_limit) + 8):
                        w.link_s2d.clear(); w.link_d2s.clear()
                        r.step_round()
                        w.link_s2d.clear(); w.link_d2s.clear()
                        w.advance(1000)
                        if w.src.h.state.value == 0 and w.dst.h.state.value == 0:
                            break
                if w.src.h.state.value != 0:
                    w.src.reset()
                if w.dst.h.state.value != 0:
                    w.dst.reset()
                while w.src.get() is not None:
                    pass
                while w.dst.get() is not None:
                    pass
                w.link_s2d.clear(); w.link_d2s.clear()
            w.advance(rng.choice([0, 3000, 20000]))      # stale timers of earlier transactions would have expired by now
            # the destination file of the follow-up must start from the same filestore state as in (a)
            p = w.pm.to_path(cfg.dst_path)
            if p.exists():
                p.unlink()
            w.dst.fs_op([7, 2] + codec.enc_path(cfg.dst_path))
            got, got_file = self._follow(w, None)
            self.sides = [("source", w.src.ops, w.src.obs), ("dest", w.dst.ops, w.dst.obs)]
        finally:
            w.close()
        self.diff_history = _first_diff(ref, got)
        self.file_ok = ref_file == got_file
        # (c) siblings mid-transaction in the same process
        sib_cfg = Cfg(mode=0, max_seg=2, imm_nak=False, ack_limit=5, nak_limit=5)
        sib = World(sib_cfg, "c11s")
        try:
            start_transfer(sib, bytes(range(11)))
            rs = Runner(sib, [Fault("s2d", 1, "drop"), Fault("s2d", 3, "drop")], max_rounds=50)
            for _ in range(7):
                rs.step_round()                        # sibling receiver now tracks lost segments / has timers running
            w = World(cfg, "c11c", reset_clock=False)
            try:
                t_before = VClock.now
                got2, got2_file = self._follow(w, None)
                self.sides += [("source", w.src.ops, w.src.obs), ("dest", w.dst.ops, w.dst.obs)]
            finally:
                w.close()
        finally:
            sib.close()
        self.diff_sibling = _first_diff(ref, got2)
        self.file_ok = self.file_ok and ref_file == got2_file
        return self


def _first_diff(a, b):
    for i, (x, y) in enumerate(zip(a, b)):
        if x != y:
            return {"index": i, "fresh": _short(x), "other": _short(y)}
    if len(a) != len(b):
        return {"index": min(len(a), len(b)), "fresh_len": len(a), "other_len": len(b)}
    return None


def _short(x):
    return str(x)[:300]


def c11_cases(tier, rng):
    kinds = ["completed", "lossy", "cancel_src", "cancel_dst", "abandoned", "reset_queued"]
    n = 80 if tier == "quick" else 5000
    for i in range(n):
        mode = rng.choice([0, 0, 1])
        cfg = campaign.rand_cfg(rng, mode=mode, req_mode=None, ack_ms=1000, nak_ms=1000, check_ms=1000,
                                ack_limit=rng.choice([1, 2]), nak_limit=rng.choice([1, 2]))
        hist = [rng.choice(kinds) for _ in range(rng.choice([1, 1, 2, 3]))]
        if i < len(kinds):
            hist = [kinds[i]]
        follow = bytes(rng.getrandbits(8) for _ in range(rng.choice([0, 0, 3, 8, 9])))
        hist_req = [(rng.choice([None, 0, 1]), rng.choice([None, True, False])) for _ in hist]
        follow_req = (rng.choice([None, 0, 1]), rng.choice([None, True, False]))
        fmode = follow_req[0] if follow_req[0] is not None else mode
        ff = campaign.rand_faults(rng, rng.choice([0, 0, 1]), ("drop", "delay"), span=6) if fmode == 0 else []
        yield IsolationCase(cfg, hist, follow, ff, rng.getrandbits(32), hist_req, follow_req)


# ------------------------------------------------------------------ C16: everything through the virtual filestore
class HostAudit:
    """Records host file-system access made from frames inside cfdppy/handler/ while active."""

    def __init__(self):
        self.hits = []
        self._orig = {}

    def _wrap(self, mod, name):
        orig = getattr(mod, name)
        self._orig[(mod, name)] = orig
        audit = self

        def wrapper(*a, **kw):
            import sys
            f = sys._getframe(1)
            depth = 0
            while f is not None and depth < 12:
                fn = f.f_code.co_filename
                if "/cfdppy/handler/" in fn:
                    audit.hits.append((name, str(a[0])[:120] if a else "", fn.rsplit("/", 1)[-1], f.f_lineno))
                    break
                if "/cfdppy/filestore.py" in fn or "/harness/" in fn:
                    break
                f = f.f_back
                depth += 1
            return orig(*a, **kw)
        setattr(mod, name, wrapper)

    def __enter__(self):
        self._wrap(builtins, "open")
        for n in ("stat", "lstat", "remove", "unlink", "rename", "replace", "mkdir", "rmdir", "access", "listdir", "scandir", "truncate"):
            if hasattr(os, n):
                self._wrap(os, n)
        return self

    def __exit__(self, *exc):
        for (mod, name), orig in self._orig.items():
            setattr(mod, name, orig)


def c16_cases(tier, rng):
    n = 60 if tier == "quick" else 4000
    for _ in range(n):
        cfg = campaign.rand_cfg(rng)
        size = rng.choice(campaign.SIZES)
        data = bytes(rng.getrandbits(8) for _ in range(size))
        nf = rng.choice([0, 0, 1, 2]) if campaign.eff_mode(cfg) == 0 else rng.choice([0, 0, 1])
        faults = campaign.rand_faults(rng, nf, ("drop", "dup", "delay"), span=10)
        yield cfg, data, faults, rng.choice([0, 0, 1])


def run_c16_case(cfg, data, faults, extra_sm):
    """native vs in-memory vs in-memory-with-decoys: same observable traces, no host access from the handlers."""
    out = {}
    for vfs in ("native", "mem", "decoy"):
        c = SysCase(cfg, data, faults, extra_sm=extra_sm, vfs=vfs, tag="c16" + vfs[0])
        if vfs == "native":
            c.run()
            audit_hits = []
        else:
            with HostAudit() as au:
                c.run()
            audit_hits = au.hits
        seq = None
        for e in c.src_events:
            if e[0] == 1:
                seq = e[2]
        out[vfs] = (c, normalise_trace(c.sides, -12345), audit_hits)
    return out


# ------------------------------------------------------------------ System.v versus the Python scheduler + real handlers
def system_model_ops(case: SysCase):
    if getattr(case, "cancel", None) is not None:
        return None
    """Int coding of a finished SysCase for Run.run_system, or None when the case uses something System.v does not model
    (extra empty calls, bit flips, write rejection, prepared destination, metadata-only)."""
    cfg = case.cfg
    if case.extra_sm or case.reject_round is not None or case.dst_is_dir or case.dst_exists or case.vfs != "native" \
            or cfg.metadata_only or case.data is None or any(f.kind not in ("drop", "dup", "delay") for f in case.faults):
        return None
    w = case.world
    put = next((o for o in w.src.ops if o and o[0] == 8), None)
    if put is None:
        return None
    kind_code = {"drop": 0, "dup": 1, "delay": 2}
    fts = []
    for f in case.faults:
        fts += [0 if f.direction == "s2d" else 1, f.index, kind_code[f.kind], f.arg]
    tick = min([cfg.ack_ms, cfg.nak_ms, cfg.check_ms] + [v for k, v in (cfg.dst_over or {}).items() if k.endswith("_ms")])
    return [list(w.src.ops[0]), list(w.dst.ops[0]), list(put),
            codec.enc_path(cfg.src_path) + [len(case.data)] + list(case.data),
            [len(case.faults)] + fts, [case.max_rounds, tick], codec.enc_path(resolved_dest(cfg, False))]


def system_impl_obs(case: SysCase):
    """What run_system reports, read off the finished Python run."""
    r = case.runner

    def evs(events):
        out = [len(events)]
        for e in events:
            out += codec.enc_event(e)
        return out
    data = case.dest_bytes
    return [[1 if case.quiescent else 0, r.round, case.now],
            [x for side, exc, _ in case.api_exc for x in (0 if side == "source" else 1, exc)],
            evs(case.src_events), evs(case.dst_events),
            [0, 0, 0] if data is None else [1, 0, len(data)] + list(data),
            [r.count["s2d"], r.count["d2s"]]]


def system_correspondence(hc, cases, theorem):
    """Compare System.v (both handler models + the scheduler model) with the Python scheduler driving the real handlers
    on the same configurations, files and fault schedules: outcome, rounds, clock, raised API errors, both event logs,
    destination file, PDU counts."""
    from harness import common
    sel = [(c, system_model_ops(c)) for c in cases]
    sel = [(c, o) for c, o in sel if o is not None]
    if not sel:
        return 0
    model = common.run_model("system", [o for _, o in sel])
    n = 0
    for (c, ops), mo in zip(sel, model):
        n += 1
        io = system_impl_obs(c)
        if mo != io:
            first = next((i for i, (a, b) in enumerate(zip(mo, io)) if a != b), None)
            names = ["outcome/rounds/clock", "API errors", "sender events", "receiver events", "destination file", "PDU counts"]
            hc.v.violation("correspondence: System.v and the Python scheduler with the real handlers differ on " +
                           (names[first] if first is not None and first < len(names) else "the shape of the result"),
                           {"theorem": theorem, "ops": ops, "model": mo[:6], "impl": io[:6], "case": c.describe()}, has_input=False)
            if len(hc.v.violations) > 3:
                break
    return n
