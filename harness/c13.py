"""C13 — Unacknowledged transfers tolerate EOF overtaking file data up to the check limit."""
from harness import dstprops, hcommon, hprop_run

PROP = "C13"
EXTRA_PROPS = ("C13b", "C13c")     # closed form: Check Limit Reached exactly at the L-th expiry, any L; history level: late data between expiries


def proj(kind, d):
    return (d["exc"], tuple(d["events"]), tuple(d["extra"]), d["fields"].get("step"), d["fields"].get("check_count"))


def both_cases(tier, rng):
    yield from dstprops.c13_cases(tier, rng)
    yield from dstprops.c13_sender_cases(tier, rng)
    yield from dstprops.c13_collision_cases(tier, rng)


def both_oracles(tr):
    if tr.kind == "dest":
        dstprops.oracle_c13(tr)
    else:
        dstprops.oracle_c13_sender(tr)


def run(tier, seed):
    return hprop_run.run_generic(PROP, tier, seed, both_cases, both_oracles, proj,
        "every subset of late File Data PDUs of files with <= 3 segments x arrival slot relative to the check-timer expiries "
        "(all slots in thorough, sampled in quick) x check limit 1..3 x closure x CRC-32/CRC-32C; sender clause: unacknowledged puts with closure, "
        "1-3 transactions on one sender, Finished PDU never / before the expiry, idle gaps, clock in quarter intervals; files whose "
        "received prefix has the same CRC as the whole file (constructed collisions); distinct = (config class, "
        "visited (step, op, exception) set)", theorem="c13_* (correspondence dest)", label="late data schedule", extra_gate=EXTRA_PROPS)


def replay(path):
    return hprop_run.replay_generic(PROP, path, both_oracles)
