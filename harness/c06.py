"""C06 — NAKs request exactly what is missing."""
from harness import dstprops, hcommon, hprop_run

PROP = "C06"
EXTRA_PROPS = ("C06b", "C06c")     # history level: the tracker denotes exactly the missing bytes, any arrival order of tiles


def proj(kind, d):
    return (d["exc"], tuple(d["extra"]), tuple(d["tracker"]), d["fields"].get("deferred_active"), d["fields"].get("metadata_missing"))


def cases(tier, rng):
    from harness.transfer import Cfg
    # files beyond 4 GiB: 64-bit offsets, 16-byte segment requests, packet lengths that hold exactly 1 / 2 / 3 of them
    for imm in (False, True):
        for nreq in (1, 2, 3):
            for idw in (1, 2):
                cfg = Cfg(mode=0, imm_nak=imm, src_idw=idw, dst_idw=idw, seqw=2, crc=rng.random() < 0.3, nak_limit=5, nak_ms=1000)
                hdr = 4 + 2 * idw + 2
                cfg.max_packet = hdr + 1 + 16 + (2 if cfg.crc else 0) + 16 * nreq
                yield dstprops.LargeFileCase(cfg, [2 ** 32 + 1024, 2 ** 32 + 4096, 2 ** 32 + 8192][:rng.choice([2, 3])])
    # two sending entities with different packet lengths in the receiver's table
    for big, small_n in ((200, 1), (200, 2), (120, 3)):
        cfg = Cfg(mode=0, imm_nak=False, src_idw=2, dst_idw=2, seqw=2, max_seg=2, nak_limit=5, nak_ms=1000, max_packet=big, cktype=3)
        cfg.dst_alt_remote = {"id": 7, "max_packet": 4 + 4 + 2 + 1 + 8 + 8 * small_n}
        yield dstprops.TwoSendersCase(cfg)
    for _ in range(400 if tier == "quick" else 30000):
        yield dstprops.c06_case(rng)


def run(tier, seed):
    return hprop_run.run_generic(PROP, tier, seed, cases, dstprops.oracle_c06, proj,
        "acknowledged-mode destinations fed the grid segments of a file in random order with losses and duplicates, Metadata "
        "and EOF at any position, NAK timer expiries in between, immediate and deferred NAK mode, packet lengths allowing "
        "1/2/3/many requests per NAK PDU; distinct = (config class, visited (step, op, exception) set)",
        theorem="c06_* (correspondence dest: NAK PDUs + tracker)", label="grid arrivals", extra_gate=EXTRA_PROPS)


def replay(path):
    return hprop_run.replay_generic(PROP, path, dstprops.oracle_c06)
