"""Trace-level oracles for C10 (exceptions), C12 (cancellation), C14 (fault dispatch), C15 (indications)."""
from __future__ import annotations

from harness import c09, codec, hcommon, srcprops
from harness.dstprops import ADMISSION_EXC, step_after_advancement, walk_dest
from harness.hcommon import Failure, Trace

LIB = set(range(1, 14))
SRC_ADMISSION_EXC = {2, 3, 4, 5, 7, 9, 11}
INTERNAL_NAMES = {101: "AssertionError", 102: "ValueError", 103: "TypeError", 104: "AttributeError", 105: "KeyError",
                  199: "unexpected exception class"}


def _drained_after(tr, k, need_complete=False):
    """PDUs retrieved after the call at index k until the next call.  With need_complete: None unless the queue was
    retrieved completely (so that 'nothing was emitted' can be told from 'nothing was retrieved')."""
    out = []
    j = k + 1
    complete = tr.steps[k].ob["fields"]["qlen"] == 0
    while j < len(tr.steps) and tr.steps[j].tag not in (0, 1, 3, 4, 8):
        if tr.steps[j].tag == 2:
            if tr.steps[j].ob["ret"] == 1:
                out.append(codec.dec_got(tr.steps[j].ob["extra"])[0])
            if tr.steps[j].ob["fields"]["qlen"] == 0:
                complete = True
        j += 1
    if need_complete and not complete:
        return None
    return out


# ------------------------------------------------------------------ C10
def oracle_c10(tr: Trace):
    adm = ADMISSION_EXC if tr.kind == "dest" else SRC_ADMISSION_EXC
    file_tampered = False
    rejecting = False
    write_refused = False       # the filestore refused a File Data write of the running transaction
    for st in tr.steps:
        if st.tag == 7 and st.op[1] == 2:
            file_tampered = True        # the environment deleted a file: outside the property's histories
        if st.tag == 6:
            rejecting = bool(st.op[1])
        if st.ob["fields"]["state"] == 0 and st.tag != 0:
            write_refused = False
        if tr.kind == "dest" and rejecting and st.tag == 0 and st.pdu is not None and st.pdu["kind"] == codec.K_FD:
            write_refused = True
        e = st.ob["exc"]
        if st.tag == 2 and not e and st.prev is not None:
            # the public counter of PDUs ready to be sent agrees with what get_next_packet() hands out
            nr = st.prev["fields"]["num_ready"]
            if tr.kind == "source" and ((st.ob["ret"] == 0 and nr > 0) or (st.ob["ret"] == 1 and nr <= 0)):
                raise Failure(f"C10 [fixed finding F28 is back] source ready counter out of sync with the PDU queue: {nr} reported ready, get_next_packet() "
                              f"returned {'a PDU' if st.ob['ret'] else 'nothing'} (op {st.i})")
            if st.ob["ret"] == 0 and nr > 0:
                raise Failure(f"C10 the handler reports {nr} packet(s) ready but get_next_packet() returned nothing: its state is "
                              f"inconsistent, later calls raise 'unretrieved PDUs' without a queued PDU (op {st.i})")
            if st.ob["ret"] == 1 and nr <= 0:
                raise Failure(f"C10 get_next_packet() returned a PDU while the handler reported none ready (op {st.i})")
        if not e:
            continue
        if st.tag in (5, 6, 7, 10):
            continue
        if e == 102 and write_refused:
            # C10 quantifies over PDUs, API calls and time steps, not over a filestore that refuses writes: a refused write is
            # swallowed after the lost-segment bookkeeping was done and leaves it inconsistent with the progress (DESIGN 14/15)
            continue
        if e in INTERNAL_NAMES:
            what = "C10 [fixed finding F9 is back] tracker ValueError on File Data straddling a lost range" if (
                tr.kind == "dest" and e == 102 and st.pdu is not None and st.pdu["kind"] == codec.K_FD) else \
                f"C10 internal error {INTERNAL_NAMES[e]} leaked from the {tr.kind} handler"
            raise Failure(f"{what} (op {st.i}, call tag {st.tag}, step before "
                          f"{st.prev['fields']['step'] if st.prev else 0})")
        if e >= 200 and not file_tampered:
            name = {201: "FileNotFoundError", 202: "IsADirectoryError", 204: "PermissionError"}.get(e, str(e))
            if not (tr.kind == "dest" and e in (201, 202)):
                raise Failure(f"C10 OS error {name} leaked from the {tr.kind} handler (op {st.i})")
        if e == 1:
            if st.prev is None or st.prev["fields"]["qlen"] == 0:
                if tr.kind == "source" and st.prev is not None and st.prev["fields"]["num_ready"] > 0:
                    raise Failure(f"C10 [fixed finding F28 is back] source ready counter out of sync with the PDU queue: 'unretrieved PDUs' raised with an empty "
                                  f"queue (op {st.i})")
                raise Failure(f"C10 'unretrieved PDUs' raised although no PDU was queued when the call was made (op {st.i})")
        if st.tag == 0 and e in adm and st.prev is not None:
            a = {k: v for k, v in st.prev["fields"].items() if k not in ("exc", "ret")}
            b = {k: v for k, v in st.ob["fields"].items() if k not in ("exc", "ret")}
            if a != b or st.ob["events"] or st.prev["tracker"] != st.ob["tracker"]:
                diff = {k: (a[k], b[k]) for k in a if a[k] != b[k]}
                raise Failure(f"C10 PDU rejected by the admission checks (exception {e}) changed the handler: {diff} (op {st.i})")


# ------------------------------------------------------------------ C12
def oracle_c12(tr: Trace):
    remote = tr.cfg["remotes"][0] if tr.cfg["remotes"] else None
    for k, st in enumerate(tr.steps):
        f = st.ob["fields"]
        if tr.kind == "dest" and st.tag == 2 and st.ob["ret"] == 1 and remote is not None:
            # whatever the indication switches say: the Finished PDU of a cancelled, incomplete reception reports the file as
            # discarded deliberately exactly when disposition-on-cancellation is configured (and the file then is gone)
            g = codec.dec_got(st.ob["extra"])[0]
            if g["kind"] == codec.K_FIN and g["cond"] != 0 and g["deliv"] == 1 and g["fstatus"] in (0, 2):
                if (g["fstatus"] == 0) != bool(remote["disposition"]):
                    raise Failure(f"C12 Finished PDU of a cancelled incomplete reception (condition {g['cond']}) reports file status "
                                  f"{g['fstatus']} although disposition-on-cancellation is {bool(remote['disposition'])} (op {st.i})")
        if st.tag == 3 and st.prev is not None:
            pf = st.prev["fields"]
            if st.ob["exc"] == 1:
                continue
            active = pf["state"] == 1 and (pf["tid_src"], pf["tid_seq"]) == (st.op[1], st.op[2]) and pf["tid_src"] >= 0
            if st.ob["exc"] == 0 and bool(st.ob["ret"]) != active:
                raise Failure(f"C12 cancel request returned {bool(st.ob['ret'])}; an active transaction with the given id "
                              f"{'exists' if active else 'does not exist'} (op {st.i})")
            if st.ob["exc"] == 0 and not st.ob["ret"]:
                a = {x: v for x, v in pf.items() if x not in ("exc", "ret")}
                b = {x: v for x, v in f.items() if x not in ("exc", "ret")}
                if a != b:
                    raise Failure(f"C12 unsuccessful cancel request changed the handler (op {st.i})")
            if st.ob["exc"] == 0 and st.ob["ret"] and tr.kind == "source":
                _check_source_cancel(tr, k, st, pf, remote)
            if st.ob["exc"] == 0 and st.ob["ret"] and tr.kind == "dest":
                _check_dest_cancel(tr, k, st, pf, remote)
        eof_cancel = tr.kind == "dest" and st.tag == 0 and st.pdu["kind"] == codec.K_EOF and st.pdu["cond"] != 0 and st.ob["exc"] == 0
        # in every step before the completion: waiting for Metadata, receiving, check-limit handling after an EOF (no
        # error), waiting for missing data after an EOF (no error) [F33]
        busy_receiving = eof_cancel and st.prev is not None and st.prev["fields"]["state"] == 1 and st.prev["fields"]["qlen"] == 0 \
            and step_after_advancement(st.prev) in (2, 3, 4, 6) and st.prev["fields"]["disposition"] != 1
        # ... or as the very first PDU of its transaction (Metadata and data lost; acknowledged mode only, an unacknowledged
        # receiver refuses a first PDU that is not Metadata)
        first_pdu = eof_cancel and (st.prev is None or st.prev["fields"]["state"] == 0) and st.pdu["mode"] == 0 \
            and st.ob["fields"]["state"] == 1
        if busy_receiving and any(e[0] in (11, 14) and e[3] == 7 for e in st.ob["events"]):
            # the advancement that every call starts with found the NAK limit reached and cancelled / abandoned the transaction
            # before the PDU of the call was looked at: two cancellations meet, the property does not say which one wins
            busy_receiving = False
        if busy_receiving or first_pdu:
            # EOF (cancel) while still receiving: finishes with the EOF's condition, sender as fault location, incomplete
            fins = [e for e in st.ob["events"] if e[0] == 3]
            got = _drained_after(tr, k)
            nxt = fins
            j = k + 1
            while not nxt and j < len(tr.steps) and tr.steps[j].tag not in (3, 4):
                if tr.steps[j].tag == 0 and tr.steps[j].pdu["kind"] == codec.K_ACK:
                    break
                nxt = [e for e in tr.steps[j].ob["events"] if e[0] == 3]
                if tr.steps[j].ob["fields"]["state"] == 0 or any(e[0] in (11, 14) for e in tr.steps[j].ob["events"]):
                    break
                j += 1
            if tr.cfg["ind"][3] and nxt:
                e = nxt[0]
                if remote is None:
                    continue
                if (e[3], e[4], e[6]) != (st.pdu["cond"], 1, remote["id"]):
                    raise Failure(f"C12 EOF (cancel, condition {st.pdu['cond']}) finished with {e[3:7]} instead of that condition, "
                                  f"incomplete data, fault location = sender {remote['id']} (op {st.i})")
                if (e[5] == 0) != bool(remote["disposition"]):
                    raise Failure(f"C12 cancelled reception: file status {e[5]} but disposition-on-cancellation is "
                                  f"{bool(remote['disposition'])} (op {st.i})")


def _check_source_cancel(tr, k, st, pf, remote):
    got = _drained_after(tr, k, need_complete=True)
    if got is None:
        return
    # the environment removed the source file mid-transfer: the checksum clause below is outside the property's histories
    # then; what was SENT is still a fact of the PDU stream
    file_gone = any(s.tag == 7 and s.op[1] == 2 for s in tr.steps[:k]) or any(s.tag == 3 and s.ob["exc"] >= 200 for s in tr.steps[:k])
    # a cancel during an EOF (cancel) exchange of THIS transaction abandons (C04/C14): judged from the PDUs emitted
    # since the transaction's put request, not from the handler's own bookkeeping
    for s in reversed(tr.steps[:k]):
        if s.tag == 8 and s.ob["ret"] == 1:
            break
        if s.tag == 2 and s.ob["ret"] == 1:
            g = codec.dec_got(s.ob["extra"])[0]
            if g["kind"] == codec.K_EOF and g["cond"] != 0:
                return
    # PDUs that were still queued (not yet retrieved) when the cancel was requested come out first; they were
    # produced before the cancel and are not what the property speaks about
    queued_before = pf.get("qlen", 0)
    if len(got) <= queued_before and queued_before:
        return
    got = got[queued_before:]
    if file_gone and (not got or got[0]["kind"] != codec.K_EOF):
        return
    if not got or got[0]["kind"] != codec.K_EOF:
        raise Failure(f"C12 the next PDU after a successful sender cancel is not an EOF: {[g['kind'] for g in got]} (op {st.i})")
    e = got[0]
    if e["cond"] != 15 or (e["fsize"] != pf["progress"] and not file_gone):
        raise Failure(f"C12 EOF after cancel has condition {e['cond']} size {e['fsize']}; expected Cancel Request Received, "
                      f"size = bytes sent = {pf['progress']} (op {st.i})")
    # the same judged from the PDU stream alone: the file bytes sent are those of the File Data PDUs emitted since the put
    # (unless the environment rewrote or removed files underneath the running transaction)
    sent = 0
    env_touched = False
    for s in reversed(tr.steps[:k]):
        if s.tag == 8 and s.ob["ret"] == 1:
            break
        if s.tag == 7 and s.op[1] != 2:
            # rewritten: with other content, unless it is put back as it was (a file that is merely missing sends nothing)
            put_step = next((x for x in reversed(tr.steps[:k]) if x.tag == 8 and x.ob["ret"] == 1), None)
            before = srcprops.files_of(tr, put_step.i) if put_step is not None else {}
            comps, i = codec.take_path(s.op, 2)
            if s.op[1] != 1 or before.get(tuple(comps)) != bytes(s.op[i + 1:i + 1 + s.op[i]]):
                env_touched = True
        if s.tag in (0, 1) and s.ob["exc"] == 1:
            continue
        if s.tag == 2 and s.ob["ret"] == 1:
            g = codec.dec_got(s.ob["extra"])[0]
            if g["kind"] == codec.K_FD:
                sent = max(sent, g["offset"] + len(g["data"]))
    for g in _drained_after(tr, k, need_complete=True)[:queued_before]:
        if g["kind"] == codec.K_FD:
            sent = max(sent, g["offset"] + len(g["data"]))
    if e["fsize"] != sent and not env_touched:
        raise Failure(f"C12 EOF after cancel states file size {e['fsize']} but the File Data PDUs emitted for this transaction "
                      f"cover {sent} bytes (op {st.i})")
    if file_gone:
        return
    put = next((srcprops.dec_put(s.op[1:]) for s in reversed(tr.steps[:k]) if s.tag == 8 and s.ob["ret"] == 1), None)
    if put and put["src"] is not None and remote["cktype"] in (0, 2, 3, 15):
        data = srcprops.files_of(tr, st.i).get(put["src"])
        if data is not None and e["cksum"] != c09.expected(remote["cktype"], data[:pf["progress"]]):
            raise Failure(f"C12 EOF after cancel: checksum {e['cksum'].hex()} does not cover exactly the {pf['progress']} bytes sent (op {st.i})")
    # no further new file data
    after_nak = False
    for s in tr.steps[k + 1:]:
        if s.tag == 8 and s.ob["ret"] == 1:
            break
        if s.tag == 0 and s.pdu["kind"] == codec.K_NAK:
            after_nak = True
        if s.tag == 1:
            after_nak = False if not after_nak else after_nak
        if s.tag == 2 and s.ob["ret"] == 1:
            g = codec.dec_got(s.ob["extra"])[0]
            if g["kind"] == codec.K_FD and g["offset"] + len(g["data"]) > pf["progress"]:
                raise Failure(f"C12 new file data (offset {g['offset']}, {len(g['data'])} bytes) emitted after the cancel at progress "
                              f"{pf['progress']} (op {s.i})")


def _check_dest_cancel(tr, k, st, pf, remote):
    # the next state-machine call signals it
    j = k + 1
    while j < len(tr.steps) and tr.steps[j].tag not in (0, 1):
        if tr.steps[j].tag in (3, 4):
            return
        j += 1
    if j >= len(tr.steps) or tr.steps[j].ob["exc"]:
        return
    nx = tr.steps[j]
    fins = [e for e in nx.ob["events"] if e[0] == 3]
    if tr.cfg["ind"][3]:
        if not fins or fins[0][3] != 15:
            raise Failure(f"C12 receiver cancel: next call issued no Transaction-Finished with Cancel Request Received: {fins} (op {nx.i})")
        if (fins[0][5] == 0) != (bool(remote["disposition"]) and fins[0][4] == 1):
            raise Failure(f"C12 receiver cancel: file status {fins[0][5]}, disposition {bool(remote['disposition'])}, delivery {fins[0][4]} (op {nx.i})")
    got = _drained_after(tr, j, need_complete=True)
    if got is None:
        return
    finp = [g for g in got if g["kind"] == codec.K_FIN]
    mode = pf_mode(tr, k)
    need = mode == 0 or (mode == 1 and pf["closure"])
    if need:
        if not finp or finp[0]["cond"] != 15 or finp[0]["fl"] is None or finp[0]["fl"][0] != tr.cfg["local_id"]:
            raise Failure(f"C12 receiver cancel (closure/acknowledged): no Finished PDU with Cancel Request Received and the local "
                          f"entity as fault location: {finp} (op {nx.i})")
    elif finp:
        raise Failure(f"C12 receiver cancel without closure in unacknowledged mode emitted a Finished PDU (op {nx.i})")


def pf_mode(tr, k):
    """transmission mode of the running destination transaction = mode of the PDU that started it"""
    for s in reversed(tr.steps[:k + 1]):
        if s.tag == 0 and s.ob["exc"] == 0 and s.prev is not None and s.prev["fields"]["state"] == 0:
            return s.pdu["mode"]
        if s.tag == 0 and s.ob["exc"] == 0 and s.prev is None:
            return s.pdu["mode"]
    return None


# ------------------------------------------------------------------ C14
def oracle_c14(tr: Trace):
    table = tr.cfg["faults"]
    cancelled = None        # id of the running transaction once a notice-of-cancellation callback was delivered for it
    clock = 0
    ignored_at = {}         # limit condition -> clock value of the call that declared it with the IGNORE handler
    for k, st in enumerate(tr.steps):
        # an IGNOREd limit fault lets the procedure carry on (counter, timer): a following call that finds no new expiry
        # (the clock has not moved) does not declare it again  [F22: NAK limit; F34: check limit, sender's ACK / check limit]
        if st.tag == 5:
            clock += st.op[1]
        if st.tag in (4, 8) or st.ob["fields"]["state"] == 0:
            ignored_at = {}
        for e in st.ob["events"]:
            if e[0] == 13 and e[3] in (1, 7, 10):
                rem = tr.cfg["remotes"] or [{}]
                interval = {1: min(r.get("ack_ms", 0) for r in rem), 7: min(r.get("nak_ms", 0) for r in rem),
                            10: tr.cfg.get("check_ms", 0)}[e[3]]
                if e[3] in ignored_at and clock - ignored_at[e[3]] < interval:
                    raise Failure(f"C14 [fixed finding F34 is back] limit fault {e[3]} with handler IGNORE declared again "
                                  f"{clock - ignored_at[e[3]]} ms after the call that declared it (interval {interval} ms): the "
                                  f"ignored fault did not let the procedure carry on (op {st.i})")
                ignored_at[e[3]] = clock
        # "the callback is invoked once ... and the transaction then is cancelled": a cancelled transaction declares nothing
        # that is handled by a second notice of cancellation (faults during the cancel exchange abandon it)
        for e in st.ob["events"]:
            if e[0] == 11:
                if cancelled == (e[1], e[2]):
                    raise Failure(f"C14 a second notice-of-cancellation callback (condition {e[3]}) for transaction {cancelled} "
                                  f"which had already been cancelled: the first one did not cancel it (op {st.i})")
                cancelled = (e[1], e[2])
        if st.ob["fields"]["state"] == 0 or st.tag in (4, 8):
            cancelled = None
        if (st.tag == 7 and st.op[1] == 2) or (st.tag == 3 and st.ob["exc"] >= 200):
            return      # the environment removed a file mid-transfer: outside the property's histories from here on
        evs = st.ob["events"]
        for e in evs:
            if e[0] in (1, 2, 3, 4, 5, 6) and len(e) > 2 and (e[1] < 0 or e[2] < 0):
                raise Failure(f"C14 indication kind {e[0]} refers to a missing transaction id (op {st.i})")
        fe = [e for e in evs if 11 <= e[0] <= 14]
        if not fe:
            continue
        # an abandoned transaction is dropped silently: nothing else is reported by that call after the abandon callback
        ab = [j for j, e in enumerate(evs) if e[0] == 14]
        if ab and ab[0] != len(evs) - 1:
            raise Failure(f"C14 events {evs[ab[0] + 1:]} were issued after the abandon callback in the same call (op {st.i})")
        pf = st.prev["fields"] if st.prev else None
        seen = {}
        for e in fe:
            kind, src, seq, cond, progress = e
            if src < 0 or seq < 0:
                raise Failure(f"C14 fault callback without a transaction id (op {st.i})")
            code = table.get(cond)
            in_cancel_exchange = pf is not None and (
                (tr.kind == "source" and _cancel_eof_emitted_since_put(tr, k)) or
                (tr.kind == "dest" and pf["disposition"] == 1 and pf["step"] == 9))
            if kind == 14 and in_cancel_exchange:
                # abandonment of a cancellation exchange (CFDP 4.11.2.2.3 / 4.11.2.3.3).  At the sender it is still the table
                # that decides: the abandon callback with the EOF's condition comes from a second cancel request or from a
                # limit fault whose handler is the notice of cancellation; with IGNORE the exchange carries on, with ABANDON
                # the callback carries the limit condition itself
                acked_tx = next((codec.dec_got(x.ob["extra"])[0]["mode"] == 0 for x in reversed(tr.steps[:k])
                                 if x.tag == 2 and x.ob["ret"] == 1), False)
                if tr.kind == "source" and st.tag != 3 and cond not in (1, 10) and table.get(1) in (3, 4) and \
                        (acked_tx or table.get(10) in (3, 4, None)):
                    raise Failure(f"C14 the cancellation exchange was abandoned with condition {cond} although the table maps the "
                                  f"limit faults to handler code {table.get(1)}: the table did not decide the outcome (op {st.i})")
                continue
            if code is None:
                raise Failure(f"C14 callback for condition {cond} which is not in the fault handler table (op {st.i})")
            if kind != 10 + code:
                raise Failure(f"C14 condition {cond} is configured with handler code {code} but callback kind {kind - 10} fired (op {st.i})")
            if pf is not None and (src, seq) != (pf["tid_src"], pf["tid_seq"]) and pf["tid_src"] >= 0:
                raise Failure(f"C14 fault callback carries transaction id {(src, seq)}, running transaction is "
                              f"{(pf['tid_src'], pf['tid_seq'])} (op {st.i})")
            seen[cond] = seen.get(cond, 0) + 1
        for cond, n in seen.items():
            if n > 1:
                if cond == 5:
                    raise Failure(f"C14 Checksum Failure declared {n} times for one verification [fixed finding F15 is back] (op {st.i})")
                if cond == 7 and table.get(7) == 3:
                    raise Failure(f"C14 [fixed finding F22 is back] NAK Limit Reached with handler IGNORE declared {n} times by one call (op {st.i})")
                raise Failure(f"C14 condition {cond} reported {n} times by one call (op {st.i})")
        # effect of the configured handler
        f = st.ob["fields"]
        if 100 <= st.ob["exc"] < 200:      # OS errors of a filestore that refused the file and whose rejection is ignored: not judged
            raise Failure(f"C14 the call that declared fault(s) {[(e[3], e[0] - 10) for e in fe]} (condition, handler code) raised "
                          f"exception code {st.ob['exc']} instead of carrying out the configured handler (op {st.i})")
        for e in fe:
            kind, src, seq, cond, progress = e
            if kind == 14 and table.get(cond) == 4:
                if f["state"] != 0:
                    raise Failure(f"C14 abandon handler for condition {cond}: handler not idle afterwards (op {st.i})")
                if _drained_after(tr, k) and tr.kind == "source":
                    raise Failure(f"C14 abandon handler for condition {cond}: PDUs emitted afterwards (op {st.i})")
            if kind == 11 and table.get(cond) == 1 and tr.kind == "dest" and not (pf is not None and pf["disposition"] == 1):
                # notice of cancellation, judged from what the receiver emits (not from its own bookkeeping): from the next
                # call on nothing is requested any more, and the first Finished PDU reports this condition to the peer
                queued = f.get("qlen", 0)       # PDUs of this very call, possibly queued before the fault was declared
                over = f["state"] == 0 and queued == 0      # cancelled and completed in this very call: nothing follows
                for s2 in ([] if over else tr.steps[k + 1:]):
                    if s2.tag in (3, 4, 8) or (s2.tag == 7 and s2.op[1] == 2):
                        break
                    if s2.tag in (0, 1) and s2.ob["fields"]["state"] == 1 and \
                            (s2.ob["fields"]["tid_src"], s2.ob["fields"]["tid_seq"]) != (src, seq):
                        break       # the handler is busy with another transaction by now
                    if s2.tag in (0, 1) and any(x[0] == 14 for x in s2.ob["events"]):
                        break
                    if s2.tag == 2 and s2.ob["ret"] == 1:
                        g2 = codec.dec_got(s2.ob["extra"])[0]
                        queued -= 1
                        if g2["kind"] == codec.K_NAK and queued < 0:
                            raise Failure(f"C14 notice of cancellation for condition {cond} (op {st.i}) but the receiver went on "
                                          f"requesting data: NAK {g2['reqs']} (op {s2.i})")
                        if g2["kind"] == codec.K_FIN:
                            if g2["cond"] != cond:
                                raise Failure(f"C14 notice of cancellation for condition {cond} (op {st.i}): the Finished PDU "
                                              f"reports condition {g2['cond']} to the peer (op {s2.i})")
                            break
                    if s2.ob["fields"]["state"] == 0 and s2.ob["fields"].get("qlen", 0) == 0:
                        break
            if kind == 11 and cond in (1, 7, 10, 6, 4) and tr.kind == "dest" and f["state"] == 1:
                if f["fin_cond"] != cond and f["disposition"] == 1 and not any(x[0] == 11 and x[3] != cond for x in fe):
                    raise Failure(f"C14 notice of cancellation for condition {cond}: Finished parameters carry {f['fin_cond']} (op {st.i})")


def _cancel_eof_emitted_since_put(tr, k):
    """Was an EOF (cancel) PDU emitted by this transaction before step index k?  (Judged from the PDUs, not from the
    handler's own bookkeeping.)"""
    for s in reversed(tr.steps[:k]):
        if s.tag == 8 and s.ob["ret"] == 1:
            return False
        if s.tag == 2 and s.ob["ret"] == 1:
            g = codec.dec_got(s.ob["extra"])[0]
            if g["kind"] == codec.K_EOF and g["cond"] != 0:
                return True
    return False


def set_handler_refuses():
    """configuration API: conditions outside the table are refused, the table is unchanged"""
    from spacepackets.cfdp import ConditionCode, FaultHandlerCode
    from harness.transfer import RecFaults
    bad = []
    fh = RecFaults([])
    before = dict(fh._handler_dict)
    for c in ConditionCode:
        if c in before:
            fh2 = RecFaults([])
            fh2.set_handler(c, FaultHandlerCode.ABANDON_TRANSACTION)
            if fh2.get_fault_handler(c) != FaultHandlerCode.ABANDON_TRANSACTION:
                bad.append(f"set_handler({c!r}) did not take effect")
            continue
        try:
            fh.set_handler(c, FaultHandlerCode.IGNORE_ERROR)
            bad.append(f"set_handler accepted condition {c!r} outside the table")
        except ValueError:
            pass
        if dict(fh._handler_dict) != before:
            bad.append(f"refused set_handler({c!r}) changed the table")
    return bad


# ------------------------------------------------------------------ C15
def oracle_c15(tr: Trace):
    ind = tr.cfg["ind"]     # eof_sent, eof_recv, file_segment, transaction_finished
    gate = {2: ind[0], 6: ind[1], 5: ind[2], 3: ind[3]}
    if tr.kind == "source":
        _c15_source(tr, gate)
    else:
        _c15_dest(tr, gate)


def _c15_source(tr, gate):
    started = False
    cur_tid = None
    put = None
    received_fin = None
    for k, st in enumerate(tr.steps):
        evs = st.ob["events"]
        for e in evs:
            if e[0] in gate and not gate[e[0]]:
                raise Failure(f"C15 disabled indication kind {e[0]} delivered at the sender (op {st.i})")
        if (st.tag == 7 and st.op[1] == 2) or st.ob["exc"] >= 200:
            return      # the environment removed the source file under a running transaction: outside the property's histories
        if st.tag == 8 and st.ob["ret"] == 1:
            put = srcprops.dec_put(st.op[1:])
            started = False
            received_fin = None
        expects_fin = False
        if put is not None:
            rem = next((r for r in tr.cfg["remotes"] if r["id"] == put["dst"]), None)
            if rem is not None:
                m_ = put["mode"] if put["mode"] is not None else rem["mode"]
                c_ = put["closure"] if put["closure"] is not None else bool(rem["closure"])
                expects_fin = m_ == 0 or c_
        if st.tag == 0 and st.pdu["kind"] == codec.K_FIN and st.ob["exc"] == 0:
            received_fin = (received_fin or set()) | {(st.pdu["cond"], st.pdu["deliv"], st.pdu["fstatus"])}
        got = _drained_after(tr, k) if st.tag in (0, 1, 3) and (st.prev is None or st.prev["fields"]["qlen"] == 0) else []
        for e in evs:
            if e[0] == 3:
                allowed = set(received_fin or ())
                if not expects_fin or not allowed:
                    allowed.add((0, 0, 3))
                # a transaction the sender cancels in unacknowledged mode ends with its EOF (cancel): the user is told that
                # condition, incomplete data, file status unreported
                for g in got:
                    if g["kind"] == codec.K_EOF and g["cond"] != 0 and g["mode"] == 1:
                        allowed = {(g["cond"], 1, 3)}
                if not expects_fin or (put is not None and (put["mode"] if put["mode"] is not None else rem["mode"]) == 1):
                    # the same, recognised from the call itself when the EOF (cancel) has not been retrieved yet: a successful
                    # cancel request, or a fault whose handler is the notice of cancellation, in unacknowledged mode
                    if st.tag == 3 and st.ob["ret"] == 1:
                        allowed.add((15, 1, 3))
                    for x in evs:
                        if x[0] == 11:
                            allowed.add((x[3], 1, 3))
                if tuple(e[3:6]) not in allowed:
                    raise Failure(f"C15 sender's Transaction-Finished reports {tuple(e[3:6])}; the Finished PDU(s) handed in for this "
                                  f"transaction carried {sorted(received_fin or [])} (own success notice (0, 0, 3) when none is "
                                  f"expected) (op {st.i})")
        if st.tag == 3 and st.ob["ret"] == 1 and st.ob["exc"] == 0 and started and put is not None and rem is not None \
                and (put["mode"] if put["mode"] is not None else rem["mode"]) == 1 and gate[3] \
                and not _cancel_eof_emitted_since_put(tr, k) and not any(e[0] == 3 for e in evs):
            # the first cancel of a running unacknowledged transaction ends it with its EOF (cancel): the user is told
            raise Failure(f"C15 successful cancel request on a running unacknowledged transaction delivered no "
                          f"Transaction-Finished indication (events {evs}) (op {st.i})")
        for e in evs:
            if e[0] == 1:
                if started:
                    raise Failure(f"C15 second Transaction indication for one transaction (op {st.i})")
                started = True
                cur_tid = (e[1], e[2])
                if put is not None:
                    msgs = put["msgs"] or []
                    orig = None
                    resp = False
                    for m in msgs:
                        if m >= 1000:
                            orig = ((m - 1000) // 100, (m - 1000) % 100)
                        if m == 1:
                            resp = True
                    want = None if resp else orig
                    gotv = (e[4], e[5]) if e[3] else None
                    if gotv != want:
                        raise Failure(f"C15 Transaction indication surfaces originating id {gotv}, expected {want} "
                                      f"(messages {msgs}) (op {st.i})")
            elif e[0] in (2, 3):
                if not started:
                    raise Failure(f"C15 indication kind {e[0]} before the Transaction indication (op {st.i})")
                if (e[1], e[2]) != cur_tid:
                    raise Failure(f"C15 indication kind {e[0]} carries transaction id {(e[1], e[2])}, PDUs carry {cur_tid} (op {st.i})")
        for g in got:
            if cur_tid is not None and started and (g["src"], g["seq"]) != cur_tid:
                raise Failure(f"C15 emitted PDU carries transaction id {(g['src'], g['seq'])}, Transaction indication said {cur_tid} (op {st.i})")
            if g["kind"] == codec.K_EOF and gate[2] and not any(e[0] == 2 for e in evs):
                raise Failure(f"C15 EOF PDU emitted without EOF-Sent indication (op {st.i})")
        if any(e[0] == 3 for e in evs):
            if [e[0] for e in evs if e[0] in (1, 2, 3)][-1] != 3:
                raise Failure(f"C15 Transaction-Finished is not the last indication of the transaction (op {st.i})")
            started = False
        if st.tag in (0, 1) and st.prev is not None and st.prev["fields"]["state"] == 1 and st.ob["fields"]["state"] == 0 \
                and st.ob["exc"] == 0 and gate[3] and not any(e[0] == 3 for e in evs) and not any(e[0] == 14 for e in evs) \
                and st.prev["fields"]["tid_src"] >= 0:
            # the transaction ended in this call (not by abandonment): the user must be told
            if (any(g["kind"] == codec.K_EOF and g["cond"] != 0 for g in got) or any(e[0] == 11 for e in evs)) \
                    and st.ob["fields"]["state"] == 0:
                raise Failure(f"C15 [fixed finding F21 is back] sender transaction cancelled in unacknowledged mode ended without Transaction-Finished "
                              f"indication (op {st.i})")
            if not (st.prev["fields"]["cond_code_eof"] not in (-1, 0)):
                raise Failure(f"C15 sender transaction ended without Transaction-Finished indication (op {st.i})")


def _c15_dest(tr, gate):
    def check(st, it, info):
        evs = st.ob["events"]
        for e in evs:
            if e[0] in gate and not gate[e[0]]:
                raise Failure(f"C15 disabled indication kind {e[0]} delivered at the receiver (op {st.i})")
        if st.tag != 0 or st.ob["exc"] in ADMISSION_EXC:
            if any(e[0] in (4, 5, 6) for e in evs):
                raise Failure(f"C15 receiver indication {[e[0] for e in evs]} without a PDU causing it (op {st.i})")
        pdu = st.pdu
        if st.tag == 0 and pdu is not None:
            if info["accepted_md"] and not any(11 <= e[0] <= 14 for e in evs):
                md = [e for e in evs if e[0] == 4]
                if len(md) != 1:
                    raise Failure(f"C15 Metadata PDU processed without exactly one Metadata-Recv indication (op {st.i})")
                e = md[0]
                want = [4, e[1], e[2], pdu["src"], pdu["fsize"] if pdu["src_name"] is not None else -1]
                if pdu["src_name"] is None:
                    want += [0]
                else:
                    want += [1] + codec.enc_path(list(pdu["src_name"])) + codec.enc_path(list(pdu["dst_name"]))
                want += [1, len(pdu["msgs"])] + pdu["msgs"] if pdu["msgs"] else [0, 0]
                if list(e) != want:
                    raise Failure(f"C15 Metadata-Recv parameters {list(e)} do not match the Metadata PDU {want} (op {st.i})")
            elif any(e[0] == 4 for e in evs) and not info["accepted_md"]:
                raise Failure(f"C15 Metadata-Recv indication without an accepted Metadata PDU (op {st.i})")
            seg = [e for e in evs if e[0] == 5]
            if pdu["kind"] == codec.K_FD:
                if info["accepted_fd"] and gate[5] and [x[3:] for x in seg] != [(pdu["offset"], len(pdu["data"]))]:
                    raise Failure(f"C15 File-Segment-Recv {seg} does not carry offset/length of the accepted File Data PDU "
                                  f"({pdu['offset']}, {len(pdu['data'])}) (op {st.i})")
                for e in seg:
                    if (e[3], e[4]) != (pdu["offset"], len(pdu["data"])):
                        raise Failure(f"C15 File-Segment-Recv {e} for File Data PDU ({pdu['offset']}, {len(pdu['data'])}) (op {st.i})")
            elif seg:
                raise Failure(f"C15 File-Segment-Recv without a File Data PDU (op {st.i})")
            if any(e[0] == 6 for e in evs) and pdu["kind"] != codec.K_EOF:
                raise Failure(f"C15 EOF-Recv without an EOF PDU (op {st.i})")
            running = (st.ob["fields"]["tid_src"], st.ob["fields"]["tid_seq"]) if st.ob["fields"]["state"] == 1 else \
                ((st.prev["fields"]["tid_src"], st.prev["fields"]["tid_seq"]) if st.prev else (pdu["src"], pdu["seq"]))
            for e in evs:
                if e[0] in (4, 5, 6) and (pdu["src"], pdu["seq"]) == running and (e[1], e[2]) != (pdu["src"], pdu["seq"]):
                    raise Failure(f"C15 indication kind {e[0]} carries transaction id {(e[1], e[2])}, the PDU {(pdu['src'], pdu['seq'])} (op {st.i})")
        fin = [e for e in evs if e[0] == 3]
        if fin:
            order = [e[0] for e in evs if e[0] in (3, 4, 5, 6)]
            last_fin = max(i for i, x in enumerate(order) if x == 3)
            if any(x in (4, 5, 6) for x in order[last_fin + 1:]):
                raise Failure(f"C15 an indication follows Transaction-Finished in the same completion: {order} (op {st.i})")
    walk_dest(tr, check)
    # Transaction-Finished parameters = the Finished PDU emitted for that completion
    for k, st in enumerate(tr.steps):
        if st.tag not in (0, 1):
            continue
        fin = [e for e in st.ob["events"] if e[0] == 3]
        if not fin:
            continue
        got = _drained_after(tr, k)
        finp = [g for g in got if g["kind"] == codec.K_FIN]
        if finp:
            e = fin[-1]
            g = finp[0]
            if (e[3], e[4], e[5]) != (g["cond"], g["deliv"], g["fstatus"]):
                raise Failure(f"C15 Transaction-Finished reports (cond, delivery, file status) {e[3:6]}, the Finished PDU emitted for "
                              f"that completion carries {(g['cond'], g['deliv'], g['fstatus'])} (op {st.i})")
            if (g["src"], g["seq"]) != (e[1], e[2]):
                raise Failure(f"C15 Transaction-Finished transaction id differs from the Finished PDU's (op {st.i})")
