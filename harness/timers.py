"""C04 — retry limits: scenario generators (link falling silent at every cut point, permanently or for j expiries)
and a trace-level oracle that checks every state-machine call made in a retry step against the virtual clock."""
from __future__ import annotations

from harness import campaign, codec, hcommon
from harness.hcommon import Failure, Trace
from harness.transfer import Cfg, Fault, Runner, VClock, World, start_transfer

KIND_OF_CODE = {1: 11, 2: 12, 3: 13, 4: 14}    # fault handler code -> event kind of its callback


def _drained_after(tr, k):
    """PDUs retrieved after call at steps index k until the next call."""
    out = []
    j = k + 1
    while j < len(tr.steps) and tr.steps[j].tag not in (0, 1, 3, 4, 8):
        if tr.steps[j].tag == 2 and tr.steps[j].ob["ret"] == 1:
            out.append(codec.dec_got(tr.steps[j].ob["extra"])[0])
        j += 1
    return out


def _strip(p):
    return {k: v for k, v in p.items() if k != "parse_ok"}


def oracle_c04_sender_pdu_level(tr: Trace):
    """The EOF positive-ACK procedure judged from the emitted PDUs and the clock alone (not from the handler's own timer and
    counter fields): every EOF PDU - also the EOF (cancel) - gets a whole interval before it is re-sent or given up, and
    with a silent receiver it is emitted exactly N times before the limit fault."""
    if tr.kind != "source" or not tr.cfg["remotes"]:
        return
    by_id = {r["id"]: r for r in tr.cfg["remotes"]}
    remote = tr.cfg["remotes"][0]
    now = 0
    cur = None          # [condition, time of the last emission, number of emissions, receiver silent since the first one]
    for k, st in enumerate(tr.steps):
        if st.tag == 5:
            now += st.op[1]
            continue
        if st.tag == 8 and st.ob["ret"] == 1:
            if st.op[1] in by_id:
                remote = by_id[st.op[1]]
            cur = None
        if st.tag == 4 or (st.tag == 7):
            cur = None
        if st.tag == 0 and st.ob["exc"] == 0 and cur is not None:
            cur[3] = False      # something arrived from the receiver: counts may restart, only the interval clause applies
            if st.pdu["kind"] in (codec.K_ACK, codec.K_FIN):
                cur = None
        if st.tag in (0, 1, 3) and cur is not None and st.ob["exc"] == 0:
            lim = [e for e in st.ob["events"] if e[0] in (11, 12, 14) and (e[3] == 1 or e[0] == 14)]
            if lim and st.tag != 3:
                if now - cur[1] < remote["ack_ms"]:
                    raise Failure(f"C04 sender gave up its EOF (condition {cur[0]}) {now - cur[1]} ms after emitting it, the "
                                  f"Positive ACK interval is {remote['ack_ms']} ms (op {st.i})")
                if cur[3] and cur[2] != remote["ack_limit"]:
                    raise Failure(f"C04 sender gave up its EOF (condition {cur[0]}) after {cur[2]} emission(s) to a silent "
                                  f"receiver; the limit is {remote['ack_limit']} (op {st.i})")
                cur = None
        if st.tag == 2 and st.ob["ret"] == 1:
            g = codec.dec_got(st.ob["extra"])[0]
            if g["kind"] != codec.K_EOF or g["mode"] != 0:
                continue
            if cur is not None and cur[0] == g["cond"]:
                if now - cur[1] < remote["ack_ms"]:
                    raise Failure(f"C04 EOF (condition {g['cond']}) re-sent {now - cur[1]} ms after the previous emission, the "
                                  f"Positive ACK interval is {remote['ack_ms']} ms (op {st.i})")
                cur[1], cur[2] = now, cur[2] + 1
            else:
                cur = [g["cond"], now, 1, True]


def oracle_c04(tr: Trace):
    oracle_c04_sender_pdu_level(tr)
    remote = tr.cfg["remotes"][0] if tr.cfg["remotes"] else None
    if remote is None:
        return
    by_id = {r["id"]: r for r in tr.cfg["remotes"]}
    faults = tr.cfg["faults"]
    now = 0
    last = {}           # last PDU emitted per kind
    silent_expiries = 0
    for k, st in enumerate(tr.steps):
        if st.tag == 5:
            now += st.op[1]
            continue
        if st.tag == 2 and st.ob["ret"] == 1:
            g = codec.dec_got(st.ob["extra"])[0]
            last[g["kind"]] = _strip(g)
            continue
        if st.tag == 8 and st.ob["ret"] == 1 and st.op[1] in by_id:
            remote = by_id[st.op[1]]          # the remote entity the running transaction addresses
            silent_expiries = 0
        if st.tag not in (0, 1) or st.prev is None:
            continue
        pf, f = st.prev["fields"], st.ob["fields"]
        if pf["qlen"] != 0 or pf["state"] != 1:
            continue
        got = _drained_after(tr, k)
        evs = st.ob["events"]
        if tr.kind == "source" and pf["step"] == 7 and pf["ack_timer_on"]:
            is_ack = st.pdu is not None and st.pdu["kind"] == codec.K_ACK and st.ob["exc"] == 0
            is_nak = st.pdu is not None and st.pdu["kind"] == codec.K_NAK
            if st.ob["exc"] or is_nak:
                continue
            if st.pdu is not None and st.pdu["kind"] == codec.K_FIN:
                # a Finished PDU implies that the EOF was received: it ends the wait for the ACK as the ACK itself would
                if f["step"] == 7:
                    raise Failure(f"C04 a Finished PDU did not end the EOF positive-ACK procedure (op {st.i})")
                silent_expiries = 0
                continue
            if is_ack:
                if st.pdu["acked"] == 4 and f["step"] == 7:
                    raise Failure(f"C04 ACK(EOF) did not end the EOF positive-ACK procedure (op {st.i})")
                silent_expiries = 0
                continue
            expired = now - pf["ack_timer_start"] >= remote["ack_ms"]      # the interval configured for this remote
            eofs = [g for g in got if g["kind"] == codec.K_EOF]
            limit_fault = [e for e in evs if e[0] in (11, 12, 13, 14) and (e[3] == 1 or e[0] == 14)]
            if not expired:
                if eofs or limit_fault or f["ack_counter"] != pf["ack_counter"]:
                    raise Failure(f"C04 sender re-sent / declared a fault before the ACK timer expired (op {st.i})")
                continue
            silent_expiries += 1
            if pf["ack_counter"] + 1 < remote["ack_limit"]:
                if len(eofs) != 1 or limit_fault:
                    raise Failure(f"C04 sender expiry {pf['ack_counter'] + 1} of limit {remote['ack_limit']}: expected exactly one "
                                  f"re-sent EOF and no fault, got {len(eofs)} EOF(s), faults {limit_fault} (op {st.i})")
                if f["ack_counter"] != pf["ack_counter"] + 1:
                    raise Failure(f"C04 sender expiry did not advance the counter to {pf['ack_counter'] + 1} (op {st.i})")
                prev_eof = last.get(codec.K_EOF)
                if prev_eof is not None and (_strip(eofs[0])["cond"], _strip(eofs[0])["fsize"]) != (prev_eof["cond"], prev_eof["fsize"]):
                    raise Failure(f"C04 re-sent EOF differs from the one awaiting its ACK: {eofs[0]} vs {prev_eof} (op {st.i})")
                if prev_eof is not None and _strip(eofs[0])["cksum"] != prev_eof["cksum"]:
                    raise Failure(f"F20 re-sent EOF carries a different checksum than the EOF awaiting its ACK: "
                                  f"{eofs[0]['cksum'].hex()} vs {prev_eof['cksum'].hex()} (op {st.i})")
            else:
                if not limit_fault:
                    raise Failure(f"C04 sender: Positive ACK Limit not declared at expiry {pf['ack_counter'] + 1} = limit "
                                  f"{remote['ack_limit']} (op {st.i})")
                if pf["cond_code_eof"] not in (-1, 0):
                    if f["state"] != 0 or got:
                        raise Failure(f"C04 sender: limit reached during the EOF (cancel) exchange but the transaction was not "
                                      f"abandoned silently (op {st.i})")
                elif faults.get(1) == 1:
                    if len(eofs) != 1 or eofs[0]["cond"] != 1:
                        raise Failure(f"C04 sender: limit fault (notice of cancellation) did not emit EOF(Positive ACK Limit): {got} (op {st.i})")
        elif tr.kind == "dest" and pf["step"] == 9 and pf["ack_timer_on"]:
            is_ack = st.pdu is not None and st.pdu["kind"] == codec.K_ACK and st.ob["exc"] == 0
            if st.ob["exc"]:
                continue
            if is_ack:
                if f["state"] != 0:
                    raise Failure(f"C04 ACK(Finished) did not end the Finished positive-ACK procedure (op {st.i})")
                silent_expiries = 0
                continue
            if st.pdu is not None and st.pdu["kind"] == codec.K_EOF:
                # a re-sent EOF is acknowledged again (CFDP 4.7.2); the Finished procedure is neither advanced nor reset
                if not any(g["kind"] == codec.K_ACK and g["acked"] == 4 for g in got) or f["ack_counter"] != pf["ack_counter"]:
                    raise Failure(f"C04 receiver did not simply re-acknowledge a re-sent EOF while waiting for the Finished ACK (op {st.i})")
                continue
            expired = now - pf["ack_timer_start"] >= remote["ack_ms"]      # the interval configured for this remote
            fins = [g for g in got if g["kind"] == codec.K_FIN]
            limit_fault = [e for e in evs if e[0] in (11, 12, 13, 14) and (e[3] == 1 or e[0] == 14)]
            if not expired:
                if fins or limit_fault or f["ack_counter"] != pf["ack_counter"]:
                    raise Failure(f"C04 receiver re-sent Finished / declared a fault before the ACK timer expired (op {st.i})")
                continue
            silent_expiries += 1
            if pf["ack_counter"] + 1 < remote["ack_limit"]:
                if len(fins) != 1 or limit_fault or f["ack_counter"] != pf["ack_counter"] + 1:
                    raise Failure(f"C04 receiver expiry {pf['ack_counter'] + 1} of limit {remote['ack_limit']}: expected exactly one "
                                  f"re-sent Finished, counter+1, no fault; got {len(fins)} Finished, counter {f['ack_counter']}, "
                                  f"faults {limit_fault} (op {st.i})")
                pv = last.get(codec.K_FIN)
                if pv is not None and _strip(fins[0]) != pv:
                    raise Failure(f"C04 re-sent Finished differs from the one awaiting its ACK (op {st.i})")
            else:
                if not limit_fault:
                    raise Failure(f"C04 receiver: Positive ACK Limit not declared at expiry {pf['ack_counter'] + 1} = limit "
                                  f"{remote['ack_limit']} (op {st.i})")
                if pf["disposition"] == 1:
                    if f["state"] != 0 or got:
                        raise Failure(f"C04 receiver: limit reached during the Finished (cancel) exchange but the transaction was "
                                      f"not abandoned silently (op {st.i})")
                elif faults.get(1) == 1:
                    if len(fins) != 1 or fins[0]["cond"] != 1 or f["ack_counter"] != 0:
                        raise Failure(f"C04 receiver: limit fault (notice of cancellation) did not start a Finished(Positive ACK "
                                      f"Limit) exchange with a fresh count: {got}, counter {f['ack_counter']} (op {st.i})")
        elif tr.kind == "dest" and pf["step"] in (2, 6) and pf["deferred_active"] and pf["proc_timer_on"]:
            if st.ob["exc"]:
                continue
            progress_pdu = st.pdu is not None and (
                (pf["step"] == 6 and st.pdu["kind"] == codec.K_FD) or
                (pf["step"] == 2 and st.pdu["kind"] in (codec.K_MD, codec.K_EOF)))
            naks = [g for g in got if g["kind"] == codec.K_NAK and g["eos"] == pf["file_size_eof"] and g["sos"] == 0]
            nak_fault = [e for e in evs if e[0] in (11, 12, 13, 14) and e[3] == 7]
            if progress_pdu:
                if f["state"] == 1 and f["deferred_active"] and (f["nak_counter"] != 0 or f["proc_timer_start"] != now):
                    raise Failure(f"C04 progress (missing data / metadata arrived) did not reset the NAK counter and timer "
                                  f"(counter {f['nak_counter']}, timer start {f['proc_timer_start']}, now {now}) (op {st.i})")
                silent_expiries = 0
                continue
            if st.pdu is not None and st.pdu["kind"] == codec.K_FD and pf["step"] == 2:
                continue
            if st.pdu is not None and st.pdu["kind"] == codec.K_EOF and st.pdu["cond"] != 0:
                # an EOF (cancel) ends the NAK procedure: nothing is requested from a sender that gave up (C12; F33)
                if naks or nak_fault:
                    raise Failure(f"C04 receiver re-issued NAKs / declared the NAK limit in the call that was handed the sender's "
                                  f"EOF (cancel) (op {st.i})")
                silent_expiries = 0
                continue
            expired = now - pf["proc_timer_start"] >= remote["nak_ms"]
            if not expired:
                if naks or nak_fault or f["nak_counter"] != pf["nak_counter"]:
                    raise Failure(f"C04 receiver re-issued NAKs / declared NAK limit before the NAK timer expired (op {st.i})")
                continue
            silent_expiries += 1
            if pf["nak_counter"] + 1 != remote["nak_limit"]:
                if pf["nak_counter"] + 1 < remote["nak_limit"]:
                    reqs = [r for g in naks for r in g["reqs"]]
                    want = ([(0, 0)] if pf["metadata_missing"] else []) + list(st.prev["tracker"])
                    if reqs != want or nak_fault or f["nak_counter"] != pf["nak_counter"] + 1:
                        raise Failure(f"C04 receiver NAK expiry {pf['nak_counter'] + 1} of limit {remote['nak_limit']}: expected the "
                                      f"same requests {want} re-issued and counter+1, got {reqs}, counter {f['nak_counter']}, "
                                      f"faults {nak_fault} (op {st.i})")
            else:
                if not nak_fault:
                    raise Failure(f"C04 receiver: NAK Limit Reached not declared at expiry {pf['nak_counter'] + 1} = limit "
                                  f"{remote['nak_limit']} (op {st.i})")
                if naks:
                    raise Failure(f"C04 receiver re-issued NAKs at the limit-th expiry (op {st.i})")
        else:
            continue
        lim = max(remote["ack_limit"], remote["nak_limit"])
        if silent_expiries > 3 * lim + 3 and faults.get(1) == 1 and faults.get(7) == 1:
            raise Failure(f"C04 handler still retrying after {silent_expiries} expiries without progress (limits {lim}) (op {st.i})")


class SilentCase:
    """A transfer in which one or both directions of the link go silent after the i-th PDU, permanently or for j expiries."""

    def __init__(self, cfg: Cfg, size, cut_dir, cut_at, resume_after=None, tag="c04", poll_ms=None):
        self.cfg, self.size, self.cut_dir, self.cut_at, self.resume_after, self.tag = cfg, size, cut_dir, cut_at, resume_after, tag
        self.poll_ms = poll_ms      # idle rounds advance the clock by this much instead of a whole timer interval: most calls
                                    # then find no new expiry

    def describe(self):
        c = self.cfg
        return {"size": self.size, "cut_dir": self.cut_dir, "cut_at": self.cut_at, "resume_after": self.resume_after,
                "limits": (c.ack_limit, c.nak_limit), "imm_nak": c.imm_nak, "closure": c.closure, "seg": c.max_seg}

    def run(self):
        cfg = self.cfg
        w = World(cfg, self.tag)
        try:
            data = bytes((5 * i + 1) % 256 for i in range(self.size))
            start_transfer(w, data)
            r = Runner(w, [], max_rounds=getattr(self, "max_rounds", 300))
            # silence = drop everything on the chosen direction(s) from index cut_at on (until resume)
            tick = min(cfg.ack_ms, cfg.nak_ms)
            expiries = 0
            silent = True
            while r.round < r.max_rounds:
                if silent:
                    for d in (("s2d", "d2s") if self.cut_dir == "both" else (self.cut_dir,)):
                        q = w.link_s2d if d == "s2d" else w.link_d2s
                        keep = max(0, self.cut_at - (r.count[d] - len(q)))
                        del q[keep:]
                a = r.step_round()
                if r.quiescent():
                    break
                if silent:
                    for d in (("s2d", "d2s") if self.cut_dir == "both" else (self.cut_dir,)):
                        q = w.link_s2d if d == "s2d" else w.link_d2s
                        keep = max(0, self.cut_at - (r.count[d] - len(q)))
                        del q[keep:]
                if a == 0 or (not w.link_s2d and not w.link_d2s):
                    w.advance(self.poll_ms or tick)
                    expiries += 1
                    if self.resume_after is not None and expiries >= self.resume_after:
                        silent = False
                if expiries > (8 * (cfg.ack_limit + cfg.nak_limit) + 10) * (tick // self.poll_ms if self.poll_ms else 1):
                    break
            self.quiescent = r.quiescent()
            self.sides = [("source", w.src.ops, w.src.obs), ("dest", w.dst.ops, w.dst.obs)]
            return self
        finally:
            w.close()


def c04_cases(tier, rng):
    cases = []
    for N in ([1, 2, 3] if tier == "quick" else [1, 2, 3, 4, 5]):
        for size in (0, 5, 9):
            for imm in (False, True):
                for cut_dir in ("d2s", "s2d", "both"):
                    cuts = range(0, 7) if tier == "thorough" else [0, 1, 2, 3, 5]
                    for cut in cuts:
                        cfg = Cfg(mode=0, max_seg=4, ack_limit=N, nak_limit=N, imm_nak=imm, closure=rng.random() < 0.5,
                                  ack_ms=1000, nak_ms=1000, disposition=rng.random() < 0.5)
                        cases.append(SilentCase(cfg, size, cut_dir, cut, None))
                        if N > 1 and (tier == "thorough" or rng.random() < 0.35):
                            cases.append(SilentCase(cfg, size, cut_dir, cut, resume_after=rng.randint(1, N - 1)))
    for _ in range(60 if tier == "quick" else 4000):
        cfg = campaign.rand_cfg(rng, mode=0, req_mode=None, ack_ms=1000, nak_ms=rng.choice([1000, 500]))
        cases.append(SilentCase(cfg, rng.choice([0, 3, 8, 13]), rng.choice(["d2s", "s2d", "both"]), rng.randint(0, 8),
                                rng.choice([None, None, 1, 2])))
    return cases


class CancelSilentCase(SilentCase):
    """Sender (or receiver) cancels after k rounds, then the peer is never heard again."""

    def __init__(self, cfg, size, who, k, tag="c04c"):
        super().__init__(cfg, size, "both", 10 ** 6, None, tag)
        self.who, self.k = who, k

    def describe(self):
        d = super().describe()
        d.update(cancel=self.who, after_rounds=self.k)
        return d

    def run(self):
        cfg = self.cfg
        w = World(cfg, self.tag)
        try:
            data = bytes((5 * i + 1) % 256 for i in range(self.size))
            start_transfer(w, data)
            r = Runner(w, [], max_rounds=200)
            for _ in range(self.k):
                r.step_round()
            side = w.src if self.who == "src" else w.dst
            t = side.h.transaction_id
            if t is not None:
                side.cancel(t.source_id.value, t.seq_num.value)
                r._drain(side)
            tick = min(cfg.ack_ms, cfg.nak_ms)
            for _ in range(4 * (cfg.ack_limit + cfg.nak_limit) + 6):
                w.link_s2d.clear(); w.link_d2s.clear()
                r.step_round()
                w.link_s2d.clear(); w.link_d2s.clear()
                w.advance(tick)
                if w.src.h.state.value == 0 and w.dst.h.state.value == 0:
                    break
            self.sides = [("source", w.src.ops, w.src.obs), ("dest", w.dst.ops, w.dst.obs)]
            return self
        finally:
            w.close()


_base_c04_cases = c04_cases


def c04_cases(tier, rng):  # noqa: F811
    cases = _base_c04_cases(tier, rng)
    for N in (1, 2, 3):
        for who in ("src", "dst"):
            for k in (1, 2, 3, 4, 6):
                cfg = Cfg(mode=0, max_seg=2, ack_limit=N, nak_limit=N, imm_nak=rng.random() < 0.5, cktype=rng.choice([2, 3]),
                          disposition=rng.random() < 0.5)
                cases.append(CancelSilentCase(cfg, 9, who, k))
    return cases


class GateCase(SilentCase):
    """Initial link faults, then a script of phases: ("rounds", n, s2d_open, d2s_open) runs n scheduler rounds with the
    given link directions open or silent, ("tick", k) lets k timer intervals pass (one round after each).  Finally both
    directions stay silent while timers keep expiring.  Exercises 'progress resets the count' and partial silence."""

    def __init__(self, cfg, size, faults, phases, tag="c04g"):
        super().__init__(cfg, size, "both", 10 ** 6, None, tag)
        self.faults, self.phases = list(faults), list(phases)

    def describe(self):
        d = super().describe()
        d.update(faults=[(f.direction, f.index, f.kind, f.arg) for f in self.faults], phases=self.phases)
        return d

    def run(self):
        cfg = self.cfg
        w = World(cfg, self.tag)
        try:
            data = bytes((5 * i + 1) % 256 for i in range(self.size))
            start_transfer(w, data)
            r = Runner(w, self.faults, max_rounds=10 ** 6)
            tick = min(cfg.ack_ms, cfg.nak_ms)
            gate = [True, True]

            def rnd():
                if not gate[0]:
                    w.link_s2d.clear()
                if not gate[1]:
                    w.link_d2s.clear()
                r.step_round()
                if not gate[0]:
                    w.link_s2d.clear()
                if not gate[1]:
                    w.link_d2s.clear()
            for ph in self.phases:
                if r.quiescent():
                    break
                if ph[0] == "rounds":
                    gate[0], gate[1] = ph[2], ph[3]
                    for _ in range(ph[1]):
                        rnd()
                else:
                    for _ in range(ph[1]):
                        w.advance(tick)
                        rnd()
            gate[0] = gate[1] = False
            for _ in range(6 * (cfg.ack_limit + cfg.nak_limit) + 10):
                if r.quiescent():
                    break
                w.advance(tick)
                rnd()
            self.sides = [("source", w.src.ops, w.src.obs), ("dest", w.dst.ops, w.dst.obs)]
            return self
        finally:
            w.close()


_base2_c04_cases = c04_cases


def c04_cases(tier, rng):  # noqa: F811
    cases = _base2_c04_cases(tier, rng)
    for _ in range(150 if tier == "quick" else 12000):
        N = rng.choice([2, 3, 3, 4])
        cfg = Cfg(mode=0, max_seg=rng.choice([2, 4]), ack_limit=N, nak_limit=N, imm_nak=rng.random() < 0.4,
                  closure=rng.random() < 0.5, disposition=rng.random() < 0.3, cktype=rng.choice([3, 15]))
        faults = []
        if rng.random() < 0.6:
            faults.append(Fault("s2d", 0, "drop"))                 # Metadata lost
        if rng.random() < 0.6:
            faults.append(Fault("s2d", rng.randint(1, 3), "drop"))   # a File Data PDU / the EOF lost
        phases = []
        for _ in range(rng.randint(2, 5)):
            phases.append(("rounds", rng.randint(1, 8), rng.random() < 0.75, rng.random() < 0.55))
            if rng.random() < 0.7:
                phases.append(("tick", rng.randint(1, N - 1)))
        cases.append(GateCase(cfg, rng.choice([5, 8, 9, 13]), faults, phases))
    return cases


class ReuseSilentCase(SilentCase):
    """An earlier transaction on the same handler pair (completed, or abandoned by a silent peer), then an acknowledged
    transaction addressed to a SECOND remote entity of the sender's MIB which has its own Positive-ACK interval and limit
    and never answers.  The clock advances in steps smaller than either interval, so an expiry that comes early or late
    (a timer carried over from the earlier transaction) is seen at the call where it happens."""

    def __init__(self, cfg, size, first, tag="c04r"):
        super().__init__(cfg, size, "both", 10 ** 6, None, tag)
        self.first = first

    def describe(self):
        d = super().describe()
        d.update(first=self.first, ack_ms=self.cfg.ack_ms, alt=self.cfg.alt_remote)
        return d

    def run(self):
        cfg = self.cfg
        w = World(cfg, self.tag)
        try:
            data = bytes((5 * i + 1) % 256 for i in range(self.size))
            alt = cfg.alt_remote
            tick = max(1, min(cfg.ack_ms, cfg.nak_ms, alt.get("ack_ms", cfg.ack_ms)) // 2)
            start_transfer(w, data)
            r = Runner(w, [], max_rounds=200)
            if self.first == "completed":
                r.run()
            else:
                r.step_round(); r.step_round(); r.step_round()
                for _ in range(8 * (cfg.ack_limit + cfg.nak_limit) + 12):
                    w.link_s2d.clear(); w.link_d2s.clear()
                    r.step_round()
                    w.link_s2d.clear(); w.link_d2s.clear()
                    w.advance(tick)
                    if w.src.h.state.value == 0 and w.dst.h.state.value == 0:
                        break
            if w.src.h.state.value != 0 or w.dst.h.state.value != 0:
                self.sides = [("source", w.src.ops, w.src.obs), ("dest", w.dst.ops, w.dst.obs)]
                return self
            w.advance(tick)
            cfg.put_to_alt = True
            start_transfer(w, data)
            r = Runner(w, [], max_rounds=10 ** 6)
            for _ in range(2 * (4 * alt.get("ack_limit", cfg.ack_limit) + 8)):
                w.link_s2d.clear(); w.link_d2s.clear()
                r.step_round()
                w.link_s2d.clear(); w.link_d2s.clear()
                if w.src.h.state.value == 0:
                    break
                w.advance(tick)
            self.sides = [("source", w.src.ops, w.src.obs), ("dest", w.dst.ops, w.dst.obs)]
            return self
        finally:
            cfg.put_to_alt = False
            w.close()


_base3_c04_cases = c04_cases


class SenderCancelTimingCase:
    """Acknowledged sender whose receiver never answers: the whole file and the EOF go out, [pre] whole ACK intervals and
    a fraction [frac_ms] of the next one pass (polled every [poll] ms), the user cancels, and the sender is polled every
    [poll] ms until it is idle: the EOF (cancel) exchange has its own fresh interval and its own fresh count."""

    def __init__(self, cfg: Cfg, size, pre, frac_ms, poll=100, tag="c04t"):
        self.cfg, self.size, self.pre, self.frac_ms, self.poll, self.tag = cfg, size, pre, frac_ms, poll, tag

    def describe(self):
        return {"sender_cancel_timing": True, "size": self.size, "expiries_before_cancel": self.pre, "cancel_at_ms": self.frac_ms,
                "ack_ms": self.cfg.ack_ms, "ack_limit": self.cfg.ack_limit, "poll_ms": self.poll}

    def run(self):
        cfg = self.cfg
        w = World(cfg, self.tag)
        try:
            start_transfer(w, bytes((5 * i + 1) % 256 for i in range(self.size)))
            s = w.src

            def call():
                s.sm(None)
                while s.get() is not None:
                    pass
            for _ in range(self.size // (cfg.max_seg or 4) + 6):
                call()
            waited = 0
            while waited < self.pre * cfg.ack_ms + self.frac_ms and s.h.state.value == 1:
                w.advance(self.poll)
                waited += self.poll
                call()
            t = s.h.transaction_id
            if t is not None and s.h.state.value == 1:
                s.cancel(t.source_id.value, t.seq_num.value)
                while s.get() is not None:
                    pass
            for _ in range((cfg.ack_limit + 2) * cfg.ack_ms // self.poll + 5):
                if s.h.state.value == 0:
                    break
                w.advance(self.poll)
                call()
            self.sides = [("source", s.ops, s.obs)]
            return self
        finally:
            w.close()


def c04_cases(tier, rng):  # noqa: F811
    cases = _base3_c04_cases(tier, rng)
    for N in (1, 2, 3):
        for pre in range(0, N):
            for frac in ((300, 700) if tier == "quick" else (100, 300, 500, 700, 900)):
                cfg = Cfg(mode=0, max_seg=4, ack_ms=1000, nak_ms=1000, ack_limit=N, nak_limit=3, closure=rng.random() < 0.5)
                cases.append(SenderCancelTimingCase(cfg, rng.choice([0, 5, 9]), pre, frac))
    combos = [(a, b, n1, n2, first) for a in (1000, 500, 2000) for b in (500, 1000, 3000) for n1 in (1, 2, 3) for n2 in (1, 2, 3)
              for first in ("completed", "silent") if a != b]
    if tier == "quick":
        combos = rng.sample(combos, 24)
    for a, b, n1, n2, first in combos:
        cfg = Cfg(mode=0, max_seg=4, ack_ms=a, nak_ms=a, ack_limit=n1, nak_limit=n1, imm_nak=rng.random() < 0.5,
                  closure=rng.random() < 0.5, cktype=rng.choice([2, 3, 15]),
                  alt_remote={"id": 3, "ack_ms": b, "nak_ms": b, "ack_limit": n2, "nak_limit": n2, "mode": 0,
                              "max_seg": rng.choice([2, 4])})
        cases.append(ReuseSilentCase(cfg, rng.choice([0, 5, 9]), first))
    return cases
