"""C04 — Retry limits are honoured exactly; a silent peer cannot hang a transaction."""
from harness import hcommon, hprop_run, timers

PROP = "C04"
EXTRA_PROPS = ("C04b", "C04c", "C04d")      # closed form: a silent peer ends the sender after exactly 2N expiries


def proj(kind, d):
    f = d["fields"]
    return (d["exc"], tuple(d["events"]), tuple(d["extra"]), f.get("state"), f.get("step"), f.get("ack_counter"),
            f.get("nak_counter"))


def run(tier, seed):
    return hprop_run.run_generic(PROP, tier, seed, timers.c04_cases, timers.oracle_c04, proj,
        "acknowledged transfers in which one or both link directions fall silent after the i-th PDU (every i), permanently or for "
        "j < N expiries, limits N = 1..3 (1..5 thorough), sizes 0/5/9, immediate/deferred NAK, plus random configurations; every "
        "call made in a retry step is checked against the virtual clock; distinct = (config class, visited (step, op, exception) set)",
        theorem="c04_* (correspondence source+dest: counters, events, PDUs)", label="silent link", extra_gate=EXTRA_PROPS)


def replay(path):
    return hprop_run.replay_generic(PROP, path, timers.oracle_c04)
