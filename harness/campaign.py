"""Generators of operation histories for the handler-level correspondence and oracles
(DESIGN.md 4.2): (a) two-handler transfers with link faults, cancels, write rejections, several
transactions per handler; (b) hostile single-handler streams with hand-made PDUs of every type in
every step.  Every random choice derives from the rng passed in."""
from __future__ import annotations

import random

from harness import codec
from harness.transfer import (Cfg, Fault, Runner, VClock, World, dest_file_bytes, start_transfer)

SIZES = [0, 1, 3, 4, 5, 8, 9, 12, 13]


def rand_cfg(rng: random.Random, **over) -> Cfg:
    c = Cfg(mode=rng.choice([0, 0, 1]), closure=rng.random() < 0.5, crc=rng.random() < 0.3,
            cktype=rng.choice([0, 2, 3, 3, 15]), src_idw=rng.choice([1, 2, 2, 4, 8]), dst_idw=rng.choice([1, 2, 2, 4, 8]),
            seqw=rng.choice([1, 2, 4]), seq_start=rng.choice([0, 0, 7]),
            max_seg=rng.choice([None, 1, 2, 3, 4, 4, 7]), max_packet=rng.choice([40, 64, 64]),
            ack_limit=rng.choice([1, 2, 3, 5]), nak_limit=rng.choice([1, 2, 3, 5]), check_limit=rng.choice([1, 2, 3]),
            imm_nak=rng.random() < 0.5, disposition=rng.random() < 0.5,
            ind=tuple(rng.random() < 0.8 for _ in range(4)),
            req_mode=rng.choice([None, None, 0, 1]), req_closure=rng.choice([None, None, True, False]),
            ack_ms=rng.choice([500, 1000]), nak_ms=rng.choice([500, 1000]), check_ms=rng.choice([500, 1000]))
    if c.max_seg is None:
        # derived segment length = max_packet - header - offset - crc: keep it small
        hdr = 4 + 2 * max(c.src_idw, c.dst_idw) + c.seqw
        c.max_packet = hdr + 4 + (2 if c.crc else 0) + rng.choice([1, 2, 4])
        c.max_packet = max(c.max_packet, hdr + 1 + 8 + 8 + (2 if c.crc else 0))
    # the receiver's configuration for this sender need not mirror the sender's configuration for the receiver
    if rng.random() < 0.35:
        c.dst_over = {"ack_ms": rng.choice([250, 500, 1000, 2000, 4000]), "nak_ms": rng.choice([250, 500, 1000, 2000])}
    # ... nor in the values a receiver must take from the PDUs and not from its own table: checksum type, closure, mode,
    # CRC flag and segment length are the sender's to choose
    if rng.random() < 0.3:
        c.dst_over = dict(c.dst_over or {})
        for k, vals in (("cktype", [15, 15, 0, 2, 3]), ("closure", [True, False]), ("mode", [0, 1]), ("crc", [True, False]),
                        ("max_seg", [1, 2, 64])):
            if rng.random() < 0.5:
                c.dst_over[k] = rng.choice(vals)
    for k, v in over.items():
        setattr(c, k, v)
    return c


def eff_mode(c: Cfg) -> int:
    return c.mode if c.req_mode is None else c.req_mode


def eff_closure(c: Cfg) -> bool:
    return c.closure if c.req_closure is None else c.req_closure


def rand_faults(rng, n, kinds=("drop", "dup", "delay", "flip"), span=10):
    return [Fault(rng.choice(["s2d", "s2d", "d2s"]), rng.randint(0, span), rng.choice(kinds), rng.randint(1, 3))
            for _ in range(n)]


class TransferCase:
    """One world, one or more consecutive transactions, optional cancels / write rejections."""

    def __init__(self, cfg: Cfg, datas, faults=(), cancel=None, reject_round=None, extra_sm=0, max_rounds=150,
                 tag="tc", per_tx_req=None, fault_tx=0, reject_mode=True):
        self.reject_mode = reject_mode     # True: write_data is refused; 2: creating / truncating the destination file as well
        self.fault_tx = fault_tx           # index of the transaction that the faults / cancel / write rejection apply to
        self.cfg, self.datas, self.faults = cfg, datas, list(faults)
        self.per_tx_req = per_tx_req       # request-level (mode, closure) per transaction on the same handlers
        self.cancel, self.reject_round, self.extra_sm, self.max_rounds, self.tag = cancel, reject_round, extra_sm, max_rounds, tag
        self.results = []

    def describe(self):
        c = self.cfg
        return {"mode": eff_mode(c), "closure": eff_closure(c), "cktype": c.cktype, "crc": c.crc, "imm_nak": c.imm_nak,
                "idw": (c.src_idw, c.dst_idw), "seqw": c.seqw, "max_seg": c.max_seg, "max_packet": c.max_packet,
                "limits": (c.ack_limit, c.nak_limit, c.check_limit), "disposition": c.disposition, "ind": c.ind,
                "sizes": [None if d is None else len(d) for d in self.datas],
                "faults": [(f.direction, f.index, f.kind, f.arg) for f in self.faults],
                "cancel": self.cancel, "reject_round": self.reject_round, "extra_sm": self.extra_sm,
                "per_tx_req": self.per_tx_req, "fault_tx": self.fault_tx}

    def run(self, hooks=()):
        w = World(self.cfg, self.tag)
        self.world = w
        try:
            for ti, data in enumerate(self.datas):
                if self.per_tx_req is not None:
                    w.cfg.req_mode, w.cfg.req_closure = self.per_tx_req[ti]
                ret, exc = start_transfer(w, data)
                r = Runner(w, self.faults if ti == self.fault_tx else (), max_rounds=self.max_rounds, extra_sm=self.extra_sm)
                r.hooks = list(hooks)
                self.runner = r
                if self.cancel is not None and ti == self.fault_tx:
                    who, at_round, right_id = self.cancel
                    quiet = False
                    while r.round < at_round and not r.quiescent():
                        r.step_round()
                    side = w.src if who == "src" else w.dst
                    tid = side.h.transaction_id
                    if tid is not None:
                        s_, q_ = tid.source_id.value, tid.seq_num.value
                    else:
                        s_, q_ = self.cfg.src_id, 0
                    if not right_id:
                        q_ += 1
                    side.cancel(s_, q_)
                    for hk in r.hooks:
                        hk(side, r)
                    r._note_done(side)
                    r._drain(side)
                if self.reject_round is not None and ti == self.fault_tx:
                    while r.round < self.reject_round and not r.quiescent():
                        r.step_round()
                    w.dst.set_reject(self.reject_mode)
                ok = r.run()
                if self.reject_round is not None and ti == self.fault_tx:
                    w.dst.set_reject(False)
                snap = w.dst.snapshot_file(list(self.cfg.dst_path))
                self.results.append({"quiescent": ok, "rounds": r.round, "api_exc": list(r.api_exc),
                                     "dest_bytes": dest_file_bytes(w), "data": data, "now": VClock.now})
                if not ok:
                    break
            self.sides = [("source", w.src.ops, w.src.obs), ("dest", w.dst.ops, w.dst.obs)]
            self.src_events = list(w.src.events)
            self.dst_events = list(w.dst.events)
            return self
        finally:
            w.close()


def rand_transfer_case(rng, faults_max=3, allow_cancel=True, allow_reject=True, multi=True, **over):
    cfg = rand_cfg(rng, **over)
    nt = rng.choice([1, 1, 1, 2, 3]) if multi else 1
    datas = [bytes(rng.getrandbits(8) for _ in range(rng.choice(SIZES))) for _ in range(nt)]
    if rng.random() < 0.05:
        cfg.metadata_only = True
        datas = [None] * nt
    nf = rng.choice([0, 0, 1, 1, 2, faults_max])
    cancel = None
    if allow_cancel and rng.random() < 0.2:
        cancel = (rng.choice(["src", "dst"]), rng.randint(0, 6), rng.random() < 0.85)
    reject = rng.randint(0, 4) if (allow_reject and rng.random() < 0.1) else None
    per_tx = None
    if nt > 1 and rng.random() < 0.7:
        per_tx = [(rng.choice([None, 0, 1]), rng.choice([None, True, False])) for _ in range(nt)]
    return TransferCase(cfg, datas, rand_faults(rng, nf), cancel, reject, extra_sm=rng.choice([0, 0, 0, 1, 2]),
                        per_tx_req=per_tx, fault_tx=rng.randrange(nt) if rng.random() < 0.5 else 0)


# ------------------------------------------------------------------ hostile single-handler streams

def _hdr(cfg: Cfg, direction, seq, rng=None, hostile=0.0):
    w = max(cfg.src_idw, cfg.dst_idw)
    h = [direction, eff_mode(cfg), int(cfg.crc), 0, cfg.src_id, cfg.dst_id, w, seq, cfg.seqw]
    if rng is not None and rng.random() < hostile:
        k = rng.randint(0, 5)
        if k == 0:
            h[0] = 1 - h[0]
        elif k == 1:
            h[1] = 1 - h[1]
        elif k == 2:
            h[4] = rng.choice([cfg.src_id + 5, cfg.dst_id])
        elif k == 3:
            h[5] = rng.choice([cfg.dst_id + 5, cfg.src_id])
        elif k == 4:
            h[7] = (seq + 1) % 200
        else:
            h[2] = 1 - h[2]
    return h


def pdu_ints(kind, hdr, body):
    return [kind] + hdr + body


def rand_pdu_for_dest(rng, cfg: Cfg, seq, size, seg, hostile):
    """Abstract PDU (ints) a destination might see for transaction seq of a file of `size` bytes."""
    r = rng.random()
    h = _hdr(cfg, 0, seq, rng, hostile)
    data = [(7 * i + 3) % 256 for i in range(size)]
    if r < 0.42:
        if rng.random() < 0.75 and size > 0:
            k = rng.randrange(0, (size + seg - 1) // seg)
            off, ln = k * seg, min(seg, size - k * seg)
        else:
            off, ln = rng.randint(0, size + 3), rng.randint(1, seg + 2)
        payload = [(7 * (off + i) + 3) % 256 for i in range(ln)]
        if rng.random() < 0.2:
            # the same range with OTHER bytes: a later File Data PDU overwrites what an earlier one stored (C05), and the
            # file stops matching the EOF checksum
            payload = [rng.getrandbits(8) for _ in range(ln)]
        return pdu_ints(codec.K_FD, h, [off, ln] + payload)
    if r < 0.55:
        names = [1, 1, 1, 1, 2] if rng.random() < 0.9 else [0]
        if names[0] == 1 and rng.random() < 0.15:
            names = [1, 1, 1, 1, 4]          # destination given as a directory
        msgs = rng.choice([[], [], [0], [1000 + 105, 0], [1]])
        return pdu_ints(codec.K_MD, h, [int(eff_closure(cfg)), cfg.cktype, size] + names + [len(msgs)] + msgs)
    if r < 0.70:
        import zlib
        cond = 0 if rng.random() < 0.85 else rng.choice([15, 4, 10])
        ck = [0, 0, 0, 0]
        if cfg.cktype == 3 and rng.random() < 0.9:
            ck = list(zlib.crc32(bytes(data)).to_bytes(4, "big"))
        fsz = size if rng.random() < 0.85 else rng.randint(0, size + 2)
        return pdu_ints(codec.K_EOF, h, [cond] + ck + [fsz, 0, 0, 0])
    if r < 0.78:
        return pdu_ints(codec.K_ACK, h, [rng.choice([5, 5, 4]), rng.choice([0, 0, 15]), rng.choice([1, 2])])
    if r < 0.84:
        hh = list(h); hh[0] = rng.choice([1, 1, 0])
        return pdu_ints(codec.K_FIN, hh, [0, 0, 2, 0, 0, 0])
    if r < 0.90:
        hh = list(h); hh[0] = rng.choice([1, 1, 0])
        return pdu_ints(codec.K_NAK, hh, [0, size, 1, 0, min(size, seg)])
    if r < 0.95:
        hh = list(h); hh[0] = rng.choice([1, 0])
        return pdu_ints(codec.K_KA, hh, [rng.randint(0, size)])
    return pdu_ints(codec.K_PROMPT, h, [rng.choice([0, 1])])


def rand_pdu_for_source(rng, cfg: Cfg, seq, size, seg, progress, hostile):
    r = rng.random()
    h = _hdr(cfg, 1, seq, rng, hostile)
    if r < 0.45:
        nreq = rng.choice([1, 1, 2, 3])
        reqs = []
        for _ in range(nreq):
            k = rng.random()
            if k < 0.15:
                reqs += [0, 0]
            elif k < 0.75 and progress > 0:
                a = rng.randint(0, progress)
                b = rng.randint(a, progress)
                reqs += [a, b]
            else:
                reqs += [rng.randint(0, size + 2), rng.randint(0, size + 3)]
        return pdu_ints(codec.K_NAK, h, [0, size, len(reqs) // 2] + reqs)
    if r < 0.62:
        return pdu_ints(codec.K_ACK, h, [rng.choice([4, 4, 4, 5]), rng.choice([0, 15]), 1])
    if r < 0.78:
        cond = rng.choice([0, 0, 0, 15, 5])
        return pdu_ints(codec.K_FIN, h, [cond, rng.choice([0, 1]), rng.choice([0, 1, 2, 3])] +
                        ([1, cfg.dst_id, cfg.dst_idw] if cond else [0, 0, 0]))
    if r < 0.84:
        return pdu_ints(codec.K_KA, h, [rng.randint(0, size)])
    if r < 0.90:
        hh = list(h); hh[0] = rng.choice([0, 1])
        return pdu_ints(codec.K_FD, hh, [0, 2, 1, 2])
    if r < 0.94:
        hh = list(h); hh[0] = rng.choice([0, 1])
        return pdu_ints(codec.K_EOF, hh, [0, 0, 0, 0, 0, size, 0, 0, 0])
    if r < 0.97:
        hh = list(h); hh[0] = rng.choice([0, 1])
        return pdu_ints(codec.K_MD, hh, [0, 3, size, 0, 0])
    hh = list(h); hh[0] = rng.choice([0, 1])
    return pdu_ints(codec.K_PROMPT, hh, [0])


class HostileCase:
    """A single handler driven by a random op stream.  kind = 'dest' | 'source'."""

    def __init__(self, kind, cfg: Cfg, seed, length, hostile=0.1, drain_p=0.9, tag="hc"):
        self.kind, self.cfg, self.seed, self.length, self.hostile, self.drain_p, self.tag = kind, cfg, seed, length, hostile, drain_p, tag

    def describe(self):
        c = self.cfg
        return {"kind": self.kind, "mode": eff_mode(c), "closure": eff_closure(c), "cktype": c.cktype,
                "imm_nak": c.imm_nak, "max_seg": c.max_seg, "seed": self.seed, "length": self.length,
                "hostile": self.hostile, "drain_p": self.drain_p}

    def run(self):
        rng = random.Random(self.seed)
        cfg = self.cfg
        w = World(cfg, self.tag)
        self.world = w
        try:
            if self.kind == "dest":
                self._run_dest(rng, w)
            else:
                self._run_source(rng, w)
            self.sides = [(self.kind, (w.dst if self.kind == "dest" else w.src).ops,
                           (w.dst if self.kind == "dest" else w.src).obs)]
            self.events = list((w.dst if self.kind == "dest" else w.src).events)
            return self
        finally:
            w.close()

    def _deliver(self, side, w, ints):
        try:
            pdu = codec.reparse(codec.build_pdu(ints, w.pm))
        except Exception:  # noqa: BLE001  spacepackets refuses to build/pack/unpack this one
            return False
        side.sm(pdu)
        return True

    def _run_dest(self, rng, w):
        cfg = self.cfg
        d = w.dst
        seg = cfg.max_seg or 4
        size = rng.choice(SIZES)
        seq = rng.randint(0, 3)
        if rng.random() < 0.3:
            d.fs_op([7, 0, 1, 4])                       # directory n4 exists
        if rng.random() < 0.3:
            d.fs_op([7, 1, 1, 2, 3, 9, 9, 9])           # destination file exists already
        for _ in range(self.length):
            r = rng.random()
            if r < 0.62:
                self._deliver(d, w, rand_pdu_for_dest(rng, cfg, seq, size, seg, self.hostile))
            elif r < 0.72:
                d.sm(None)
            elif r < 0.80:
                w.advance(rng.choice([100, 500, 1000, 1000]))
            elif r < 0.84:
                t = d.h.transaction_id
                if t is not None and rng.random() < 0.8:
                    d.cancel(t.source_id.value, t.seq_num.value)
                elif t is not None and rng.random() < 0.5:
                    d.cancel(t.source_id.value + 5, t.seq_num.value)      # another entity's transaction with the same number
                else:
                    d.cancel(cfg.src_id, seq + 1)
            elif r < 0.86:
                d.set_reject(rng.random() < 0.5)
            elif r < 0.87:
                d.reset()
            elif r < 0.90:
                seq = rng.randint(0, 3); size = rng.choice(SIZES)
            else:
                d.snapshot_file([2])
            if rng.random() < self.drain_p:
                while d.get() is not None:
                    pass
            if rng.random() < 0.3:
                d.snapshot_file([2])

    def _run_source(self, rng, w):
        cfg = self.cfg
        s = w.src
        for _ in range(self.length):
            r = rng.random()
            st = s.h.step.value
            if r < 0.12 or (s.h.state.value == 0 and r < 0.5):
                k = rng.random()
                if k < 0.8:
                    size = rng.choice(SIZES)
                    data = bytes((7 * i + 3) % 256 for i in range(size))
                    cfg.metadata_only = rng.random() < 0.05
                    ints, req = w.make_put(None if cfg.metadata_only else data)
                    s.put(ints, req)
                elif k < 0.9:
                    # missing source file
                    from cfdppy.request import PutRequest
                    from spacepackets.util import UnsignedByteField
                    req = PutRequest(UnsignedByteField(cfg.dst_id, cfg.dst_idw), w.pm.to_path([77]), w.pm.to_path([2]), None, None)
                    s.put([cfg.dst_id, cfg.dst_idw, -1, -1, 1, 1, 77, 1, 2, 0, 0], req)
                else:
                    from cfdppy.request import PutRequest
                    from spacepackets.util import UnsignedByteField
                    s.fs_op([7, 1, 1, 1, 2, 1, 2])
                    req = PutRequest(UnsignedByteField(cfg.dst_id + 9, cfg.dst_idw), w.pm.to_path([1]), w.pm.to_path([2]), None, None)
                    s.put([cfg.dst_id + 9, cfg.dst_idw, -1, -1, 1, 1, 1, 1, 2, 0, 0], req)
            elif r < 0.45:
                s.sm(None)
            elif r < 0.78:
                size = s.h._params.fp.file_size or 0
                seqn = s.h.pdu_conf.transaction_seq_num.value if s.h.pdu_conf.transaction_seq_num.byte_len else 0
                self._deliver(s, w, rand_pdu_for_source(rng, cfg, seqn, size, cfg.max_seg or 4, s.h.progress, self.hostile))
            elif r < 0.86:
                w.advance(rng.choice([100, 500, 1000, 1000]))
            elif r < 0.92:
                t = s.h.transaction_id
                if t is not None and rng.random() < 0.8:
                    s.cancel(t.source_id.value, t.seq_num.value)
                else:
                    s.cancel(cfg.src_id, 99)
            elif r < 0.93:
                s.reset()
            elif r < 0.96:
                s.fs_op([7, 2, 1, 1])       # source file disappears
            else:
                s.sm(None)
            if rng.random() < self.drain_p:
                while s.get() is not None:
                    pass


def rand_hostile_case(rng, kind=None, **over):
    kind = kind or rng.choice(["dest", "source"])
    cfg = rand_cfg(rng, **over)
    return HostileCase(kind, cfg, rng.getrandbits(32), rng.randint(10, 60), hostile=rng.choice([0.0, 0.1, 0.3]),
                       drain_p=rng.choice([1.0, 1.0, 0.9, 0.6]))
