"""Fail-closed ast reader: literal tables of /repo/src -> coq/gen/Tables.v  (DESIGN.md 4.6).

Everything the Coq theorems of C13/C14/C19/C20 take from the *data* of the code is read here from
the current working tree on every run.  Any shape the reader does not understand raises; it never
guesses.  The file is rewritten only if its content changes (so make stays incremental).
"""
from __future__ import annotations

import ast
import hashlib
import os
from pathlib import Path

REPO = Path(os.environ.get("CFDP_VERIF_REPO", "/repo"))
SRC = REPO / "src" / "cfdppy"
OUT = Path(__file__).resolve().parent.parent / "coq" / "gen" / "Tables.v"


class Shape(Exception):
    pass


def _enum_value(node: ast.AST, enums: dict) -> int:
    """ConditionCode.X / DirectiveType.Y ... -> int, using the installed spacepackets enums."""
    if isinstance(node, ast.Attribute) and isinstance(node.value, ast.Name):
        cls = enums.get(node.value.id)
        if cls is None:
            raise Shape(f"unknown enum {node.value.id}")
        try:
            return int(cls[node.attr].value)
        except KeyError:
            raise Shape(f"unknown member {node.value.id}.{node.attr}")
    raise Shape(f"not an enum member: {ast.dump(node)[:80]}")


def _find_class(tree, name):
    for n in ast.walk(tree):
        if isinstance(n, ast.ClassDef) and n.name == name:
            return n
    raise Shape(f"class {name} not found")


def _find_func(tree, name):
    for n in ast.walk(tree):
        if isinstance(n, ast.FunctionDef) and n.name == name:
            return n
    raise Shape(f"function {name} not found")


def _enums():
    from spacepackets.cfdp import ConditionCode, FaultHandlerCode, PduType, TransmissionMode, ChecksumType
    from spacepackets.cfdp.pdu import DirectiveType
    return {"ConditionCode": ConditionCode, "FaultHandlerCode": FaultHandlerCode, "PduType": PduType,
            "DirectiveType": DirectiveType, "TransmissionMode": TransmissionMode, "ChecksumType": ChecksumType}


def read_fault_table(enums):
    tree = ast.parse((SRC / "mib.py").read_text())
    cls = _find_class(tree, "DefaultFaultHandlerBase")
    init = None
    for n in cls.body:
        if isinstance(n, ast.FunctionDef) and n.name == "__init__":
            init = n
    if init is None:
        raise Shape("DefaultFaultHandlerBase.__init__ not found")
    dicts = [n for n in ast.walk(init) if isinstance(n, ast.Dict)]
    if len(dicts) != 1:
        raise Shape("expected exactly one dict literal in DefaultFaultHandlerBase.__init__")
    d = dicts[0]
    table = []
    for k, v in zip(d.keys, d.values):
        table.append((_enum_value(k, enums), _enum_value(v, enums)))
    if len({k for k, _ in table}) != len(table):
        raise Shape("duplicate key in fault handler table")
    return table


def _is_attr_chain(node, *names):
    cur = node
    for nm in reversed(names[1:]):
        if not (isinstance(cur, ast.Attribute) and cur.attr == nm):
            return False
        cur = cur.value
    return isinstance(cur, ast.Name) and cur.id == names[0]


def read_route_rules(enums):
    """get_packet_destination as a decision list: (kind, payload, result).
    kind 0: pdu_type == FILE_DATA; kind 1: directive in list; kind 2: ACK of directive d.
    result: 0 = SOURCE_HANDLER, 1 = DEST_HANDLER."""
    tree = ast.parse((SRC / "handler" / "common.py").read_text())
    fn = _find_func(tree, "get_packet_destination")
    dest_enum = {"SOURCE_HANDLER": 0, "DEST_HANDLER": 1}

    def result_of(stmts):
        if len(stmts) != 1 or not isinstance(stmts[0], ast.Return):
            raise Shape("route branch is not a single return")
        r = stmts[0].value
        if not (isinstance(r, ast.Attribute) and isinstance(r.value, ast.Name) and r.value.id == "PacketDestination"):
            raise Shape("route branch does not return PacketDestination.X")
        return dest_enum[r.attr]

    rules = []
    body = [s for s in fn.body if not (isinstance(s, ast.Expr) and isinstance(s.value, ast.Constant))]
    if not body or not isinstance(body[-1], ast.Raise):
        raise Shape("get_packet_destination does not end with raise")
    for st in body[:-1]:
        if not isinstance(st, ast.If) or st.orelse:
            raise Shape("unexpected statement in get_packet_destination")
        t = st.test
        if not (isinstance(t, ast.Compare) and len(t.ops) == 1):
            raise Shape("unexpected test")
        left, op, right = t.left, t.ops[0], t.comparators[0]
        if _is_attr_chain(left, "packet", "pdu_type") and isinstance(op, ast.Eq):
            if _enum_value(right, enums) != int(enums["PduType"].FILE_DATA.value):
                raise Shape("pdu_type compared with something other than FILE_DATA")
            rules.append((0, [], result_of(st.body)))
        elif _is_attr_chain(left, "packet", "directive_type") and isinstance(op, ast.In):
            if not isinstance(right, (ast.List, ast.Tuple)):
                raise Shape("directive list is not a literal")
            rules.append((1, [_enum_value(e, enums) for e in right.elts], result_of(st.body)))
        elif _is_attr_chain(left, "packet", "directive_type") and isinstance(op, ast.Eq):
            if _enum_value(right, enums) != int(enums["DirectiveType"].ACK_PDU.value):
                raise Shape("directive == X with X not ACK_PDU")
            inner = [s for s in st.body if isinstance(s, ast.If)]
            others = [s for s in st.body if not isinstance(s, (ast.If, ast.Assign))]
            if others:
                raise Shape("unexpected statement in ACK branch")
            for i in inner:
                tt = i.test
                if i.orelse or not (isinstance(tt, ast.Compare) and len(tt.ops) == 1 and isinstance(tt.ops[0], ast.Eq)
                                    and isinstance(tt.left, ast.Attribute)
                                    and tt.left.attr == "directive_code_of_acked_pdu"):
                    raise Shape("unexpected test in ACK branch")
                rules.append((2, [_enum_value(tt.comparators[0], enums)], result_of(i.body)))
        else:
            raise Shape("unexpected comparison in get_packet_destination")
    return rules


def read_source_invalid_directives(enums):
    tree = ast.parse((SRC / "handler" / "source.py").read_text())
    fn = _find_func(tree, "_check_inserted_packet")
    found = []
    for st in ast.walk(fn):
        if isinstance(st, ast.If) and isinstance(st.test, ast.Compare) and len(st.test.ops) == 1 \
                and isinstance(st.test.ops[0], ast.In) and _is_attr_chain(st.test.left, "packet", "directive_type") \
                and len(st.body) == 1 and isinstance(st.body[0], ast.Raise):
            exc = st.body[0].exc
            name = exc.func.id if isinstance(exc, ast.Call) and isinstance(exc.func, ast.Name) else None
            if name == "InvalidPduForSourceHandler":
                right = st.test.comparators[0]
                if not isinstance(right, (ast.List, ast.Tuple)):
                    raise Shape("source admission list is not a literal")
                found.append([_enum_value(e, enums) for e in right.elts])
    if len(found) > 1:
        raise Shape("more than one InvalidPduForSourceHandler directive list")
    return found[0] if found else []


def _dataclass_defaults(path: Path, cls_name: str, enums):
    tree = ast.parse(path.read_text())
    cls = _find_class(tree, cls_name)
    out = {}
    for st in cls.body:
        if isinstance(st, ast.AnnAssign) and isinstance(st.target, ast.Name) and st.value is not None:
            v = st.value
            if isinstance(v, ast.Constant):
                out[st.target.id] = v.value
            elif isinstance(v, ast.Attribute):
                out[st.target.id] = _enum_value(v, enums)
            elif isinstance(v, ast.Name):
                out[st.target.id] = v.id
            else:
                raise Shape(f"default of {cls_name}.{st.target.id} is not a literal")
    return out


def _enum_members(path: Path, cls_name: str):
    tree = ast.parse(path.read_text())
    cls = _find_class(tree, cls_name)
    out = []
    for st in cls.body:
        if isinstance(st, ast.Assign) and len(st.targets) == 1 and isinstance(st.targets[0], ast.Name) \
                and isinstance(st.value, ast.Constant) and isinstance(st.value.value, int):
            out.append((st.targets[0].id, st.value.value))
    if not out:
        raise Shape(f"enum {cls_name} has no members")
    return out


def _zlist(l):
    return "[" + "; ".join(str(int(x)) for x in l) + "]"


def render() -> tuple[str, dict]:
    enums = _enums()
    ft = read_fault_table(enums)
    rr = read_route_rules(enums)
    sid = read_source_invalid_directives(enums)
    rdef = _dataclass_defaults(SRC / "mib.py", "RemoteEntityCfg", enums)
    idef = _dataclass_defaults(SRC / "mib.py", "IndicationCfg", enums)
    dsteps = _enum_members(SRC / "handler" / "dest.py", "TransactionStep")
    ssteps = _enum_members(SRC / "handler" / "source.py", "TransactionStep")
    for k in ("positive_ack_timer_expiration_limit", "check_limit", "disposition_on_cancellation",
              "immediate_nak_mode", "nak_timer_expiration_limit"):
        if k not in rdef:
            raise Shape(f"RemoteEntityCfg default {k} missing")
    lines = [
        "(* GENERATED by harness/gentables.py from /repo/src on every run - do not edit. *)",
        "From CFDP Require Import Base.",
        "",
        "(* mib.py DefaultFaultHandlerBase.__init__: condition code -> fault handler code *)",
        "Definition default_fault_table : list (Z * Z) :=",
        "  [" + "; ".join(f"({k}, {v})" for k, v in ft) + "].",
        "",
        "(* handler/common.py get_packet_destination as a decision list.",
        "   rule kind 0: pdu_type = FILE_DATA; 1: directive_type in list; 2: ACK of the listed directive.",
        "   result 0 = SOURCE_HANDLER, 1 = DEST_HANDLER; no rule applies = ValueError *)",
        "Definition route_rules : list (Z * list Z * Z) :=",
        "  [" + "; ".join(f"({k}, {_zlist(p)}, {r})" for k, p, r in rr) + "].",
        "",
        "(* handler/source.py _check_inserted_packet: directives refused as InvalidPduForSourceHandler *)",
        f"Definition source_invalid_directives : list Z := {_zlist(sid)}.",
        "",
        "(* mib.py RemoteEntityCfg defaults *)",
        f"Definition dflt_positive_ack_limit : Z := {int(rdef['positive_ack_timer_expiration_limit'])}.",
        f"Definition dflt_check_limit : Z := {int(rdef['check_limit'])}.",
        f"Definition dflt_nak_limit : Z := {int(rdef['nak_timer_expiration_limit'])}.",
        f"Definition dflt_disposition_on_cancellation : bool := {'true' if rdef['disposition_on_cancellation'] else 'false'}.",
        f"Definition dflt_immediate_nak_mode : bool := {'true' if rdef['immediate_nak_mode'] else 'false'}.",
        "",
        "(* mib.py IndicationCfg defaults, in declaration order *)",
        "Definition dflt_indications : list bool := [" + "; ".join('true' if v else 'false' for v in idef.values()) + "].",
        "",
        "(* TransactionStep members (value list) of both handlers *)",
        f"Definition dest_steps : list Z := {_zlist([v for _, v in dsteps])}.",
        f"Definition source_steps : list Z := {_zlist([v for _, v in ssteps])}.",
        "",
    ]
    txt = "\n".join(lines)
    info = {"fault_table": ft, "route_rules": rr, "source_invalid_directives": sid,
            "remote_defaults": {k: rdef[k] for k in rdef if isinstance(rdef[k], (int, float, bool))},
            "dest_steps": dsteps, "source_steps": ssteps,
            "sha1": hashlib.sha1(txt.encode()).hexdigest()[:12]}
    return txt, info


def generate() -> dict:
    txt, info = render()
    OUT.parent.mkdir(parents=True, exist_ok=True)
    if not OUT.exists() or OUT.read_text() != txt:
        OUT.write_text(txt)
        info["rewritten"] = True
    return info


if __name__ == "__main__":
    print(generate())
