from harness import evprops, hcommon, hprop_run, mixed

PROP = "C12"
EXTRA_PROPS = ("C12b", "C12c", "C12d")      # invariant: no new file data after the sender's notice of cancellation
FAULT_TABLES = False
DEFAULT_ONLY = False


def cases(tier, rng):
    nt, nh = (150, 200) if tier == "quick" else (12000, 18000)
    over = {}
    if PROP == "C15":
        yield from c15_switch_cases(tier, rng)
    yield from mixed.mixed_cases(tier, rng, nt, nh, over, fault_tables=FAULT_TABLES)


def c15_switch_cases(tier, rng):
    from harness import campaign
    for mask in range(16):
        ind = tuple(bool(mask >> i & 1) for i in range(4))
        for mode in (0, 1):
            for msgs in (None, [0], [1105, 0], [1105, 1], [2]):
                c = campaign.rand_transfer_case(rng, ind=ind, mode=mode, req_mode=None, msgs=msgs)
                yield c


def run(tier, seed):
    rc_extra = []
    if PROP == "C14":
        rc_extra = evprops.set_handler_refuses()
    hc = hcommon.HandlerCheck(PROP, tier, seed)
    hc.gate(EXTRA_PROPS)
    hc.run_corpus(lambda kind: evprops.oracle_c12)
    for text in rc_extra:
        hc.v.violation("oracle: C14 " + text, {"api": "DefaultFaultHandlerBase.set_handler"})
    for case in hcommon.share(cases(tier, hc.rng)):
        case.run()
        for kind, ops, obs in case.sides:
            hc.add_trace(kind, ops, obs, label=type(case).__name__, oracle=evprops.oracle_c12, describe=case.describe)
        if len(hc.v.violations) > 3:
            break
    from harness import srcprops
    for _, cfg, data, k, reqs, m in hcommon.share(srcprops.c12_cancel_nak_cases(tier, hc.rng)):
        if len(hc.v.violations) > 3:
            break
        kind, ops, obs = srcprops.cancel_around_nak_case(cfg, data, k, reqs, m)
        hc.add_trace(kind, ops, obs, label=f"cancel after NAK@{k}+{m}", oracle=evprops.oracle_c12)
    # the source file is missing for one call (a read fails, nothing is sent), is put back, then the user cancels
    from harness.transfer import Cfg
    for mode in (0, 1):
        for k in (1, 2, 3, 4):
            cfg = Cfg(mode=mode, closure=hc.rng.random() < 0.5, max_seg=hc.rng.choice([2, 4]), max_packet=64, cktype=hc.rng.choice([0, 2, 3]))
            kind, ops, obs = srcprops.cancel_after_failed_read_case(cfg, bytes(hc.rng.getrandbits(8) for _ in range(13)), k)
            hc.add_trace(kind, ops, obs, label=f"cancel after a failed read@{k}", oracle=evprops.oracle_c12)
    hc.correspondence(project=hcommon.proj_all_external, theorem="props/C12.v (correspondence source+dest, all external observables)")
    return hc.finish("two-handler transfers with link faults, cancels (right/wrong id), write rejections, several transactions per "
                     "handler + hostile single-handler streams (PDUs of every type with wrong ids/directions/modes in every step, "
                     "undrained queues, resets, timer advances); sender: cancel requests at every point around a retransmission (k calls, NAK, m calls, cancel)" + (", random fault-handler tables on both sides" if FAULT_TABLES else "") +
                     ("; all 16 indication-switch settings x modes x message-to-user lists" if PROP == "C15" else "") +
                     "; distinct = (config class, visited (step, op, exception) set)")


def replay(path):
    return hprop_run.replay_generic(PROP, path, evprops.oracle_c12)
