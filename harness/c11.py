"""C11 — Transactions are isolated from earlier transactions and other handler instances."""
from harness import hcommon, sysprops

PROP = "C11"
EXTRA_PROPS = ("C11b",)     # history independence: idle handlers that agree on cfg, environment, queue (and counter) behave identically


def run(tier, seed):
    hc = hcommon.HandlerCheck(PROP, tier, seed)
    hc.gate(EXTRA_PROPS)
    for case in hcommon.share(sysprops.c11_cases(tier, hc.rng)):
        case.run()
        for kind, ops, obs in case.sides:
            hc.add_trace(kind, ops, obs, label="reused / sibling handlers", describe=case.describe)
        hc.judged += 1
        hc.count(("history", tuple(case.history)))
        if case.diff_history is not None:
            hc.world_violation(f"C11 the follow-up transaction behaves differently after the history {case.history} than on fresh "
                               f"handlers: {case.diff_history}", case.describe(), case.sides[:2])
        if case.diff_sibling is not None:
            hc.world_violation(f"C11 the transaction behaves differently while sibling handler instances are mid-transaction: "
                               f"{case.diff_sibling}", case.describe(), case.sides[2:])
        if not case.file_ok:
            hc.world_violation("C11 the delivered file differs between fresh and reused/sibling handlers", case.describe(), case.sides[:2])
        if len(hc.v.violations) > 3:
            break
    hc.correspondence(project=hcommon.proj_all_external, theorem="props/C11.v (correspondence: reused handlers vs model)")
    return hc.finish("the same follow-up transaction (both modes, with/without link faults) run on fresh handlers, on handlers after "
                     "1-3 earlier transactions (completed, lossy, cancelled at either side, abandoned after a silent peer), and next "
                     "to sibling handler instances that are mid-transaction with non-empty lost-segment trackers; traces compared up "
                     "to the sequence number; distinct = (config class, visited (step, op, exception) set)")


def replay(path):
    import json
    d = json.loads(open(path).read())
    print(json.dumps(d.get("case")))
    return 0
