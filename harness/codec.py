"""Integer codec shared by the implementation side of the correspondence and the Coq model
(coq/Codec.v mirrors these layouts).  PDUs, events, handler observations <-> lists of ints."""
from __future__ import annotations

from pathlib import Path

from spacepackets.cfdp import (ChecksumType, ConditionCode, CrcFlag, Direction, LargeFileFlag, PduConfig, PduType,
                               TransactionId, TransmissionMode)
from spacepackets.cfdp.pdu import (AckPdu, DirectiveType, EofPdu, FileDataPdu, FinishedPdu, KeepAlivePdu,
                                   MetadataParams, MetadataPdu, NakPdu, PromptPdu, TransactionStatus)
from spacepackets.cfdp.pdu.file_data import FileDataParams
from spacepackets.cfdp.pdu.finished import DeliveryCode, FileStatus, FinishedParams
from spacepackets.cfdp.pdu.prompt import ResponseRequired
from spacepackets.cfdp.tlv import (EntityIdTlv, MessageToUserTlv, OriginatingTransactionId, ProxyMessageType,
                                   ProxyPutResponse, ProxyPutResponseParams, ProxyClosureRequest)
from spacepackets.util import ByteFieldGenerator, UnsignedByteField

K_FD, K_MD, K_EOF, K_FIN, K_ACK, K_NAK, K_KA, K_PROMPT = range(8)


# ------------------------------------------------------------------ paths
class PathMap:
    """component id k <-> 'n<k>' below a root (host directory, or a virtual root for in-memory stores)."""

    def __init__(self, root: str):
        self.root = root.rstrip("/")

    def to_str(self, comps) -> str:
        return self.root + "".join(f"/n{c}" for c in comps)

    def to_path(self, comps) -> Path:
        return Path(self.to_str(comps))

    def from_str(self, s: str):
        s = str(s)
        if s == self.root:
            return []
        if not s.startswith(self.root + "/"):
            return [999999]  # foreign path: encoded as a reserved component
        out = []
        for part in s[len(self.root) + 1:].split("/"):
            if part.startswith("n") and part[1:].isdigit():
                out.append(int(part[1:]))
            else:
                out.append(999998)
        return out


def enc_path(comps):
    return [len(comps)] + list(comps)


# ------------------------------------------------------------------ messages to user
def msg_from_code(code: int) -> MessageToUserTlv:
    if code == 0:
        return MessageToUserTlv(b"hello")
    if code == 1:
        return ProxyPutResponse(ProxyPutResponseParams(ConditionCode.NO_ERROR, DeliveryCode.DATA_COMPLETE,
                                                       FileStatus.FILE_RETAINED)).to_generic_msg_to_user_tlv()
    if code == 2:
        return ProxyClosureRequest(True).to_generic_msg_to_user_tlv()
    if code >= 1000:
        k = code - 1000
        tid = TransactionId(ByteFieldGenerator.from_int(2, k // 100), ByteFieldGenerator.from_int(2, k % 100))
        return OriginatingTransactionId(tid).to_generic_msg_to_user_tlv()
    raise ValueError(code)


def msg_to_code(m) -> int:
    if not m.is_reserved_cfdp_message():
        return 0
    r = m.to_reserved_msg_tlv()
    if r.is_originating_transaction_id():
        t = r.get_originating_transaction_id()
        return 1000 + t.source_id.value * 100 + t.seq_num.value
    if r.is_cfdp_proxy_operation() and r.get_cfdp_proxy_message_type() == ProxyMessageType.PUT_RESPONSE:
        return 1
    return 2


# ------------------------------------------------------------------ PDUs
def enc_hdr(p):
    h = p.pdu_header
    c = h.pdu_conf
    return [int(c.direction), int(c.trans_mode), 1 if c.crc_flag == CrcFlag.WITH_CRC else 0,
            1 if c.file_flag == LargeFileFlag.LARGE else 0, c.source_entity_id.value, c.dest_entity_id.value,
            c.source_entity_id.byte_len, c.transaction_seq_num.value, c.transaction_seq_num.byte_len]


def _cond(v):
    v = int(v)
    return v >> 4 if v > 15 else v    # spacepackets 0.26.1 EofPdu.unpack keeps the unshifted nibble


def enc_pdu(p, pm: PathMap):
    h = enc_hdr(p)
    if p.pdu_type == PduType.FILE_DATA:
        d = bytes(p.file_data)
        return [K_FD] + h + [p.offset, len(d)] + list(d)
    dt = p.directive_type
    if dt == DirectiveType.METADATA_PDU:
        body = [1 if p.closure_requested else 0, int(p.checksum_type), p.file_size]
        if p.source_file_name is None or p.dest_file_name is None:
            body += [0]
        else:
            body += [1] + enc_path(pm.from_str(p.source_file_name)) + enc_path(pm.from_str(p.dest_file_name))
        msgs = []
        opts = p.options_as_tlv()
        if opts:
            from spacepackets.cfdp import TlvType
            for t in opts:
                if t.tlv_type == TlvType.MESSAGE_TO_USER:
                    msgs.append(msg_to_code(MessageToUserTlv.from_tlv(t)))
        return [K_MD] + h + body + [len(msgs)] + msgs
    if dt == DirectiveType.EOF_PDU:
        fl = p.fault_location
        return [K_EOF] + h + [_cond(p.condition_code)] + list(bytes(p.file_checksum)) + [p.file_size] + \
            ([1, int.from_bytes(fl.value, "big"), len(fl.value)] if fl is not None else [0, 0, 0])
    if dt == DirectiveType.FINISHED_PDU:
        fl = p.fault_location
        has = fl is not None and p.might_have_fault_location
        return [K_FIN] + h + [int(p.condition_code), int(p.delivery_code), int(p.file_status)] + \
            ([1, int.from_bytes(fl.value, "big"), len(fl.value)] if has else [0, 0, 0])
    if dt == DirectiveType.ACK_PDU:
        return [K_ACK] + h + [int(p.directive_code_of_acked_pdu), int(p.condition_code_of_acked_pdu),
                              int(p.transaction_status)]
    if dt == DirectiveType.NAK_PDU:
        r = p.segment_requests or []
        return [K_NAK] + h + [p.start_of_scope, p.end_of_scope, len(r)] + [x for s in r for x in s]
    if dt == DirectiveType.KEEP_ALIVE_PDU:
        return [K_KA] + h + [p.progress]
    if dt == DirectiveType.PROMPT_PDU:
        return [K_PROMPT] + h + [int(p.response_required)]
    raise ValueError(dt)


def take_path(l, i):
    n = l[i]
    return list(l[i + 1:i + 1 + n]), i + 1 + n


def build_pdu(l, pm: PathMap):
    """ints -> real spacepackets PDU object (then usually packed and re-parsed by the caller)."""
    kind = l[0]
    dirn, mode, crc, large, src, dst, idw, seq, seqw = l[1:10]
    conf = PduConfig(source_entity_id=UnsignedByteField(src, idw), dest_entity_id=UnsignedByteField(dst, idw),
                     transaction_seq_num=UnsignedByteField(seq, seqw), trans_mode=TransmissionMode(mode),
                     file_flag=LargeFileFlag.LARGE if large else LargeFileFlag.NORMAL,
                     crc_flag=CrcFlag.WITH_CRC if crc else CrcFlag.NO_CRC, direction=Direction(dirn))
    b = l[10:]
    if kind == K_FD:
        p = FileDataPdu(conf, FileDataParams(file_data=bytes(b[2:2 + b[1]]), offset=b[0], segment_metadata=None))
    elif kind == K_MD:
        closure, ck, fsize, has = b[0], b[1], b[2], b[3]
        i = 4
        sn = dn = None
        if has:
            sp, i = take_path(b, i)
            dp, i = take_path(b, i)
            sn, dn = pm.to_str(sp), pm.to_str(dp)
        n = b[i]
        msgs = [msg_from_code(c) for c in b[i + 1:i + 1 + n]]
        p = MetadataPdu(conf, MetadataParams(bool(closure), ChecksumType(ck), fsize, sn, dn),
                        options=msgs if msgs else None)
    elif kind == K_EOF:
        fl = EntityIdTlv(b[7].to_bytes(b[8], "big")) if b[6] else None
        p = EofPdu(conf, bytes(b[1:5]), b[5], fault_location=fl, condition_code=ConditionCode(b[0]))
    elif kind == K_FIN:
        fl = EntityIdTlv(b[4].to_bytes(b[5], "big")) if b[3] else None
        p = FinishedPdu(conf, FinishedParams(condition_code=ConditionCode(b[0]), delivery_code=DeliveryCode(b[1]),
                                             file_status=FileStatus(b[2]), fault_location=fl))
    elif kind == K_ACK:
        p = AckPdu(conf, DirectiveType(b[0]), ConditionCode(b[1]), TransactionStatus(b[2]))
    elif kind == K_NAK:
        n = b[2]
        p = NakPdu(conf, b[0], b[1], [(b[3 + 2 * k], b[4 + 2 * k]) for k in range(n)])
    elif kind == K_KA:
        p = KeepAlivePdu(conf, b[0])
    elif kind == K_PROMPT:
        p = PromptPdu(conf, ResponseRequired(b[0]))
    else:
        raise ValueError(kind)
    # constructors force the direction proper to the type; hostile streams want arbitrary bits
    p.pdu_header.pdu_conf.direction = Direction(dirn)
    return p


def parse(raw: bytes):
    """bytes -> PDU object private to the receiver; normalise the one codec quirk of spacepackets 0.26.1
    (EofPdu.unpack keeps the condition code unshifted)."""
    from spacepackets.cfdp.pdu.helper import PduFactory
    q = PduFactory.from_raw(bytes(raw))
    if q is not None and q.pdu_type == PduType.FILE_DIRECTIVE and q.directive_type == DirectiveType.EOF_PDU:
        cc = int(q.condition_code)
        if cc > 15:
            q.condition_code = ConditionCode(cc >> 4)
    return q


def reparse(p):
    """Transport a PDU object as bytes."""
    return parse(bytes(p.pack()))


# ------------------------------------------------------------------ events
def enc_tid(t):
    return [t.source_id.value, t.seq_num.value] if t is not None else [-1, -1]


def enc_event(e):
    """e = tuple(kind, ...) as recorded by the harness' user / fault handler objects (already ints)."""
    return [len(e)] + list(e)


# ------------------------------------------------------------------ observations
def _timer(t):
    return [0, 0, 0] if t is None else [1, t._start_time_ms, t._timeout_ms]


def obs_dest(h, pm: PathMap):
    p = h._params
    fp = p.fp
    fin = p.finished_params
    fl = fin.fault_location
    tr = p.acked_params.lost_seg_tracker.lost_segments
    out = [h.states.state.value, h.states.step.value, h.states._num_packets_ready, len(h._pdus_to_be_sent),
           fp.progress, -1 if fp.file_size is None else fp.file_size,
           -1 if fp.file_size_eof is None else fp.file_size_eof,
           1 if fp.metadata_only else 0]
    out += enc_tid(p.transaction_id)
    out += [1 if p.closure_requested else 0, int(p.checksum_type), int(fin.condition_code), int(fin.delivery_code),
            int(fin.file_status), -1 if fl is None else int.from_bytes(fl.value, "big"),
            p.completion_disposition.value, p.current_check_count,
            p.acked_params.nak_activity_counter, p.positive_ack_params.ack_counter,
            1 if p.acked_params.deferred_lost_segment_detection_active else 0,
            1 if p.acked_params.metadata_missing else 0,
            p.acked_params.last_start_offset, p.acked_params.last_end_offset]
    out += _timer(p.check_timer) + _timer(p.acked_params.procedure_timer) + _timer(p.positive_ack_params.ack_timer)
    out += [len(tr)] + [x for kv in tr.items() for x in kv]
    return out


DEST_FIELDS = ["state", "step", "num_ready", "qlen", "progress", "file_size", "file_size_eof", "metadata_only",
               "tid_src", "tid_seq", "closure", "cktype", "fin_cond", "fin_deliv", "fin_fstatus", "fin_fl",
               "disposition", "check_count", "nak_counter", "ack_counter", "deferred_active", "metadata_missing",
               "last_start", "last_end", "check_timer_on", "check_timer_start", "check_timer_ms",
               "proc_timer_on", "proc_timer_start", "proc_timer_ms", "ack_timer_on", "ack_timer_start", "ack_timer_ms"]


def obs_source(h, pm: PathMap):
    p = h._params
    fp = p.fp
    fin = p.finished_params
    out = [h.states.state.value, h.states.step.value, h.states._num_packets_ready, len(h._pdus_to_be_sent),
           fp.progress, -1 if fp.file_size is None else fp.file_size, fp.segment_len,
           1 if fp.metadata_only else 0, 1 if fp.empty_file else 0]
    out += enc_tid(p.transaction_id)
    out += [1 if p.closure_requested else 0, -1 if p.cond_code_eof is None else int(p.cond_code_eof),
            p.positive_ack_params.ack_counter,
            -1 if p.ack_params.step_before_retransmission is None else p.ack_params.step_before_retransmission.value,
            1 if p.remote_cfg is not None else 0, 1 if h._put_req is not None else 0]
    if fin is None:
        out += [0, 0, 0, 0]
    else:
        out += [1, int(fin.condition_code), int(fin.delivery_code), int(fin.file_status)]
    out += _timer(p.check_timer) + _timer(p.positive_ack_params.ack_timer)
    return out


SOURCE_FIELDS = ["state", "step", "num_ready", "qlen", "progress", "file_size", "segment_len", "metadata_only",
                 "empty_file", "tid_src", "tid_seq", "closure", "cond_code_eof", "ack_counter", "step_before_retx",
                 "has_remote_cfg", "has_put_req", "has_fin", "fin_cond", "fin_deliv", "fin_fstatus",
                 "check_timer_on", "check_timer_start", "check_timer_ms", "ack_timer_on", "ack_timer_start", "ack_timer_ms"]


# ------------------------------------------------------------------ ints -> dict (for oracles)
def dec_pdu(l):
    kind = l[0]
    d = dict(zip(["dir", "mode", "crc", "large", "src", "dst", "idw", "seq", "seqw"], l[1:10]))
    d["kind"] = kind
    b = l[10:]
    if kind == K_FD:
        d.update(offset=b[0], data=bytes(b[2:2 + b[1]]))
    elif kind == K_MD:
        d.update(closure=b[0], cktype=b[1], fsize=b[2])
        i = 4
        if b[3]:
            sp, i = take_path(b, i)
            dp, i = take_path(b, i)
            d.update(src_name=tuple(sp), dst_name=tuple(dp))
        else:
            d.update(src_name=None, dst_name=None)
        d["msgs"] = list(b[i + 1:i + 1 + b[i]])
    elif kind == K_EOF:
        d.update(cond=b[0], cksum=bytes(b[1:5]), fsize=b[5], fl=(b[7], b[8]) if b[6] else None)
    elif kind == K_FIN:
        d.update(cond=b[0], deliv=b[1], fstatus=b[2], fl=(b[4], b[5]) if b[3] else None)
    elif kind == K_ACK:
        d.update(acked=b[0], cond=b[1], status=b[2])
    elif kind == K_NAK:
        d.update(sos=b[0], eos=b[1], reqs=[(b[3 + 2 * k], b[4 + 2 * k]) for k in range(b[2])])
    elif kind == K_KA:
        d.update(progress=b[0])
    elif kind == K_PROMPT:
        d.update(resp=b[0])
    return d


def dec_got(extra):
    """extra of a get op -> (pdu dict, packed_len) or None"""
    if not extra:
        return None
    n = extra[0]
    d = dec_pdu(extra[1:1 + n])
    d["parse_ok"] = extra[2 + n] if len(extra) > 2 + n else 1
    return d, extra[1 + n]


def dec_lcfg(l):
    """config op body (after the leading 9) -> dict"""
    d = dict(local_id=l[0], local_idw=l[1], ind=tuple(bool(x) for x in l[2:6]))
    nf = l[6]
    d["faults"] = {l[7 + 2 * k]: l[8 + 2 * k] for k in range(nf)}
    i = 7 + 2 * nf
    d["check_ms"] = l[i]
    nr = l[i + 1]
    i += 2
    rs = []
    names = ["id", "idw", "has_max_seg", "max_seg", "max_packet", "closure", "crc", "mode", "cktype", "ack_ms", "ack_limit",
             "check_limit", "disposition", "imm_nak", "nak_ms", "nak_limit"]
    for _ in range(nr):
        r = dict(zip(names, l[i:i + 16]))
        if not r["has_max_seg"]:
            r["max_seg"] = None
        rs.append(r)
        i += 16
    d["remotes"] = rs
    d["rest"] = l[i:]
    return d
