"""C19 — Put requests are admitted, parameterised and identified correctly."""
import json

from harness import campaign, hcommon, srcprops, transfer

PROP = "C19"


def run(tier, seed):
    hc = hcommon.HandlerCheck(PROP, tier, seed)
    hc.gate()
    hc.run_corpus(lambda kind: srcprops.oracle_c19)
    for cfg, data in hcommon.share(srcprops.c19_put_matrix_cases(hc.rng)):
        kind, ops, obs = srcprops.nominal_source_case(cfg, data, ncalls=4)
        hc.add_trace(kind, ops, obs, label="mode/closure matrix", oracle=srcprops.oracle_c19)
        hc.count(("req_mode", cfg.req_mode, "req_closure", cfg.req_closure))
    for seq in hcommon.share(srcprops.c19_seq_edge_cases(hc.rng)):
        kind, ops, obs = srcprops.reuse_source_case(seq, tag="c19s")
        hc.add_trace(kind, ops, obs, label="sequence numbers up to the top of the field", oracle=srcprops.oracle_c19)
        hc.count(("seq_edge", seq[0][0].seqw, seq[0][0].seq_start - 2 ** (8 * seq[0][0].seqw)))
    n = 250 if tier == "quick" else 20000
    for _ in range(n):
        c = campaign.rand_hostile_case(hc.rng, "source")
        c.run()
        kind, ops, obs = c.sides[0]
        hc.add_trace(kind, ops, obs, label="hostile source stream", oracle=srcprops.oracle_c19, describe=c.describe)
        for op, ob in zip(ops, obs):
            if op[0] == 8 and ob:
                hc.count(("put", "ret", ob[1], "exc", ob[0]))
        if len(hc.v.violations) > 3:
            break
    hc.correspondence(project=hcommon.proj_all_external, theorem="c19_put_* / c19_transaction_start (correspondence source)")
    return hc.finish("all 3x3x2x2 request/MIB mode+closure combinations on fresh handlers + runs of 4 consecutive transactions whose "
                     "provider values reach and pass the largest value of an 8/16/32-bit sequence-number field + random source op streams with valid, "
                     "invalid (missing file, unknown entity) and premature put requests interleaved with running transactions; "
                     "distinct = (config class, set of (step, op, exception) visited)")


def replay(path):
    d = json.loads(open(path).read())
    obs, _ = transfer.replay_ops(d["kind"], d["ops"])
    try:
        srcprops.oracle_c19(hcommon.Trace(d["kind"], d["ops"], obs))
    except hcommon.Failure as f:
        print(f"VIOLATION property={PROP} replay={path}")
        print(" ", f)
        return 1
    return 0
