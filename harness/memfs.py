"""A purely in-memory VirtualFilestore (for C16) with the semantics of the reference model Fs.v, plus a recorder of
every call made through the interface."""
from __future__ import annotations

from pathlib import Path

from crcmod.predefined import PredefinedCrc
from spacepackets.cfdp.defs import NULL_CHECKSUM_U32, ChecksumType
from spacepackets.cfdp.tlv import FilestoreResponseStatusCode as RC

from cfdppy.exceptions import ChecksumNotImplemented
from cfdppy.filestore import VirtualFilestore


class MemFilestore(VirtualFilestore):
    def __init__(self, root: str):
        self.root = str(root).rstrip("/")
        self.nodes = {self.root: None}      # path string -> bytes | None (directory)
        self.calls = []
        self.reject = False

    def _k(self, p) -> str:
        return str(p).rstrip("/") or "/"

    def _parent_ok(self, k: str) -> bool:
        par = k.rsplit("/", 1)[0]
        return par in self.nodes and self.nodes[par] is None

    # --- interface
    def read_data(self, file: Path, offset, read_len=None) -> bytes:
        self.calls.append(("read_data", self._k(file)))
        k = self._k(file)
        if k not in self.nodes:
            raise FileNotFoundError(file)
        if self.nodes[k] is None:
            raise IsADirectoryError(file)
        d = self.nodes[k]
        offset = offset or 0
        return d[offset:] if read_len is None else d[offset:offset + read_len]

    def read_from_opened_file(self, bytes_io, offset: int, read_len: int) -> bytes:
        self.calls.append(("read_from_opened_file",))
        bytes_io.seek(offset)
        return bytes_io.read(read_len)

    def is_directory(self, path: Path) -> bool:
        self.calls.append(("is_directory", self._k(path)))
        k = self._k(path)
        return k in self.nodes and self.nodes[k] is None

    def filename_from_full_path(self, path: Path):
        return Path(path).name

    def file_exists(self, path: Path) -> bool:
        self.calls.append(("file_exists", self._k(path)))
        return self._k(path) in self.nodes

    def truncate_file(self, file: Path) -> None:
        self.calls.append(("truncate_file", self._k(file)))
        k = self._k(file)
        if k not in self.nodes:
            raise FileNotFoundError(file)
        if self.nodes[k] is None:
            raise IsADirectoryError(file)
        self.nodes[k] = b""

    def file_size(self, file: Path) -> int:
        self.calls.append(("file_size", self._k(file)))
        k = self._k(file)
        if k not in self.nodes:
            raise FileNotFoundError(file)
        return 0 if self.nodes[k] is None else len(self.nodes[k])

    def write_data(self, file: Path, data: bytes, offset) -> None:
        self.calls.append(("write_data", self._k(file)))
        if self.reject:
            raise PermissionError(file)
        k = self._k(file)
        if k not in self.nodes:
            raise FileNotFoundError(file)
        if self.nodes[k] is None:
            raise IsADirectoryError(file)
        old = self.nodes[k]
        offset = offset or 0
        if data:
            self.nodes[k] = old[:offset] + bytes(max(0, offset - len(old))) + bytes(data) + old[offset + len(data):]

    def create_file(self, file: Path) -> RC:
        self.calls.append(("create_file", self._k(file)))
        k = self._k(file)
        if k in self.nodes or not self._parent_ok(k):
            return RC.CREATE_NOT_ALLOWED
        self.nodes[k] = b""
        return RC.CREATE_SUCCESS

    def delete_file(self, file: Path) -> RC:
        self.calls.append(("delete_file", self._k(file)))
        k = self._k(file)
        if k not in self.nodes:
            return RC.DELETE_FILE_DOES_NOT_EXIST
        if self.nodes[k] is None:
            return RC.DELETE_NOT_ALLOWED
        del self.nodes[k]
        return RC.DELETE_SUCCESS

    def rename_file(self, _old_file, _new_file) -> RC:
        return RC.NOT_PERFORMED

    def replace_file(self, _replaced_file, _source_file) -> RC:
        return RC.NOT_PERFORMED

    def create_directory(self, _dir_name) -> RC:
        return RC.NOT_PERFORMED

    def remove_directory(self, _dir_name, recursive: bool = False) -> RC:
        return RC.NOT_PERFORMED

    def list_directory(self, _dir_name, _file_name, _recursive: bool = False) -> RC:
        return RC.NOT_PERFORMED

    def calculate_checksum(self, checksum_type, file_path, size_to_verify, segment_len=4096) -> bytes:
        self.calls.append(("calculate_checksum", self._k(file_path)))
        if checksum_type == ChecksumType.NULL_CHECKSUM:
            return NULL_CHECKSUM_U32
        k = self._k(file_path)
        if k not in self.nodes:
            raise FileNotFoundError(file_path)
        if self.nodes[k] is None:
            raise IsADirectoryError(file_path)
        d = self.nodes[k][:max(size_to_verify, 0)]
        if checksum_type == ChecksumType.MODULAR:
            s = 0
            for i, b in enumerate(d):
                s += b << (8 * (3 - i % 4))
            return (s % 2 ** 32).to_bytes(4, "big")
        if segment_len == 0:
            raise ValueError("segment length can not be 0")
        if checksum_type == ChecksumType.CRC_32:
            c = PredefinedCrc("crc32")
        elif checksum_type == ChecksumType.CRC_32C:
            c = PredefinedCrc("crc32c")
        else:
            raise ChecksumNotImplemented(checksum_type)
        c.update(d)
        return c.digest()
