"""C05 — Destination file equals the write-model of the accepted File Data PDUs."""
from harness import dstprops, hcommon, hprop_run

PROP = "C05"


def proj(kind, d):
    return (d["exc"], tuple(d["extra"]), d["fields"].get("state"), tuple(e for e in d["events"] if e[0] in (3, 5)))


def cases(tier, rng):
    for _ in range(250 if tier == "quick" else 20000):
        yield dstprops.c05_case(rng)


def run(tier, seed):
    return hprop_run.run_generic(PROP, tier, seed, cases, dstprops.oracle_c05, proj,
        "random destination histories: Metadata / File Data (grid, arbitrary offsets, overlaps, duplicates, beyond EOF) / EOF / "
        "ACK / foreign PDUs, timer advances, cancels, write rejections, resets, several transactions per handler, destination as "
        "file / directory / existing file; five probe paths read back after every call; distinct = (config class, visited "
        "(step, op, exception) set)", theorem="c05_* (correspondence dest: file snapshots)", label="probed hostile dest stream")


def replay(path):
    return hprop_run.replay_generic(PROP, path, dstprops.oracle_c05)
