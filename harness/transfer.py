"""Two-handler CFDP system under a virtual clock: the implementation side of the correspondence
and of the system-level oracles (DESIGN.md 3.3-3.5, 4).

* `World` wires one SourceHandler (entity A) and one DestHandler (entity B) with recording users,
  fault handlers, filestores and a lossy link; every API call on a handler is recorded as an
  int-coded op together with its int-coded observation, so that the same call sequence can be
  replayed on the Coq model (kinds "dest" / "source" of the extracted runner).
"""
from __future__ import annotations

import os
import shutil
from dataclasses import dataclass, field
from pathlib import Path

import spacepackets.countdown as _cd
from spacepackets.cfdp import ChecksumType, ConditionCode, TransactionId, TransmissionMode
from spacepackets.cfdp.pdu import AckPdu, DirectiveType, TransactionStatus
from spacepackets.cfdp.pdu.helper import PduFactory
from spacepackets.countdown import Countdown
from spacepackets.seqcount import SeqCountProvider
from spacepackets.util import ByteFieldGenerator, UnsignedByteField

from cfdppy import exceptions as cex
from cfdppy.filestore import NativeFilestore
from cfdppy.handler.common import PacketDestination, get_packet_destination
from cfdppy.handler.dest import DestHandler, acknowledge_inactive_eof_pdu
from cfdppy.handler.source import SourceHandler
from cfdppy.mib import (CheckTimerProvider, DefaultFaultHandlerBase, IndicationCfg, LocalEntityCfg, RemoteEntityCfg,
                        RemoteEntityCfgTable)
from cfdppy.request import PutRequest
from cfdppy.user import CfdpUserBase

from harness import codec, common


class VClock:
    now = 0


def install_clock():
    _cd.time_ms = lambda: VClock.now


install_clock()

EXC_CODES = [
    (cex.UnretrievedPdusToBeSent, 1), (cex.InvalidPduDirection, 2), (cex.InvalidDestinationId, 3),
    (cex.InvalidSourceId, 4), (cex.NoRemoteEntityCfgFound, 5), (cex.InvalidPduForDestHandler, 6),
    (cex.InvalidPduForSourceHandler, 7), (cex.PduIgnoredForDest, 8), (cex.PduIgnoredForSource, 9),
    (cex.InvalidNakPdu, 10), (cex.InvalidTransactionSeqNum, 11), (cex.SourceFileDoesNotExist, 12),
    (cex.ChecksumNotImplemented, 13),
    (AssertionError, 101), (FileNotFoundError, 201), (IsADirectoryError, 202), (NotADirectoryError, 201),
    (PermissionError, 204), (ValueError, 102), (TypeError, 103), (AttributeError, 104), (KeyError, 105),
]
LIB_EXC = set(range(1, 14))


def exc_code(e: BaseException) -> int:
    for cls, c in EXC_CODES:
        if type(e) is cls:
            return c
    for cls, c in EXC_CODES:
        if isinstance(e, cls):
            return c
    return 199


class RecUser(CfdpUserBase):
    def __init__(self, vfs, log):
        super().__init__(vfs)
        self.log = log
        self.pm = None

    def transaction_indication(self, p):
        o = p.originating_transaction_id
        self.log.append((1, *codec.enc_tid(p.transaction_id), *( [1] + codec.enc_tid(o) if o is not None else [0, -1, -1])))

    def eof_sent_indication(self, transaction_id):
        self.log.append((2, *codec.enc_tid(transaction_id)))

    def transaction_finished_indication(self, params):
        f = params.finished_params
        fl = f.fault_location
        self.log.append((3, *codec.enc_tid(params.transaction_id), int(f.condition_code), int(f.delivery_code),
                         int(f.file_status), -1 if fl is None else int.from_bytes(fl.value, "big")))

    def metadata_recv_indication(self, params):
        ev = [4, *codec.enc_tid(params.transaction_id), params.source_id.value,
              -1 if params.file_size is None else params.file_size]
        if params.source_file_name is None or params.dest_file_name is None:
            ev += [0]
        else:
            ev += [1] + codec.enc_path(self.pm.from_str(params.source_file_name)) + \
                  codec.enc_path(self.pm.from_str(params.dest_file_name))
        if params.msgs_to_user is None:
            ev += [0, 0]
        else:
            ev += [1, len(params.msgs_to_user)] + [codec.msg_to_code(m) for m in params.msgs_to_user]
        self.log.append(tuple(ev))

    def file_segment_recv_indication(self, params):
        self.log.append((5, *codec.enc_tid(params.transaction_id), params.offset, params.length))

    def report_indication(self, transaction_id, status_report):
        self.log.append((7, *codec.enc_tid(transaction_id)))

    def suspended_indication(self, transaction_id, cond_code):
        self.log.append((8, *codec.enc_tid(transaction_id)))

    def resumed_indication(self, transaction_id, progress):
        self.log.append((9, *codec.enc_tid(transaction_id)))

    def fault_indication(self, transaction_id, cond_code, progress):
        self.log.append((20, *codec.enc_tid(transaction_id), int(cond_code), progress))

    def abandoned_indication(self, transaction_id, cond_code, progress):
        self.log.append((21, *codec.enc_tid(transaction_id), int(cond_code), progress))

    def eof_recv_indication(self, transaction_id):
        self.log.append((6, *codec.enc_tid(transaction_id)))


class RecFaults(DefaultFaultHandlerBase):
    def __init__(self, log):
        super().__init__()
        self.log = log

    def _rec(self, k, tid, cond, progress):
        self.log.append((10 + k, *codec.enc_tid(tid), int(cond), progress))

    def notice_of_cancellation_cb(self, transaction_id, cond, progress):
        self._rec(1, transaction_id, cond, progress)

    def notice_of_suspension_cb(self, transaction_id, cond, progress):
        self._rec(2, transaction_id, cond, progress)

    def ignore_cb(self, transaction_id, cond, progress):
        self._rec(3, transaction_id, cond, progress)

    def abandoned_cb(self, transaction_id, cond, progress):
        self._rec(4, transaction_id, cond, progress)


class TimerProv(CheckTimerProvider):
    def __init__(self, ms):
        self.ms = ms

    def provide_check_timer(self, local_entity_id, remote_entity_id, entity_type):
        return Countdown.from_millis(self.ms)


class RejectingFilestore(NativeFilestore):
    """NativeFilestore whose write_data can be made to fail with PermissionError (destination write rejection)."""

    def __init__(self):
        super().__init__()
        self.reject = False

    def write_data(self, file, data, offset):
        if self.reject:
            raise PermissionError(file)
        return super().write_data(file, data, offset)

    # reject == 2: the filestore also refuses to create / truncate the destination file (the PermissionError branch of
    # DestHandler._init_vfs_handling).  The Coq model's rejection switch covers write_data only, so traces that use this
    # mode are judged by the oracles on the implementation and are not part of the correspondence.
    def create_file(self, file):
        if self.reject == 2:
            raise PermissionError(file)
        return super().create_file(file)

    def truncate_file(self, file):
        if self.reject == 2:
            raise PermissionError(file)
        return super().truncate_file(file)


@dataclass
class Cfg:
    mode: int = 1                 # MIB default transmission mode of the remote cfg: 0 acked / 1 unacked
    closure: bool = False         # MIB closure requested
    req_mode: int | None = None   # request level (None = from MIB)
    req_closure: bool | None = None
    crc: bool = False
    cktype: int = 3               # CRC32
    src_id: int = 1
    src_idw: int = 2
    dst_id: int = 2
    dst_idw: int = 2
    seqw: int = 2                 # bytes
    seq_start: int = 0
    max_seg: int | None = 4
    max_packet: int = 64
    ack_ms: int = 1000
    ack_limit: int = 2
    check_limit: int = 2
    check_ms: int = 1000
    disposition: bool = False
    imm_nak: bool = True
    nak_ms: int = 1000
    nak_limit: int = 2
    ind: tuple = (True, True, True, True)    # eof_sent, eof_recv, file_segment, transaction_finished
    src_faults: dict = field(default_factory=dict)   # cond -> handler code overrides
    dst_faults: dict = field(default_factory=dict)
    msgs: list | None = None
    metadata_only: bool = False
    src_path: tuple = (1,)
    dst_path: tuple = (2,)
    # a second remote entity in the SOURCE's MIB (nobody answers for it): {"id": 3, "idw": 2, <Cfg field overrides>}
    # the receiver's view of the sender may use other timer intervals / limits than the sender's view of the receiver:
    # overrides of Cfg fields for the DESTINATION's remote entity configuration (e.g. {"ack_ms": 250, "nak_ms": 250})
    dst_over: dict | None = None
    alt_remote: dict | None = None
    dst_alt_remote: dict | None = None   # a second SENDING entity known to the receiver ({"id":, "idw":, overrides ...})
    put_to_alt: bool = False      # the next put request addresses the alternative remote


def remote_cfg(cfg: Cfg, entity_id: int, idw: int) -> RemoteEntityCfg:
    return RemoteEntityCfg(
        entity_id=UnsignedByteField(entity_id, idw), max_file_segment_len=cfg.max_seg, max_packet_len=cfg.max_packet,
        closure_requested=cfg.closure, crc_on_transmission=cfg.crc,
        default_transmission_mode=TransmissionMode(cfg.mode), crc_type=ChecksumType(cfg.cktype),
        positive_ack_timer_interval_seconds=cfg.ack_ms / 1000.0, positive_ack_timer_expiration_limit=cfg.ack_limit,
        check_limit=cfg.check_limit, disposition_on_cancellation=cfg.disposition, immediate_nak_mode=cfg.imm_nak,
        nak_timer_interval_seconds=cfg.nak_ms / 1000.0, nak_timer_expiration_limit=cfg.nak_limit)


def enc_rcfg(r: RemoteEntityCfg):
    return [r.entity_id.value, r.entity_id.byte_len, 0 if r.max_file_segment_len is None else 1,
            0 if r.max_file_segment_len is None else r.max_file_segment_len, r.max_packet_len,
            1 if r.closure_requested else 0, 1 if r.crc_on_transmission else 0, int(r.default_transmission_mode),
            int(r.crc_type), round(r.positive_ack_timer_interval_seconds * 1000), r.positive_ack_timer_expiration_limit,
            r.check_limit, 1 if r.disposition_on_cancellation else 0, 1 if r.immediate_nak_mode else 0,
            round(r.nak_timer_interval_seconds * 1000), r.nak_timer_expiration_limit]


class Side:
    """One handler + its recorded op/observation trace."""

    def __init__(self, world, kind):
        self.w = world
        self.kind = kind               # "source" | "dest"
        self.h = None
        self.log = []                  # events since the last op
        self.ops = []                  # int-coded ops
        self.obs = []                  # int-coded observations (impl)
        self.events = []               # all events (decoded tuples), with op index
        self.closed = set()

    def _state_obs(self):
        return codec.obs_dest(self.h, self.w.pm) if self.kind == "dest" else codec.obs_source(self.h, self.w.pm)

    def record(self, op, exc, ret, extra=()):
        evs = list(self.log)
        self.log.clear()
        ob = [exc, ret] + self._state_obs() + [len(evs)]
        for e in evs:
            ob += codec.enc_event(e)
            self.events.append((len(self.ops), e))
        ob += list(extra)
        self.ops.append(list(op))
        self.obs.append(ob)
        return ob

    # --- API calls
    def sm(self, pdu=None):
        """pdu: a parsed spacepackets PDU (already private to this handler) or None."""
        op = [1] if pdu is None else [0] + codec.enc_pdu(pdu, self.w.pm)
        exc = 0
        try:
            self.h.state_machine(pdu)
        except Exception as e:  # noqa: BLE001
            exc = exc_code(e)
            self.last_exc = e
        self.record(op, exc, 0)
        return exc

    def get(self):
        exc, ret, extra = 0, 0, []
        holder = None
        try:
            holder = self.h.get_next_packet()
        except Exception as e:  # noqa: BLE001
            exc = exc_code(e)
        if holder is not None:
            ret = 1
            p = holder.pdu
            ints = codec.enc_pdu(p, self.w.pm)
            try:
                plen = len(p.pack())
            except Exception:  # noqa: BLE001
                plen = -1
            if ints[0] == codec.K_MD:
                plen = 0      # Metadata length is not modelled (exempt from the length bound)
            # every emitted PDU must serialise to a parsable PDU that reads back the same
            ok = 0
            try:
                ok = 1 if codec.enc_pdu(codec.reparse(p), self.w.pm) == ints else 0
            except Exception:  # noqa: BLE001
                ok = 0
            extra = [len(ints)] + ints + [plen, ok]
        self.record([2], exc, ret, extra)
        return holder

    def cancel(self, src, seq):
        tid = TransactionId(ByteFieldGenerator.from_int(2, src), ByteFieldGenerator.from_int(2, seq))
        exc, ret = 0, 0
        try:
            ret = 1 if self.h.cancel_request(tid) else 0
        except Exception as e:  # noqa: BLE001
            exc = exc_code(e)
        self.record([3, src, seq], exc, ret)
        return ret, exc

    def reset(self):
        exc = 0
        try:
            self.h.reset()
        except Exception as e:  # noqa: BLE001
            exc = exc_code(e)
        self.record([4], exc, 0)

    def note_advance(self, ms):
        self.record([5, ms], 0, 0)

    def set_reject(self, on):
        self.w.dst_vfs.reject = 2 if on == 2 else bool(on)
        self.record([6, 2 if on == 2 else (1 if on else 0)], 0, 0)

    def put(self, req_ints, req: PutRequest):
        exc, ret = 0, 0
        try:
            ret = 1 if self.h.put_request(req) else 0
        except Exception as e:  # noqa: BLE001
            exc = exc_code(e)
        self.record([8] + req_ints, exc, ret)
        return ret, exc

    def fs_op(self, op):
        """[7; 0; path] mkdir | [7; 1; path; n; bytes] create file with content | [7; 2; path] delete"""
        sub = op[1]
        comps, i = codec.take_path(op, 2)
        p = self.w.pm.to_path(comps)
        store = self.mem_store()
        if store is not None:
            k = str(p)
            if sub == 0:
                store.nodes[k] = None
            elif sub == 1:
                store.nodes[k] = bytes(op[i + 1:i + 1 + op[i]])
                if getattr(self.w, "vfs_kind", "native") == "decoy":
                    p.parent.mkdir(parents=True, exist_ok=True)
                    p.write_bytes(b"DECOY-" + bytes(reversed(store.nodes[k])) + b"-decoy")
            elif sub == 2:
                for q in [q for q in store.nodes if q == k or q.startswith(k + "/")]:
                    del store.nodes[q]
        elif sub == 0:
            p.mkdir(parents=False, exist_ok=True)
        elif sub == 1:
            n = op[i]
            p.write_bytes(bytes(op[i + 1:i + 1 + n]))
        elif sub == 2:
            if p.is_dir():
                shutil.rmtree(p)
            elif p.exists():
                p.unlink()
        self.record(op, 0, 0)

    def mem_store(self):
        if getattr(self.w, "vfs_kind", "native") == "native":
            return None
        return self.w.src_vfs if self.kind == "source" else self.w.dst_vfs

    def snapshot_file(self, comps):
        p = self.w.pm.to_path(comps)
        store = self.mem_store()
        if store is not None:
            v = store.nodes.get(str(p), "absent")
            extra = [0, 0, 0] if v == "absent" else ([1, 1, 0] if v is None else [1, 0, len(v)] + list(v))
            self.record([10] + codec.enc_path(comps), 0, 0, extra)
            return extra
        if not p.exists():
            extra = [0, 0, 0]
        elif p.is_dir():
            extra = [1, 1, 0]
        else:
            d = p.read_bytes()
            extra = [1, 0, len(d)] + list(d)
        self.record([10] + codec.enc_path(comps), 0, 0, extra)
        return extra


class World:
    def __init__(self, cfg: Cfg, tag="w", vfs="native", reset_clock=True):
        """vfs: 'native' (host sandbox) | 'mem' (in-memory stores, paths do not exist on the host) |
        'decoy' (in-memory stores while decoy files with other content sit on the host at the same paths)"""
        self.cfg = cfg
        self.vfs_kind = vfs
        self.root = common.sandbox_dir(tag)
        if vfs == "mem":
            self.pm = codec.PathMap(f"/cfdp-virtual-{os.getpid()}-{tag}")
        else:
            self.pm = codec.PathMap(str(self.root))
        if reset_clock:
            VClock.now = 0
        self.src = Side(self, "source")
        self.dst = Side(self, "dest")
        if vfs == "native":
            self.src_vfs = NativeFilestore()
            self.dst_vfs = RejectingFilestore()
        else:
            from harness.memfs import MemFilestore
            self.src_vfs = MemFilestore(self.pm.root)
            self.dst_vfs = MemFilestore(self.pm.root)
        self.link_s2d = []   # in-flight packed PDUs (bytes)
        self.link_d2s = []
        self._build()

    def close(self):
        shutil.rmtree(self.root, ignore_errors=True)

    def _faults(self, log, overrides):
        fh = RecFaults(log)
        for c, code in overrides.items():
            from spacepackets.cfdp import FaultHandlerCode
            fh.set_handler(ConditionCode(c), FaultHandlerCode(code))
        return fh

    def _build(self):
        c = self.cfg
        ind = IndicationCfg(eof_sent_indication_required=c.ind[0], eof_recv_indication_required=c.ind[1],
                            file_segment_recvd_indication_required=c.ind[2],
                            transaction_finished_indication_required=c.ind[3])
        # source entity A
        su = RecUser(self.src_vfs, self.src.log); su.pm = self.pm
        sfh = self._faults(self.src.log, c.src_faults)
        s_local = LocalEntityCfg(UnsignedByteField(c.src_id, c.src_idw), ind, sfh)
        s_remote = remote_cfg(c, c.dst_id, c.dst_idw)
        self.seq = SeqCountProvider(c.seqw * 8)
        self.seq.count = c.seq_start      # what seq_start calls of get_and_increment() leave behind
        s_remotes = [s_remote]
        if c.alt_remote:
            import dataclasses
            over = {k: v for k, v in c.alt_remote.items() if k not in ("id", "idw")}
            s_remotes.append(remote_cfg(dataclasses.replace(c, **over), c.alt_remote["id"], c.alt_remote.get("idw", c.dst_idw)))
        self.src.h = SourceHandler(s_local, su, RemoteEntityCfgTable(s_remotes), TimerProv(c.check_ms), self.seq)
        self.src.ops.append([9, c.src_id, c.src_idw] + [int(x) for x in c.ind] +
                            self._enc_faults(sfh) + [c.check_ms, len(s_remotes)] + [x for r in s_remotes for x in enc_rcfg(r)] +
                            [c.seq_start, c.seqw * 8])
        self.src.obs.append([])
        # dest entity B
        du = RecUser(self.dst_vfs, self.dst.log); du.pm = self.pm
        dfh = self._faults(self.dst.log, c.dst_faults)
        d_local = LocalEntityCfg(UnsignedByteField(c.dst_id, c.dst_idw), ind, dfh)
        if c.dst_over:
            import dataclasses
            d_remote = remote_cfg(dataclasses.replace(c, **c.dst_over), c.src_id, c.src_idw)
        else:
            d_remote = remote_cfg(c, c.src_id, c.src_idw)
        d_remotes = [d_remote]
        if c.dst_alt_remote:
            import dataclasses
            over = {k: v for k, v in c.dst_alt_remote.items() if k not in ("id", "idw")}
            d_remotes.append(remote_cfg(dataclasses.replace(c, **over), c.dst_alt_remote["id"], c.dst_alt_remote.get("idw", c.src_idw)))
        self.dst.h = DestHandler(d_local, du, RemoteEntityCfgTable(d_remotes), TimerProv(c.check_ms))
        self.dst.ops.append([9, c.dst_id, c.dst_idw] + [int(x) for x in c.ind] +
                            self._enc_faults(dfh) + [c.check_ms, len(d_remotes)] + [x for r in d_remotes for x in enc_rcfg(r)])
        self.dst.obs.append([])

    @staticmethod
    def _enc_faults(fh):
        items = list(fh._handler_dict.items())
        return [len(items)] + [int(x) for kv in items for x in kv]

    # --- helpers
    def advance(self, ms):
        VClock.now += ms
        self.src.note_advance(ms)
        self.dst.note_advance(ms)

    def make_put(self, data: bytes | None):
        """Create the source file (unless metadata only) and build the put request + its int coding."""
        c = self.cfg
        dst_id, dst_idw = (c.alt_remote["id"], c.alt_remote.get("idw", c.dst_idw)) if (c.put_to_alt and c.alt_remote) else \
            (c.dst_id, c.dst_idw)
        if c.metadata_only:
            req = PutRequest(UnsignedByteField(dst_id, dst_idw), None, None,
                             None if c.req_mode is None else TransmissionMode(c.req_mode), c.req_closure,
                             msgs_to_user=None if c.msgs is None else [codec.msg_from_code(m) for m in c.msgs])
            names = [0]
        else:
            self.src.fs_op([7, 1] + codec.enc_path(c.src_path) + [len(data)] + list(data))
            req = PutRequest(UnsignedByteField(dst_id, dst_idw), self.pm.to_path(c.src_path),
                             self.pm.to_path(c.dst_path),
                             None if c.req_mode is None else TransmissionMode(c.req_mode), c.req_closure,
                             msgs_to_user=None if c.msgs is None else [codec.msg_from_code(m) for m in c.msgs])
            names = [1] + codec.enc_path(c.src_path) + codec.enc_path(c.dst_path)
        ints = [dst_id, dst_idw, -1 if c.req_mode is None else c.req_mode,
                -1 if c.req_closure is None else int(c.req_closure)] + names + \
               ([0, 0] if c.msgs is None else [1, len(c.msgs)] + list(c.msgs))
        return ints, req

    def drain(self, side, link):
        out = []
        while True:
            h = side.get()
            if h is None:
                break
            out.append(bytes(h.pack()))
        link.extend(out)
        return out


def dest_file_bytes(w: World, comps=None):
    p = w.pm.to_path(comps if comps is not None else w.cfg.dst_path)
    if getattr(w, "vfs_kind", "native") != "native":
        v = w.dst_vfs.nodes.get(str(p))
        return v if isinstance(v, bytes) else None
    if p.is_file():
        return p.read_bytes()
    return None


# ------------------------------------------------------------------ scheduler with faults

@dataclass
class Fault:
    direction: str      # "s2d" | "d2s"
    index: int          # n-th PDU put on that direction of the link (0-based, counting every emission)
    kind: str           # drop | dup | delay | flip
    arg: int = 1        # delay in rounds / bit index for flip


class Runner:
    """Round-based execution of one transfer with the surrounding-entity duties of DESIGN.md 3.5."""

    def __init__(self, w: World, faults=(), max_rounds=400, extra_sm=0):
        self.w = w
        self.faults = {(f.direction, f.index): f for f in faults}
        self.count = {"s2d": 0, "d2s": 0}
        self.delayed = []            # (release_round, direction, bytes)
        self.round = 0
        self.max_rounds = max_rounds
        self.extra_sm = extra_sm
        self.api_exc = []            # (side, exc code) for every raising call
        self.tid = None
        self.src_done_tids = set()
        self.dst_done_tids = set()
        self.sent_log = []           # (direction, ints) every PDU emitted
        self.success_reports = []    # filled by the oracle hooks
        self.hooks = []              # callables(side_name, runner) after every handler call

    # link with faults
    def emit(self, direction, raws):
        q = self.w.link_s2d if direction == "s2d" else self.w.link_d2s
        for raw in raws:
            i = self.count[direction]
            self.count[direction] += 1
            f = self.faults.get((direction, i))
            self.sent_log.append((direction, raw))
            if f is None:
                q.append(raw)
            elif f.kind == "drop":
                pass
            elif f.kind == "dup":
                q.append(raw); q.append(raw)
            elif f.kind == "delay":
                self.delayed.append((self.round + f.arg, direction, raw))
            elif f.kind == "flip":
                q.append(flip_fd_payload(raw, f.arg))
            else:
                raise ValueError(f.kind)

    def release_delayed(self):
        keep = []
        for r, d, raw in self.delayed:
            if r <= self.round:
                (self.w.link_s2d if d == "s2d" else self.w.link_d2s).append(raw)
            else:
                keep.append((r, d, raw))
        self.delayed = keep

    def call(self, side, pdu):
        exc = side.sm(pdu)
        if exc:
            self.api_exc.append((side.kind, exc, self.round))
        for hk in self.hooks:
            hk(side, self)
        return exc

    def _drain(self, side):
        direction = "s2d" if side.kind == "source" else "d2s"
        out = []
        while True:
            h = side.get()
            if h is None:
                break
            out.append(bytes(h.pack()))
            for hk in self.hooks:
                hk(side, self, pdu=h.pdu)
        self.emit(direction, out)
        return len(out)

    def deliver_to_dest(self, raw):
        w = self.w
        try:
            pdu = codec.parse(raw)
        except Exception:  # noqa: BLE001  an unparsable PDU is a lost PDU
            self.unparsable = getattr(self, "unparsable", 0) + 1
            return 0
        tid = (pdu.source_entity_id.value, pdu.transaction_seq_num.value)
        d = w.dst
        if d.h.state.value == 0 and tid in self.dst_done_tids:
            # transaction closed at this entity: the entity (not the handler) answers (DESIGN 3.5)
            if pdu.pdu_type.value == 0 and pdu.directive_type == DirectiveType.EOF_PDU:
                ack = acknowledge_inactive_eof_pdu(pdu, TransactionStatus.TERMINATED)
                self.emit("d2s", [bytes(ack.pack())])
            return 0
        if d.h.state.value == 1 and d.h.transaction_id is not None and \
                tid != (d.h.transaction_id.source_id.value, d.h.transaction_id.seq_num.value):
            return 0
        n0 = len(d.events)
        self.call(d, pdu)
        self._note_done(d)
        return self._drain(d)

    def deliver_to_source(self, raw):
        w = self.w
        try:
            pdu = codec.parse(raw)
        except Exception:  # noqa: BLE001
            self.unparsable = getattr(self, "unparsable", 0) + 1
            return 0
        tid = (pdu.source_entity_id.value, pdu.transaction_seq_num.value)
        s = w.src
        if s.h.state.value == 0:
            if tid in self.src_done_tids and pdu.directive_type == DirectiveType.FINISHED_PDU:
                conf = pdu.pdu_header.pdu_conf
                ack = AckPdu(conf, DirectiveType.FINISHED_PDU, pdu.condition_code, TransactionStatus.TERMINATED)
                self.emit("s2d", [bytes(ack.pack())])
            return 0
        self.call(s, pdu)
        self._note_done(s)
        return self._drain(s)

    def _note_done(self, side):
        h = side.h
        if h.state.value == 1 and h.transaction_id is not None:
            t = (h.transaction_id.source_id.value, h.transaction_id.seq_num.value)
            side.cur_tid = t
        elif h.state.value == 0 and getattr(side, "cur_tid", None) is not None:
            (self.src_done_tids if side.kind == "source" else self.dst_done_tids).add(side.cur_tid)
            side.cur_tid = None

    def step_round(self):
        """One round: source gets its inbound PDUs (or one empty call), then the destination likewise."""
        w = self.w
        self.round += 1
        self.release_delayed()
        activity = 0
        inbound = list(w.link_d2s); w.link_d2s.clear()
        for raw in inbound:
            activity += 1 + self.deliver_to_source(raw)
        if not inbound or self.extra_sm:
            for _ in range(max(1, self.extra_sm) if not inbound else self.extra_sm):
                before = w.src.h.state.value, w.src.h.step.value
                self.call(w.src, None)
                self._note_done(w.src)
                activity += self._drain(w.src)
                if (w.src.h.state.value, w.src.h.step.value) != before:
                    activity += 1
        inbound = list(w.link_s2d); w.link_s2d.clear()
        for raw in inbound:
            activity += 1 + self.deliver_to_dest(raw)
        if not inbound or self.extra_sm:
            for _ in range(max(1, self.extra_sm) if not inbound else self.extra_sm):
                before = w.dst.h.state.value, w.dst.h.step.value
                self.call(w.dst, None)
                self._note_done(w.dst)
                activity += self._drain(w.dst)
                if (w.dst.h.state.value, w.dst.h.step.value) != before:
                    activity += 1
        return activity

    def quiescent(self):
        w = self.w
        return (w.src.h.state.value == 0 and w.dst.h.state.value == 0 and not w.link_s2d and not w.link_d2s
                and not self.delayed)

    def run(self, tick_ms=None):
        """Run rounds; when a round has no activity, advance the clock by one timer interval."""
        c = self.w.cfg
        tick = tick_ms or min([c.ack_ms, c.nak_ms, c.check_ms] + [v for k, v in (c.dst_over or {}).items() if k.endswith("_ms")])
        idle_rounds = 0
        while self.round < self.max_rounds:
            a = self.step_round()
            if self.quiescent():
                return True
            if a == 0:
                self.w.advance(tick)
                idle_rounds += 1
            else:
                idle_rounds = 0
        return self.quiescent()


def flip_fd_payload(raw: bytes, bit: int) -> bytes:
    """Flip one bit of the file-data payload of a packed File Data PDU (other PDUs untouched)."""
    pdu = PduFactory.from_raw(raw)
    if pdu is None or pdu.pdu_type.value != 1 or len(pdu.file_data) == 0:
        return raw
    d = bytearray(pdu.file_data)
    d[(bit // 8) % len(d)] ^= 1 << (bit % 8)
    from spacepackets.cfdp.pdu import FileDataPdu
    from spacepackets.cfdp.pdu.file_data import FileDataParams
    q = FileDataPdu(pdu.pdu_header.pdu_conf, FileDataParams(bytes(d), pdu.offset, None))
    return bytes(q.pack())


def start_transfer(w: World, data: bytes | None):
    ints, req = w.make_put(data)
    ret, exc = w.src.put(ints, req)
    return ret, exc


# ------------------------------------------------------------------ op-level replay on the implementation

class Solo:
    """A single handler rebuilt from an int-coded configuration op; int-coded ops are applied to it one by one.
    This is what `--replay`, the corpus and the op-level oracles use."""

    def __init__(self, kind, cfg_op, tag="solo"):
        from spacepackets.cfdp import FaultHandlerCode
        self.kind = kind
        d = codec.dec_lcfg(cfg_op[1:])
        self.cfgd = d
        self.root = common.sandbox_dir(tag)
        self.pm = codec.PathMap(str(self.root))
        VClock.now = 0
        self.side = Side(self, kind)
        self.src = self.side if kind == "source" else None
        self.dst = self.side if kind == "dest" else None
        self.dst_vfs = RejectingFilestore()
        ind = IndicationCfg(eof_sent_indication_required=d["ind"][0], eof_recv_indication_required=d["ind"][1],
                            file_segment_recvd_indication_required=d["ind"][2],
                            transaction_finished_indication_required=d["ind"][3])
        user = RecUser(self.dst_vfs, self.side.log); user.pm = self.pm
        fh = RecFaults(self.side.log)
        fh._handler_dict = {ConditionCode(c): FaultHandlerCode(h) for c, h in d["faults"].items()}
        local = LocalEntityCfg(UnsignedByteField(d["local_id"], d["local_idw"]), ind, fh)
        remotes = []
        for r in d["remotes"]:
            remotes.append(RemoteEntityCfg(
                entity_id=UnsignedByteField(r["id"], r["idw"]), max_file_segment_len=r["max_seg"], max_packet_len=r["max_packet"],
                closure_requested=bool(r["closure"]), crc_on_transmission=bool(r["crc"]),
                default_transmission_mode=TransmissionMode(r["mode"]), crc_type=ChecksumType(r["cktype"]),
                positive_ack_timer_interval_seconds=r["ack_ms"] / 1000.0, positive_ack_timer_expiration_limit=r["ack_limit"],
                check_limit=r["check_limit"], disposition_on_cancellation=bool(r["disposition"]),
                immediate_nak_mode=bool(r["imm_nak"]), nak_timer_interval_seconds=r["nak_ms"] / 1000.0,
                nak_timer_expiration_limit=r["nak_limit"]))
        table = RemoteEntityCfgTable(remotes)
        if kind == "dest":
            self.side.h = DestHandler(local, user, table, TimerProv(d["check_ms"]))
        else:
            seq0, bits = d["rest"][0], d["rest"][1]
            prov = SeqCountProvider(bits)
            prov.count = seq0
            self.side.h = SourceHandler(local, user, table, TimerProv(d["check_ms"]), prov)
        self.side.ops.append(list(cfg_op))
        self.side.obs.append([])

    def close(self):
        shutil.rmtree(self.root, ignore_errors=True)

    def apply(self, op):
        s = self.side
        t = op[0]
        if t == 0:
            try:
                pdu = codec.reparse(codec.build_pdu(op[1:], self.pm))
            except Exception as e:  # noqa: BLE001
                raise ValueError(f"op not realisable as a PDU: {e}")
            s.sm(pdu)
        elif t == 1:
            s.sm(None)
        elif t == 2:
            s.get()
        elif t == 3:
            s.cancel(op[1], op[2])
        elif t == 4:
            s.reset()
        elif t == 5:
            VClock.now += op[1]
            s.note_advance(op[1])
        elif t == 6:
            s.set_reject(2 if op[1] == 2 else bool(op[1]))
        elif t == 7:
            s.fs_op(op)
        elif t == 8:
            s.put(op[1:], self._put_from_ints(op[1:]))
        elif t == 10:
            comps, _ = codec.take_path(op, 1)
            s.snapshot_file(comps)
        else:
            raise ValueError(op)
        return s.obs[-1]

    def _put_from_ints(self, l):
        dst, dstw, mode, cl, has = l[:5]
        i = 5
        sp = dp = None
        if has:
            a, i = codec.take_path(l, i)
            b, i = codec.take_path(l, i)
            sp, dp = self.pm.to_path(a), self.pm.to_path(b)
        hm, n = l[i], l[i + 1]
        msgs = [codec.msg_from_code(m) for m in l[i + 2:i + 2 + n]] if hm else None
        return PutRequest(UnsignedByteField(dst, dstw), sp, dp, None if mode < 0 else TransmissionMode(mode),
                          None if cl < 0 else bool(cl), msgs_to_user=msgs)


def replay_ops(kind, ops, tag="rp"):
    """Run int-coded ops on a fresh implementation handler; returns the observations."""
    solo = Solo(kind, ops[0], tag)
    try:
        for op in ops[1:]:
            solo.apply(op)
        return solo.side.obs, solo.side.events
    finally:
        solo.close()
