"""bin/check entry point:  Cxx quick|thorough | Cxx --replay <path> | --setup"""
from __future__ import annotations

import importlib
import json
import os
import sys

from harness import common

import logging
logging.disable(logging.CRITICAL)


def thorough_parallel(prop, seed, nworkers, tier="thorough", split=True, changed_units=None):
    """Thorough tier: the case space is split over worker processes (each also draws its own random stream);
    the parent does the build and the proof gate once and merges coverage, violations and known findings.
    With tier="quick", split=False this is the change-triggered deepening of the quick tier: every worker runs the whole
    quick case set with its own seed (worker 0 keeps the caller's seed)."""
    import subprocess
    import tempfile
    import time
    t0 = time.time()
    v = common.Verdict(prop, tier, seed)
    common.proof_gate(v, prop, getattr(importlib.import_module(f"harness.{prop.lower()}"), "EXTRA_PROPS", ()))
    outs, procs = [], []
    tmpd = tempfile.mkdtemp(prefix="cfdp-verif-w", dir="/dev/shm")
    for i in range(nworkers):
        out = os.path.join(tmpd, f"w{i}.json")
        env = dict(os.environ, VERIF_WORKERS=str(nworkers if split else 1), VERIF_WORKER=str(i if split else 0), VERIF_WORKER_OUT=out,
                   VERIF_SKIP_GATE="1", VERIF_SEED=str(seed if (i == 0 and not split) else seed * 1000 + i))
        procs.append(subprocess.Popen([sys.executable, "-m", "harness.main", prop, tier], env=env,
                                      stdout=subprocess.DEVNULL, stderr=subprocess.PIPE, text=True))
        outs.append(out)
    sigs = set()
    totals = {}
    samples = []
    dist = {}
    for pr, out in zip(procs, outs):
        _, err = pr.communicate()
        if not os.path.exists(out):
            v.violation("a worker of the thorough run aborted: " + (err or "").strip().splitlines()[-1:][0] if err else "worker aborted",
                        {"stderr": (err or "")[-2000:], "theorem": f"props/{prop}.v / correspondence (worker aborted)"}, has_input=False)
            continue
        d = json.loads(open(out).read())
        c = d["coverage"]
        for k, val in c.items():
            if isinstance(val, int) and not isinstance(val, bool) and k not in ("obligations", "discharged", "print_assumptions_closed",
                                                                                 "print_assumptions_total", "distinct_nontrivial"):
                totals[k] = totals.get(k, 0) + val
        for k, val in c.items():
            if k not in v.coverage and not isinstance(val, int) and k not in ("signature_hashes", "samples", "distribution"):
                v.coverage[k] = val
        sigs |= set(c.get("signature_hashes") or [])
        if c.get("signature_hashes") is None:
            totals["distinct_nontrivial"] = totals.get("distinct_nontrivial", 0) + c.get("distinct_nontrivial", 0)
        for k, n in (c.get("distribution") or {}).items():
            dist[k] = dist.get(k, 0) + n
        samples += (c.get("samples") or [])[:1]
        v.coverage.setdefault("rule", c.get("rule"))
        for what, replay, has_input in d["violations"]:
            v.violation(what, replay, has_input)
        for fid, what in d["known"].items():
            v.known_hits[fid] = what
        v.notes += d.get("notes", [])
        for a in d.get("assumptions", []):
            if a not in v.assumptions:
                v.assumptions.append(a)
    import shutil
    shutil.rmtree(tmpd, ignore_errors=True)
    v.coverage.update(totals)
    if sigs:
        v.coverage["distinct_nontrivial"] = len(sigs)
    v.coverage["distribution"] = dist
    v.coverage["samples"] = samples or [{"note": "see worker output"}]
    v.coverage["workers"] = nworkers
    if changed_units:
        v.coverage["changed_units"] = changed_units[:40]
        v.coverage["deepened"] = (f"{len(changed_units)} unit(s) of this property's anchor files differ from the fingerprinted tree: "
                                  f"the quick case set was run with {nworkers} independent seeds")
    v.coverage.setdefault("evaluations", totals.get("evaluations", 0))
    if getattr(v, "proof_error", None) and not v.violations:
        v.violation(v.proof_error, {"theorem": f"props/{prop}.v", "error": v.proof_error}, has_input=False)
    return v.finish()


def main(argv):
    if argv and argv[0] == "--setup":
        rep = common.build()
        sys.stderr.write(rep["log"][-3000:] + "\n")
        if rep.get("runner_error"):
            sys.stderr.write(rep["runner_error"] + "\n")
        print(json.dumps({k: rep[k] for k in ("ok", "failed_files", "forbidden", "wall_s")}))
        # a failing proof file is reported by the property's own check; setup only fails if nothing runs
        return 0 if common.RUNNER.exists() else 1
    if len(argv) < 2:
        print(__doc__)
        return 2
    prop = argv[0].upper()
    mod = importlib.import_module(f"harness.{prop.lower()}")
    seed = int(os.environ.get("VERIF_SEED", "0") or 0)
    if argv[1] == "--replay":
        return mod.replay(argv[2])
    tier = argv[1]
    if tier not in ("quick", "thorough"):
        tier = os.environ.get("VERIF_TIER", "quick")
    nworkers = int(os.environ.get("VERIF_THOROUGH_WORKERS", "8"))
    if tier == "thorough" and nworkers > 1 and not os.environ.get("VERIF_WORKER_OUT") and getattr(mod, "PARALLEL", True):
        return thorough_parallel(prop, seed, nworkers)
    if tier == "quick" and not os.environ.get("VERIF_WORKER_OUT") and not os.environ.get("VERIF_NO_DEEPEN"):
        try:
            from harness import fingerprint
            ch = fingerprint.changed_for(prop)
        except Exception:  # noqa: BLE001
            ch = []
        if ch:
            return thorough_parallel(prop, seed, int(os.environ.get("VERIF_DEEPEN_SEEDS", "4")), tier="quick", split=False,
                                     changed_units=ch)
    try:
        return mod.run(tier, seed)
    except Exception:  # noqa: BLE001
        # the machinery itself failed on this tree (e.g. the code under test raised where the harness cannot continue):
        # the property is then not shown to hold
        import traceback
        tb = traceback.format_exc()
        sys.stderr.write(tb)
        v = common.Verdict(prop, tier, seed)
        v.coverage.update({"evaluations": 1, "distinct_nontrivial": 2, "obligations": 1, "discharged": 0,
                           "checker_cmd": "harness aborted", "trusted_base": common.TRUSTED_BASE,
                           "rule": "the check aborted with an unexpected exception; nothing was established"})
        v.violation("the check aborted with an unexpected exception: " + tb.strip().splitlines()[-1],
                    {"traceback": tb[-3000:], "theorem": f"props/{prop}.v / correspondence (harness aborted)"}, has_input=False)
        return v.finish()


if __name__ == "__main__":
    sys.exit(main(sys.argv[1:]))
