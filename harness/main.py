"""bin/check entry point:  Cxx quick|thorough | Cxx --replay <path> | --setup"""
from __future__ import annotations

import importlib
import json
import os
import sys

from harness import common

import logging
logging.disable(logging.CRITICAL)


def main(argv):
    if argv and argv[0] == "--setup":
        rep = common.build()
        sys.stderr.write(rep["log"][-3000:] + "\n")
        if rep.get("runner_error"):
            sys.stderr.write(rep["runner_error"] + "\n")
        print(json.dumps({k: rep[k] for k in ("ok", "failed_files", "forbidden", "wall_s")}))
        # a failing proof file is reported by the property's own check; setup only fails if nothing runs
        return 0 if common.RUNNER.exists() else 1
    if len(argv) < 2:
        print(__doc__)
        return 2
    prop = argv[0].upper()
    mod = importlib.import_module(f"harness.{prop.lower()}")
    seed = int(os.environ.get("VERIF_SEED", "0") or 0)
    if argv[1] == "--replay":
        return mod.replay(argv[2])
    tier = argv[1]
    if tier not in ("quick", "thorough"):
        tier = os.environ.get("VERIF_TIER", "quick")
    return mod.run(tier, seed)


if __name__ == "__main__":
    sys.exit(main(sys.argv[1:]))
