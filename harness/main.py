"""bin/check entry point:  Cxx quick|thorough | Cxx --replay <path> | --setup"""
from __future__ import annotations

import importlib
import json
import os
import sys

from harness import common

import logging
logging.disable(logging.CRITICAL)


def main(argv):
    if argv and argv[0] == "--setup":
        rep = common.build()
        sys.stderr.write(rep["log"][-3000:] + "\n")
        if rep.get("runner_error"):
            sys.stderr.write(rep["runner_error"] + "\n")
        print(json.dumps({k: rep[k] for k in ("ok", "failed_files", "forbidden", "wall_s")}))
        # a failing proof file is reported by the property's own check; setup only fails if nothing runs
        return 0 if common.RUNNER.exists() else 1
    if len(argv) < 2:
        print(__doc__)
        return 2
    prop = argv[0].upper()
    mod = importlib.import_module(f"harness.{prop.lower()}")
    seed = int(os.environ.get("VERIF_SEED", "0") or 0)
    if argv[1] == "--replay":
        return mod.replay(argv[2])
    tier = argv[1]
    if tier not in ("quick", "thorough"):
        tier = os.environ.get("VERIF_TIER", "quick")
    try:
        return mod.run(tier, seed)
    except Exception:  # noqa: BLE001
        # the machinery itself failed on this tree (e.g. the code under test raised where the harness cannot continue):
        # the property is then not shown to hold
        import traceback
        tb = traceback.format_exc()
        sys.stderr.write(tb)
        v = common.Verdict(prop, tier, seed)
        v.coverage.update({"evaluations": 1, "distinct_nontrivial": 2, "obligations": 1, "discharged": 0,
                           "checker_cmd": "harness aborted", "trusted_base": common.TRUSTED_BASE,
                           "rule": "the check aborted with an unexpected exception; nothing was established"})
        v.violation("the check aborted with an unexpected exception: " + tb.strip().splitlines()[-1],
                    {"traceback": tb[-3000:], "theorem": f"props/{prop}.v / correspondence (harness aborted)"}, has_input=False)
        return v.finish()


if __name__ == "__main__":
    sys.exit(main(sys.argv[1:]))
