"""C17 — Native filestore operations match a reference file-system model.

Proof: laws of the reference model Fs.v (coq/props/C17.v).  Tie (refinement): NativeFilestore on a
fresh directory under /dev/shm vs the extracted Fs.v on the same operation sequences, comparing the
returned status/data/exception class and the full tree snapshot after every operation; oracle: the
law checkers of the property text evaluated on the real tree (independent of the model).
"""
from __future__ import annotations

import json
import os
import random
import shutil
from pathlib import Path

from harness import common

PROP = "C17"
PATHS = [[1], [2], [4], [4, 1], [4, 2], [5, 6], [1, 6]]
SUCCESS = {0: 0, 1: 16, 2: 32, 3: 64, 4: 80, 5: 96}


def pstr(root: Path, p):
    q = root
    for c in p:
        q = q / f"n{c}"
    return q


def enc_path(p):
    return [len(p)] + list(p)


class Impl:
    def __init__(self):
        from cfdppy.filestore import NativeFilestore
        self.fs = NativeFilestore()
        self.base = common.sandbox_dir("c17")
        self.n = 0
        self.root = None

    def fresh(self):
        if self.root is not None:
            shutil.rmtree(self.root, ignore_errors=True)
        self.n += 1
        self.root = self.base / f"r{self.n}"
        self.root.mkdir()

    def close(self):
        shutil.rmtree(self.base, ignore_errors=True)

    def snapshot(self):
        snap = {}
        for dp, dns, fns in os.walk(self.root):
            rel = Path(dp).relative_to(self.root).parts
            comps = tuple(int(x[1:]) for x in rel)
            if comps:
                snap[comps] = None
            for f in fns:
                snap[comps + (int(f[1:]),)] = (Path(dp) / f).read_bytes()
        return snap

    def op(self, o):
        tag = o[0]
        n = o[1]
        p = pstr(self.root, o[2:2 + n])
        rest = o[2 + n:]
        fs = self.fs
        try:
            if tag == 0:
                return [0, int(fs.create_file(p))]
            if tag == 1:
                return [0, int(fs.delete_file(p))]
            if tag in (2, 3):
                q = pstr(self.root, rest[1:1 + rest[0]])
                return [0, int(fs.rename_file(p, q) if tag == 2 else fs.replace_file(p, q))]
            if tag == 4:
                return [0, int(fs.create_directory(p))]
            if tag == 5:
                return [0, int(fs.remove_directory(p, bool(rest[0])))]
            if tag == 6:
                fs.truncate_file(p)
                return [4]
            if tag == 7:
                off, ln = rest[0], rest[1]
                fs.write_data(p, bytes(rest[2:2 + ln]), off)
                return [4]
            if tag == 8:
                d = fs.read_data(p, rest[0], rest[1])
                return [1, len(d)] + list(d)
            if tag == 9:
                return [2, fs.file_size(p)]
            if tag == 10:
                return [3, 1 if fs.file_exists(p) else 0]
            if tag == 11:
                return [3, 1 if fs.is_directory(p) else 0]
        except (FileNotFoundError, NotADirectoryError):
            return [5, 1]
        except IsADirectoryError:
            return [5, 2]
        except PermissionError:
            return [5, 4]
        except OSError as e:
            return [5, 9]
        except Exception:  # noqa: BLE001  not an OS error at all (ValueError, TypeError ...): an observation like any other, so
            return [5, 99]  # that the oracle reports it with the operation sequence instead of the check aborting
        return [-1]


def decode_model_obs(ob):
    """-> (result list, snapshot dict)"""
    k = ob[0]
    if k == 1:
        rl = 2 + ob[1]
    elif k == 4:
        rl = 1
    else:
        rl = 2
    res, rest = ob[:rl], ob[rl:]
    n = rest[0]
    i = 1
    snap = {}
    for _ in range(n):
        pl = rest[i]; comps = tuple(rest[i + 1:i + 1 + pl]); i += 1 + pl
        isdir, dl = rest[i], rest[i + 1]; i += 2
        data = bytes(rest[i:i + dl]); i += dl
        snap[comps] = None if isdir else data
    return res, snap


def all_ops():
    ops = []
    for p in PATHS:
        e = enc_path(p)
        ops += [[0] + e, [1] + e, [4] + e, [5] + e + [0], [5] + e + [1], [6] + e, [9] + e, [10] + e, [11] + e]
        for q in PATHS:
            ops += [[2] + e + enc_path(q), [3] + e + enc_path(q)]
        for off in (0, 2, 5):
            for d in ([], [1], [2, 3, 4]):
                ops.append([7] + e + [off, len(d)] + d)
        ops += [[8] + e + [0, 10], [8] + e + [1, 2], [8] + e + [7, 3]]
    return ops


PREFIXES = [
    [],
    [[0, 1, 1]],
    [[0, 1, 1], [7, 1, 1, 0, 3, 9, 8, 7]],
    [[4, 1, 4]],
    [[4, 1, 4], [0, 2, 4, 1]],
    [[4, 1, 4], [0, 2, 4, 1], [7, 2, 4, 1, 1, 2, 5, 6], [0, 1, 2]],
    [[0, 1, 1], [0, 1, 2], [7, 1, 2, 0, 1, 3]],
    [[4, 1, 4], [4, 1, 1]],
    [[4, 1, 5], [0, 2, 5, 6], [7, 2, 5, 6, 4, 1, 1]],
    [[4, 1, 4], [0, 2, 4, 1], [0, 2, 4, 2], [0, 1, 1], [7, 1, 1, 2, 2, 1, 2]],
]


def gen_random(rng, count, depth):
    ops_all = all_ops()
    cases = []
    for _ in range(count):
        seq = list(rng.choice(PREFIXES))
        for _ in range(rng.randint(1, depth)):
            r = rng.random()
            if r < 0.5:
                seq.append(rng.choice(ops_all))
            else:
                p = rng.choice(PATHS[:5]); e = enc_path(p)
                k = rng.random()
                if k < 0.35:
                    d = [rng.randint(0, 255) for _ in range(rng.randint(0, 4))]
                    seq.append([7] + e + [rng.randint(0, 6), len(d)] + d)
                elif k < 0.5:
                    seq.append([8] + e + [rng.randint(0, 6), rng.randint(0, 8)])
                elif k < 0.65:
                    seq.append([0] + e)
                elif k < 0.75:
                    seq.append([4] + e)
                elif k < 0.85:
                    seq.append([rng.choice([2, 3])] + e + enc_path(rng.choice(PATHS[:5])))
                else:
                    seq.append([rng.choice([1, 5, 6, 9])] + e + ([rng.randint(0, 1)] if seq and False else []))
                    if seq[-1][0] == 5:
                        seq[-1] = seq[-1] + [rng.randint(0, 1)]
        cases.append(seq)
    return cases


def law_check(o, res, before, after):
    """Property text evaluated on the real tree."""
    tag = o[0]; n = o[1]; p = tuple(o[2:2 + n]); rest = o[2 + n:]
    q = tuple(rest[1:1 + rest[0]]) if tag in (2, 3) else None
    ok_code = SUCCESS.get(tag)
    success = (res[0] == 0 and res[1] == ok_code) or res[0] in (1, 2, 3, 4)
    if not success:
        if before != after:
            return "refused/failing operation changed the tree"
        return None
    named = {p} | ({q} if q else set())
    for k in set(before) | set(after):
        if k in named:
            continue
        if tag == 5 and rest[0] == 1 and k[:len(p)] == p:
            continue
        if before.get(k, "absent") != after.get(k, "absent"):
            return f"path {k} changed although not named by the operation"
    if tag == 0 and not (p not in before and after.get(p, 1) == b""):
        return "CREATE_SUCCESS without the file having been created empty"
    if tag == 1 and not (isinstance(before.get(p), bytes) and p not in after):
        return "DELETE_SUCCESS without a file having been deleted"
    if tag == 2 and not (isinstance(before.get(p), bytes) and q not in before and p not in after and after.get(q) == before.get(p)):
        return "RENAME_SUCCESS without the rename effect"
    if tag == 3 and not (isinstance(before.get(p), bytes) and isinstance(before.get(q), bytes) and after.get(p) == before.get(q)
                         and (p == q or q not in after)):
        return "REPLACE_SUCCESS without the replace effect"
    if tag == 4 and not (p not in before and p in after and after[p] is None):
        return "CREATE_DIR_SUCCESS without a directory"
    if tag == 5 and not (p in before and before[p] is None and all(k[:len(p)] != p for k in after)):
        return "REMOVE_DIR_SUCCESS but directory (subtree) still there"
    if tag == 6 and not (isinstance(before.get(p), bytes) and after.get(p) == b""):
        return "truncate did not leave an empty file"
    if tag == 7:
        off, ln = rest[0], rest[1]; d = bytes(rest[2:2 + ln]); old = before.get(p)
        if not isinstance(old, bytes):
            return "write succeeded on a non-file"
        exp = old
        if d:
            exp = old[:off] + bytes(max(0, off - len(old))) + d + old[off + len(d):]
        if after.get(p) != exp:
            return f"write at offset: content {after.get(p)!r}, expected {exp!r}"
    if tag == 8:
        old = before.get(p)
        if not isinstance(old, bytes) or bytes(res[2:]) != old[rest[0]:rest[0] + rest[1]]:
            return "read at offset returned wrong data"
    if tag == 9 and isinstance(before.get(p), bytes) and res[1] != len(before[p]):
        return "file_size wrong"
    if tag == 10 and bool(res[1]) != (p in before):
        return "file_exists wrong"
    if tag == 11 and bool(res[1]) != (p in before and before[p] is None):
        return "is_directory wrong"
    return None


def expected_refusal(o, before):
    """The specific refusal code of the documented semantics (None = success or exception expected)."""
    tag = o[0]; n = o[1]; p = tuple(o[2:2 + n]); rest = o[2 + n:]
    q = tuple(rest[1:1 + rest[0]]) if tag in (2, 3) else None
    isdir = lambda x: x in before and before[x] is None
    if tag == 1:
        return 17 if p not in before else (31 if isdir(p) else None)
    if tag == 2:
        if isdir(p) or isdir(q):
            return 47
        if p not in before:
            return 33
        if q in before:
            return 34
    if tag == 3:
        if isdir(p) or isdir(q):
            return 67
        if p not in before:
            return 65
        if q not in before:
            return 66
    if tag == 4 and p in before:
        return 81
    if tag == 5:
        if p not in before:
            return 97
        if not isdir(p):
            return 98
        if not rest[0] and any(k != p and k[:len(p)] == p for k in before):
            return 98
    if tag == 0 and p in before:
        return 1
    return None


def run(tier, seed):
    v = common.Verdict(PROP, tier, seed)
    common.proof_gate(v, PROP)
    rng = random.Random(seed)
    cases = []
    cdir = common.CORPUS / PROP
    if cdir.exists():
        for f in sorted(cdir.glob("*.json")):
            cases.append(json.loads(f.read_text())["ops"])
    ops_all = all_ops()
    for pre in PREFIXES:
        for o in ops_all:
            cases.append(pre + [o])
    if tier == "thorough":
        for pre in PREFIXES[:6]:
            for o1 in ops_all:
                if o1[0] in (8, 9, 10, 11):
                    continue
                for o2 in ops_all[::3]:
                    cases.append(pre + [o1, o2])
    cases += gen_random(rng, 1200 if tier == "quick" else 100000, 25)
    cases = list(common.share(cases))
    model = common.run_model("fs", cases)
    impl = Impl()
    nops = 0
    dist = {}
    distinct = set()
    internal = 0
    try:
        for seq, mobs in zip(cases, model):
            impl.fresh()
            before = {}
            for i, (o, mo) in enumerate(zip(seq, mobs)):
                res = impl.op(o)
                after = impl.snapshot()
                nops += 1
                dist[(o[0], tuple(res[:2]) if res[0] in (0, 5) else res[0])] = dist.get((o[0], tuple(res[:2]) if res[0] in (0, 5) else res[0]), 0) + 1
                distinct.add((tuple(sorted((k, v_) for k, v_ in before.items())), tuple(o), tuple(res)))
                fail = law_check(o, res, before, after)
                if not fail and res[:2] == [5, 99]:
                    fail = "the operation raised an exception that is neither a status code nor an OS error (ValueError, TypeError ...)"
                if not fail:
                    er = expected_refusal(o, before)
                    if er is not None and res[:2] != [0, er]:
                        fail = f"expected refusal code {er}, got {res[:2]}"
                if fail:
                    v.violation(f"oracle: op {i} {o}: {fail}", {"kind": "fs", "ops": seq[:i + 1], "impl_result": res,
                                                                 "before": str(before), "after": str(after)})
                    break
                mres, msnap = decode_model_obs(mo)
                if mres[0] == 2 and mres[1] == -1 and res[0] == 2:
                    mres = res  # size of a directory: unspecified
                if mres != res or msnap != after:
                    v.violation("correspondence: NativeFilestore and the reference model Fs.v differ (refinement claim of C17 broken)",
                                {"kind": "fs", "ops": seq[:i + 1], "impl_result": res, "model_result": mres,
                                 "impl_tree": str(after), "model_tree": str(msnap),
                                 "theorem": "correspondence fs (refinement NativeFilestore ~ Fs.v)"}, has_input=False)
                    break
                before = after
            if len(v.violations) > 3:
                break
    finally:
        impl.close()
    sample = cases[len(PREFIXES) * 3: len(PREFIXES) * 3 + 4] + cases[-3:]
    try:
        if common.coq_eval("run_fs", sample) != common.run_model("fs", sample):
            v.violation("extracted runner and in-Coq evaluation differ", {"sample": sample}, has_input=False)
    except Exception as e:
        v.notes.append(f"in-Coq cross-check skipped: {e}")
    if getattr(v, "proof_error", None) and not v.violations:
        v.violation(v.proof_error, {"theorem": "props/C17.v", "error": v.proof_error}, has_input=False)
    v.coverage.update({
        "evaluations": nops, "distinct_nontrivial": len(distinct),
        "rule": "sequences of native filestore ops over paths {a,b,d,d/a,d/b,e/x,a/x}, offsets 0..7, payloads <=4 bytes: every op "
                "from each of 10 canned reachable trees (+ depth-2 in thorough) + random depth<=25; distinct = distinct "
                "(tree before, op, result)",
        "traces_validated_against_impl": len(cases),
        "result_distribution": {f"op{k[0]}:{k[1]}": n for k, n in sorted(dist.items(), key=str)},
        "samples": [cases[len(PREFIXES) * 7], cases[-1]],
    })
    v.assumptions = list(common.ASSUMPTIONS) + ["host file system: tmpfs under /dev/shm, process runs as root (permission refusals not reachable)"]
    return v.finish()


def replay(path):
    data = json.loads(open(path).read())
    impl = Impl()
    try:
        impl.fresh()
        before = {}
        bad = None
        for o in data["ops"]:
            res = impl.op(o)
            after = impl.snapshot()
            print(json.dumps({"op": o, "result": res, "tree": str(after)}))
            bad = bad or law_check(o, res, before, after)
            before = after
        if bad:
            print(f"VIOLATION property={PROP} replay={path}")
            return 1
        return 0
    finally:
        impl.close()
