"""Case mixes shared by C10 / C12 / C14 / C15: transfers with faults and cancels + hostile single-handler streams."""
from harness import campaign, dstprops


def mixed_cases(tier, rng, n_transfer, n_hostile, cfg_over=None, fault_tables=False):
    cfg_over = cfg_over or {}
    for i in range(n_transfer):
        over = dict(cfg_over)
        if fault_tables:
            over.update(random_fault_tables(rng))
        yield campaign.rand_transfer_case(rng, **over)
    for i in range(n_hostile):
        over = dict(cfg_over)
        if fault_tables:
            over.update(random_fault_tables(rng))
        if i % 3 == 0:
            c = dstprops.c05_case(rng)
            for k, v in over.items():
                setattr(c.cfg, k, v)
            yield c
        else:
            yield campaign.rand_hostile_case(rng, **over)


def random_fault_tables(rng):
    conds = [1, 7, 10, 5, 6, 4]
    def tbl():
        return {c: rng.choice([1, 3, 4]) for c in conds if rng.random() < 0.45}
    return {"src_faults": tbl(), "dst_faults": tbl()}
