"""Case mixes shared by C10 / C12 / C14 / C15: transfers with faults and cancels + hostile single-handler streams."""
from harness import campaign, dstprops


def mixed_cases(tier, rng, n_transfer, n_hostile, cfg_over=None, fault_tables=False):
    cfg_over = cfg_over or {}
    for i in range(n_transfer):
        over = dict(cfg_over)
        if fault_tables:
            over.update(random_fault_tables(rng))
        yield campaign.rand_transfer_case(rng, **over)
    for i in range(n_hostile):
        over = dict(cfg_over)
        if fault_tables:
            over.update(random_fault_tables(rng))
        if i % 3 == 0:
            c = dstprops.c05_case(rng)
            for k, v in over.items():
                setattr(c.cfg, k, v)
            yield c
        else:
            yield campaign.rand_hostile_case(rng, **over)


def random_fault_tables(rng):
    conds = [1, 7, 10, 5, 6, 4]
    def tbl():
        return {c: rng.choice([1, 3, 4]) for c in conds if rng.random() < 0.45}
    return {"src_faults": tbl(), "dst_faults": tbl()}


def fault_matrix_cases(tier, rng):
    """C14's quantifier made explicit: every condition a handler can declare x every handler code x a scenario that
    triggers it, on either side, in both modes.  Handler codes: 1 notice of cancellation, 2 notice of suspension,
    3 ignore, 4 abandon."""
    from harness import timers
    from harness.transfer import Cfg, Fault
    quick = tier == "quick"
    codes = (1, 2, 3, 4)
    for h in codes:
        for side in ("src", "dst", "both"):
            def tables(conds):
                t = {c: h for c in conds}
                return {"src_faults": t if side in ("src", "both") else {}, "dst_faults": t if side in ("dst", "both") else {}}
            # Positive ACK Limit (1) at either side, NAK Limit (7) at the receiver: one or both directions fall silent
            for N in ((1, 2) if quick else (1, 2, 3)):
                for cut_dir in ("d2s", "s2d", "both"):
                    cuts = [0, 1, 2, 3, 4, 5, 6] if not quick else rng.sample([0, 1, 2, 3, 4, 5, 6], 3)
                    for cut in cuts:
                        cfg = Cfg(mode=0, max_seg=4, ack_limit=N, nak_limit=N, imm_nak=rng.random() < 0.5, closure=rng.random() < 0.5,
                                  disposition=rng.random() < 0.4, cktype=rng.choice([2, 3, 15]), **tables((1, 7)))
                        yield timers.SilentCase(cfg, rng.choice([5, 9]), cut_dir, cut, None, tag="c14m")
            # NAK Limit (7) while the sender keeps re-sending its EOF (its ACKs are lost): the fault is declared by a call
            # that has already queued an ACK (EOF)
            for N in (1, 2):
                for drop_at in (1, 2):
                    cfg = Cfg(mode=0, max_seg=4, ack_limit=N + 3, nak_limit=N, imm_nak=rng.random() < 0.5, closure=rng.random() < 0.5,
                              cktype=rng.choice([2, 3]), **tables((7, 1)))
                    yield timers.GateCase(cfg, 9, [Fault("s2d", drop_at, "drop")], [("rounds", 6, True, False), ("tick", 2 * N + 3)],
                                          tag="c14m")
            # Check Limit (10): sender with closure never sees the Finished PDU; receiver's late data never arrives
            for L in (1, 2):
                for cut in (2, 3, 4):
                    cfg = Cfg(mode=1, closure=True, max_seg=4, check_limit=L, check_ms=1000, ack_ms=1000, nak_ms=1000, **tables((10,)))
                    yield timers.SilentCase(cfg, 5, "d2s", 0, None, tag="c14m")
                    yield timers.SilentCase(cfg, 9, "s2d", cut, None, tag="c14m")
                cfg = Cfg(mode=1, closure=rng.random() < 0.5, max_seg=4, check_limit=L, check_ms=1000, cktype=rng.choice([2, 3]),
                          disposition=rng.random() < 0.4, **tables((10, 5)))
                yield dstprops.LateDataCase(cfg, 2, [1], [L + 3])
            # Checksum Failure (5): a flipped bit in a File Data PDU, both modes; Filestore Rejection (4): writes refused
            for mode in (0, 1):
                for k in (1, 2, 3):
                    cfg = Cfg(mode=mode, closure=rng.random() < 0.5, max_seg=4, cktype=rng.choice([2, 3]), ack_limit=2, nak_limit=2,
                              check_limit=2, disposition=rng.random() < 0.4, **tables((5, 4, 6, 10)))
                    data = bytes(rng.getrandbits(8) for _ in range(9))
                    yield campaign.TransferCase(cfg, [data], [Fault("s2d", k, "flip", rng.randint(1, 3))], tag="c14m")
                    yield campaign.TransferCase(cfg, [data], [], None, reject_round=k, tag="c14m")
            # an IGNOREd limit fault, polled several times per timer interval: declared at the expiries only (F22, F34)
            if h == 3:
                for mode, closure, cut_dir, cut in ((0, False, "d2s", 0), (0, True, "s2d", 3), (1, True, "d2s", 0), (1, True, "s2d", 3),
                                                    (1, False, "s2d", 2)):
                    cfg = Cfg(mode=mode, closure=closure, max_seg=4, ack_limit=2, nak_limit=2, check_limit=2, imm_nak=False,
                              ack_ms=1000, nak_ms=1000, check_ms=1000, cktype=3, **tables((1, 7, 10)))
                    sc = timers.SilentCase(cfg, 9, cut_dir, cut, None, tag="c14m", poll_ms=250)
                    sc.max_rounds = 60
                    yield sc
            # the sender's cancel request in mid-transfer, then a receiver that stays silent: the Positive ACK Limit of the
            # EOF (cancel) exchange is handled as the table says (cancel -> abandon with the EOF's condition, ignore -> carry on,
            # abandon -> abandon with the limit condition)
            if side in ("src", "both"):
                for at in (1, 2):
                    cfg = Cfg(mode=0, closure=rng.random() < 0.5, max_seg=4, ack_limit=2, nak_limit=2, ack_ms=1000, nak_ms=1000,
                              cktype=3, **tables((1,)))
                    yield campaign.TransferCase(cfg, [bytes(rng.getrandbits(8) for _ in range(13))],
                                                [Fault("d2s", i, "drop") for i in range(0, 14)], ("src", at, True), tag="c14m", max_rounds=40)
            # Filestore Rejection (4) declared while the destination file is created: at the transaction start, and by the
            # re-sent Metadata PDU while the deferred NAK procedure is already running (Metadata lost, EOF first)
            for drop_md, size, ck in ((False, 9, 3), (True, 9, 3), (True, 9, 2), (True, 0, 15), (True, 0, 3), (False, 0, 15)):
                # (empty file + NULL checksum + Metadata after the EOF: nothing is tracked as lost when the rejection is
                # declared - the deferred procedure must not verify and complete the cancelled transaction: F35)
                cfg = Cfg(mode=0, closure=rng.random() < 0.5, max_seg=4, cktype=ck, ack_limit=3, nak_limit=3,
                          imm_nak=False, disposition=rng.random() < 0.4, **tables((4, 5, 7)))
                data = bytes(rng.getrandbits(8) for _ in range(size))
                yield campaign.TransferCase(cfg, [data], [Fault("s2d", 0, "drop")] if drop_md else [], None, reject_round=0,
                                            reject_mode=2, tag="c14m")
            # File Size Error (6): File Data beyond the EOF's size / EOF smaller than the progress (receiver alone)
            for _ in range(2 if quick else 12):
                c = campaign.rand_hostile_case(rng, **tables((6, 5, 4)))
                yield c
