"""Source of /verif/MANIFEST.json (written by `python -m harness.manifest_data`)."""
import json
from pathlib import Path

VERIF = Path(__file__).resolve().parent.parent

TIE = ("Tied to /repo/src on every run: the same int-coded call sequences are executed on the real code (virtual clock) and on "
       "the OCaml extraction of the Coq model and compared on this property's observables; an independent oracle reads the "
       "property text on the implementation traces and turns any failure into a replay.")
TB = ("Trusted: Coq 8.16.1 kernel + VM (vm_compute); no axioms (Print Assumptions of every property theorem checked each run: "
      "'Closed under the global context'); hand-written Gallina model validated by the correspondence run; extraction "
      "(ExtrOcamlBasic only, no Extract Constant/Inductive) + runner.ml; gen/Tables.v ast reader; Python harness (virtual clock, "
      "PDU<->record glue, generators, oracles); modelled-not-verified: spacepackets, crcmod, CPython, host OS.")


def _c(technique, text, design, note=""):
    return dict(technique=technique, text=text + " " + TIE, note=(note + " " if note else "") + TB, design=design)


CHECKS = {
    "C01": _c("Coq proof: whole-state-machine invariant of the receiver (success is reported only from a verified state) + verification/CRC lemmas + correspondence + read-back oracle under arbitrary fault schedules",
              "Proof (props/C01.v, C01b.v): the receiver records DATA_COMPLETE only through a successful checksum verification of the "
              "destination file as it is then (or metadata-only); equal CRC => identical or genuine collision; rejected writes are "
              "never stored; the sender's report copies the Finished PDU. WHOLE STATE MACHINE (C01b): an invariant that holds "
              "initially and across every API call (any PDU, any history: loss, duplication, reordering, corruption, rejection) "
              "guarantees that every successful Transaction-Finished indication and every successful Finished PDU is produced from "
              "a state whose destination file verifies against the recorded EOF checksum and size, and that the file is not touched "
              "afterwards. TWO-SIDED (props/C01c.v, 3 700 lines of proof): over the executable two-handler system of System.v, for EVERY "
              "fault schedule (any number of drops, duplications, delays of any PDU in either direction), every file, both modes, "
              "with or without closure, both NAK modes, after any number of scheduler rounds: if the receiver has reported success, the "
              "destination file is byte-identical to the SOURCE file or has the same length and the same CRC (genuine collision) - "
              "composing the sender invariant (every queued File Data / EOF / Metadata PDU is genuine for the source file), the link, "
              "the receiver invariant and the duties of the surrounding entity; and the SENDER half (props/C01s.v): in acknowledged mode or with "
              "closure, a success in the sender's log implies the same about the destination file at that moment. Payload corruption and write rejection are not in "
              "System.v's link: for those the receiver-side statement (C01b, arbitrary PDU contents) applies and the check evaluates "
              "the two-sided statement on the implementation (file read back at every success report, either side, "
              "drop/dup/delay/bit-flip/write-reject schedules, any number of faults; the receiver's table may disagree with the sender's).",
              "6/C01"),
    "C02": _c("Coq: unbounded theorems over the executable two-handler system (induction over the file) for unacknowledged, unacknowledged+closure and acknowledged mode + kernel-checked exhaustive evaluation (1152 transfers) + correspondence",
              "Proof (props/C02.v, C02u.v, C02c.v, C02a.v): UNBOUNDED - for every file content and length, segment length >= 1, id / "
              "sequence-number width, checksum type and NAK mode, System.v (both handler models + fault-free link) delivers the file "
              "byte-identical with one successful Transaction-Finished per side, no fault event and no API error, in unacknowledged "
              "mode, unacknowledged mode with closure and acknowledged mode (timer intervals > 0). BOUNDED INSTANCE in addition - "
              "vm_compute inside the kernel evaluates 2 modes x closure x 4 checksum types x 4 segment lengths x NAK mode x 9 sizes. "
              "DESTINATION SHAPES (props/C02d.v): the same three theorems for an arbitrary destination filestore and every path shape the "
              "code distinguishes (existing file, existing directory -> dir/basename, absent with existing parent at any depth), with "
              "the frame (all other paths unchanged). Arbitrary pacing and consecutive transfers (incl. metadata-only ones) on one "
              "handler pair are covered by the oracle on the implementation.", "6/C02"),
    "C03": _c("Coq: kernel-checked exhaustive evaluation of all schedules with K<=2 link faults (the bound the property names) and K=3 on a small file + unbounded retry/NAK lemmas (C04/C06/C08) + correspondence",
              "PARTIAL proof (props/C03.v): BOUNDED INSTANCES - every schedule of <=2 link faults (drop/duplicate/delay of any PDU "
              "occurrence, either direction) on files of 0/5/9 bytes, both NAK modes, closure on/off, limits K+3, and every schedule "
              "of 3 faults on a 5-byte file, evaluated inside the kernel on System.v: delivered, both users successful, both idle. "
              "UNBOUNDED for K = 1 (props/C03u.v, C03m.v): for every file, every position of ONE lost File Data PDU, and for the lost "
              "Metadata PDU, and (C03r) every lost control PDU (EOF, ACK (EOF), Finished, ACK (Finished)), and (C03d) any one duplicated PDU, immediate and deferred NAK mode, the transfer is delivered byte-identical; (C03y) any one DELAYED control PDU or EOF for every delay, a delayed File Data PDU for every delay in both NAK modes (C03y + C03z + C03w), Metadata delayed by one round. The general liveness theorem (all K, all fault "
              "kinds, all interleavings) is not proved.", "6/C03"),
    "C04": _c("Coq proof (case analysis of the three retry procedures, for all limits N and intervals) + correspondence + virtual-clock oracle",
              "Proof (props/C04.v): EOF-awaiting-ACK, Finished-awaiting-ACK and the NAK procedure: nothing before expiry; expiry k<N "
              "re-sends the same PDU and counts; expiry N declares the limit fault exactly then; during a cancel exchange the limit "
              "abandons (idle); ACK/progress ends or resets the procedure. For every N and interval. Closed forms (props/C04b.v, C04c.v): with a "
              "silent peer the sender awaiting ACK(EOF) and the receiver awaiting ACK(Finished) are idle after exactly 2N expiries "
              "(N-1 re-sends, one EOF/Finished(Positive ACK Limit Reached), N-1 re-sends of it, silent abandon), for every N >= 1.", "6/C04"),
    "C05": _c("Coq proof (whole-state-machine frame property by compositional reasoning + write-model lemmas) + correspondence + write-model oracle",
              "Proof (props/C05.v): for every call on every state no path other than the (resolved) destination path changes; an "
              "accepted File Data PDU turns the file into write_at old offset data (zero fill); pre-Metadata data is never written; "
              "Metadata creates/truncates; deletion only on cancel+disposition+incomplete. Per-call theorems that compose over any history.",
              "6/C05"),
    "C06": _c("Coq proof: NAK construction lemmas + history-level tracker invariant by induction over the arrival history + correspondence + interval-set oracle",
              "Proof (props/C06.v, C06b.v with C18): NAK splitting requests exactly metadata-marker + tracked ranges in order, every "
              "PDU within max_packet_len, scope (0, EOF size); gap detection / removal step lemmas; nothing missing => no NAK. "
              "History level (C06b): for EVERY arrival order and duplication of the tiles of a file (fixed segment length) the tracker "
              "denotes exactly the bytes below the highest offset received that were not received, stays well-formed and never raises. "
              "For arbitrarily overlapping segments c06_tracker_never_forgets: total, sound, possibly over-approximating. END TO END (props/C06c.v), "
              "through the real entry point state_machine from a fresh handler: Metadata, ANY history of tiles (any order, duplication, "
              "subset; both NAK modes), EOF (no error): the EOF call queues the ACK (EOF), the next call the NAK sequence whose requests "
              "denote exactly the bytes of [0, size) not received, ascending with real gaps, inside [0, size), no (0,0), scope (0, size), "
              "every PDU within max_packet_len; nothing missing => no NAK and (checksum passing) the Finished PDU; EOF as first PDU => "
              "(0,0) then (0,size); after the NAK timer expiry and further tiles the re-issue again requests exactly what is still missing.", "6/C06"),
    "C07": _c("Coq proof by induction over the tiles of the file (unbounded: all contents, sizes, configurations) + correspondence + stream oracle",
              "Proof (props/C07.v): for every file and configuration with effective segment length >= 1 the calls of an accepted put "
              "emit exactly [Metadata]; one File Data PDU per call tiling [0,size) ascending; [EOF(size, checksum)], all with one "
              "header; File Data, EOF and ACK PDUs within max_packet_len (a packet that cannot hold an EOF PDU is refused at the start: fixed finding F19).", "6/C07"),
    "C08": _c("Coq proof (induction on the chunk loop; unbounded) + correspondence + retransmission oracle",
              "Proof (props/C08.v): a valid request yields exactly the tiles of [start,end) with the file's bytes; (0,0) the Metadata "
              "PDU; inverted / beyond-progress requests raise InvalidNakPdu and queue nothing; a NAK of valid requests yields their "
              "concatenation in order and remembers the step; resumption restores it; progress/EOF state untouched.", "6/C08"),
    "C09": _c("Coq proof (loop invariant over the chunk loop, fold_left algebra, word-sum identity; unbounded) + correspondence on real files",
              "Proof (props/C09.v): for all contents, prefix lengths and positive chunk lengths calculate_checksum returns the CRC-32 / "
              "CRC-32C of the prefix (chunk independent), the modular word sum mod 2^32, four zero bytes for NULL; verify is true iff "
              "equal; CRC spec anchored to the catalogue check values; EOF checksum checked on source traces.", "6/C09",
              "crcmod modelled by the bit-serial CRC of Crc.v (validated each run)."),
    "C10": _c("Coq proof: admission/guard theorems + whole-state-machine no-internal-error invariants of both handlers + correspondence on hostile streams + exception-class oracle",
              "Proof (props/C10.v): a PDU rejected by the admission checks returns the very same state; admission raises "
              "library exceptions only; 'unretrieved PDUs' only if the queue was non-empty (sender: whole state machine; receiver: "
              "guards + ready-counter invariant over the whole state machine). WHOLE STATE MACHINES (props/C10b.v): explicit "
              "well-formedness invariants of both handlers hold for fresh handlers, are preserved by every API call (also a raising "
              "one) and by the environment, and under them no API call raises AssertionError / AttributeError / TypeError / KeyError "
              "or exceeds the modelled nesting depth - for every history. ValueError is outside by design (unroutable PDU, packet "
              "too small, truncated source file, unreachable tracker refusal: finding F9 is fixed); the oracle checks every exception "
              "class on hostile histories incl. the fault-handler matrix.", "6/C10"),
    "C11": _c("Coq proof of the idle-is-fresh invariants over both whole state machines + differential run fresh vs reused vs sibling handlers + correspondence",
              "Proof (props/C11.v): whenever a handler is idle its per-transaction parameter block is the freshly constructed one "
              "(invariant of every API call, hence every history); a new transaction ignores whatever was there. Instance isolation "
              "holds by construction in the model; the part the code can violate (shared mutable defaults) is what the differential "
              "run tests: same follow-up transaction on fresh / reused / sibling-busy handlers. HISTORY INDEPENDENCE (props/C11b.v): two "
              "idle handlers that agree on configuration, environment, queued PDUs, ready counter (and the sender's sequence "
              "counter) give identical observations under every sequence of API calls, whatever their histories left behind.", "6/C11"),
    "C12": _c("Coq proof (case analysis of cancel_request, EOF(cancel) handling and the cancelled completion) + correspondence + cancel oracle",
              "Proof (props/C12.v): cancel returns true iff an active transaction has that id (unchanged state otherwise); sender: "
              "next PDU is EOF(Cancel Request Received, size = progress, checksum of that prefix), file-data step left for good; "
              "receiver: the next call issues Transaction-Finished and, iff closure/acknowledged, the Finished PDU with the local "
              "entity as fault location; EOF(cancel) finishes with its condition and the sender as fault location; deletion iff disposition. "
              "Invariant (props/C12b.v, every API call, chains over any history): after the sender's notice of cancellation every File "
              "Data PDU still emitted lies within the bytes sent before the cancel, the progress never moves, cancelling until idle; receiver "
              "side C12c (no write after a cancel, one deletion at most, five ways into the cancelled state). END TO END (props/C12d.v) over the "
              "two-handler system, every file and configuration, a cancel request at the sender anywhere in the file-data phase: the next PDU "
              "is exactly EOF (Cancel Request Received, bytes sent, checksum of that prefix), nothing follows, both users get "
              "Transaction-Finished with that condition and the sender as fault location, the destination file is absent iff disposition, "
              "otherwise the prefix sent (acknowledged mode; unacknowledged without closure). Fixed findings F32, F33.",
              "6/C12"),
    "C13": _c("Coq proof (check-limit step lemmas for every limit L + counting induction) + correspondence + schedule-space oracle",
              "Proof (props/C13.v): EOF before all data does not finish the transaction (check timer starts, counter 0); expiry with "
              "complete data completes; expiry k<L only counts; expiry L declares Check Limit Reached exactly then; after k expiries the "
              "counter is k (any L); sender with closure declares Check Limit Reached when its timer expires without a Finished PDU. Closed form "
              "(C13b) and HISTORY LEVEL (props/C13c.v) through state_machine from a fresh handler: Metadata, any early slices, EOF, then any "
              "schedule of late slices and polls with arbitrary clock advances - waits while data is missing (counter = number of expiries), "
              "completes successfully with the identical file at the first expiry found with the file complete, declares Check Limit Reached at "
              "the L-th expiry otherwise, for every configured handler; an IGNOREd limit fault is not declared again before the next expiry "
              "(fixed finding F34). The no-intermediate-CRC-collision hypothesis is shown necessary by a constructed collision.",
              "6/C13"),
    "C14": _c("Coq proof (dispatch lemmas for every condition/handler code on both handlers; table read from mib.py each run) + correspondence + callback oracle",
              "Proof (props/C14.v): declare_fault calls exactly the configured callback once with (id, condition, progress) and ignores / "
              "cancels (condition into EOF/Finished) / abandons (idle, nothing sent); no callback without transaction id; conditions "
              "outside the table are refused, table unchanged; default table facts. WHOLE FSM (props/C14b.v): every fault callback that ANY API "
              "call of either handler delivers carries the transaction id of that call and the kind the table gives for its condition (or "
              "is the abandon callback of a fault during a cancel exchange, characterised exactly); an abandon callback is the newest event "
              "of its call, at most one, handler idle and fresh afterwards, nothing queued earlier is dropped; the sender delivers at most "
              "one fault callback per call; the receiver's Transaction-Finished after a cancel callback reports exactly that condition. "
              "Fixed findings: F15, F22, F25-F27, F34, F35 (see DESIGN.md 14).",
              "6/C14"),
    "C15": _c("Coq proof (gating invariant over both whole state machines by compositional reasoning + parameter lemmas) + correspondence + indication oracle",
              "Proof (props/C15.v): every event any call adds is gated by its switch (all inputs, all states); Metadata-Recv / "
              "File-Segment-Recv parameters equal the PDU's; Transaction-Finished equals the Finished PDU of that completion; the "
              "sender copies the Finished PDU; originating id surfaced unless a proxy put response is present. CAUSAL ORDER (props/C15c.v): an "
              "order automaton over the event log accepts the log of EVERY history of API calls of either handler (sender: Transaction, "
              "EOF-Sent*, at most one Transaction-Finished, ids of the latest Transaction, strictly increasing sequence numbers; receiver: "
              "every event carries the id of the transaction in progress, the only receive indication of a call is that of its PDU with "
              "the PDU's parameters, receive indications precede Transaction-Finished, Metadata-Recv at most once, after "
              "Transaction-Finished only Transaction-Finished / fault callbacks until idle). Fixed finding F21 (the cancelled unacknowledged sender now reports; c15_source_cancel_unacked_reports).",
              "6/C15"),
    "C16": _c("Coq proof of representation independence of both handlers w.r.t. the filestore (partial: runtime half by the tie) + native/in-memory/decoy differential run with host-access audit",
              "PARTIAL: the theorem (props/C16.v) shows the model handlers observe the filestore only through its interface. That the "
              "Python code never touches the host behind the filestore cannot be exhibited by a Gallina model: the check runs every "
              "transfer on the native filestore, on an in-memory VirtualFilestore (paths absent on the host) and on the in-memory "
              "store with decoy host files, compares the traces, records host access from cfdppy/handler frames.", "6/C16"),
    "C17": _c("Coq proof of the laws of the reference file-system model + refinement check NativeFilestore vs model on the host file system",
              "Proof (props/C17.v): refused/failing ops leave the tree unchanged; success codes only with the documented effect; ops "
              "touch only the paths they name; specific refusal codes; write/read round trip and frame. The refinement claim itself "
              "(NativeFilestore behaves like Fs.v) is checked by differential runs on real directories with full tree snapshots.",
              "6/C17"),
    "C18": _c("Coq proof (induction over operation sequences, refinement to a set of bytes; unbounded) + exhaustive small-scope correspondence",
              "Proof (props/C18.v): every tracker operation preserves ascending/non-empty/disjoint and refines the exact set of bytes, "
              "for all operation sequences; coalescing keeps the set and leaves no adjacent ranges; removal reports changes; straddling "
              "removals are refused unchanged.", "6/C18"),
    "C19": _c("Coq proof (case analysis of put_request / transaction_start; monotone sequence counter over the whole state machine) + correspondence + put oracle",
              "Proof (props/C19.v): busy => false and the very same state; missing file / unknown entity => documented error, idle, "
              "reusable; mode/closure from the request else the MIB; segment length = min(configured, packet allows), ValueError when "
              "no base PDU fits; next provider value per transaction, counter never decreases.", "6/C19"),
    "C20": _c("Coq proof over ALL PDUs and ALL handler states (routing table generated from common.py each run) + complete enumeration on the implementation",
              "Proof (props/C20.v): get_packet_destination equals the property's table; a PDU routed to the other handler makes "
              "state_machine raise a library exception and return the same state; a PDU routed here is never refused as foreign; "
              "acknowledge_inactive_eof_pdu. The finite space of the property is enumerated completely on the implementation.",
              "6/C20"),
}

NOT_APPLICABLE = {}


def manifest():
    checks = []
    for pid in sorted(CHECKS):
        c = CHECKS[pid]
        checks.append({
            "property_id": pid,
            "quick_cmd": f"./bin/check {pid} quick",
            "thorough_cmd": f"./bin/check {pid} thorough",
            "evidence_file": f"/verif/evidence/{pid}.json",
            "replay_cmd_template": f"./bin/check {pid} --replay {{path}}",
            "engine": "coq-model+correspondence",
            "level_claimed": {"category": "proof", "text": c["text"], "design_ref": c["design"]},
            "level_note": c["note"],
            "technique": c["technique"],
        })
    na = [{"property_id": p, "reason": r} for p, r in sorted(NOT_APPLICABLE.items())]
    return {
        "version": 1,
        "setup_cmd": "./bin/setup",
        "hooks": {"guard": "CFDPPY_VERIF",
                  "enable": "none needed: time is virtualised from the harness (spacepackets.countdown.time_ms replaced at run "
                            "time); there are no hook commits in /repo, only unguarded 'fix:' commits (see known_findings.json)",
                  "baseline_off_cmd": "cd /repo && /venv/bin/python -m pytest -ra -q -p no:cacheprovider --timeout=900 "
                                      "--continue-on-collection-errors",
                  "source_commits": [], "add_only": True},
        "engines": [{"name": "coq-model+correspondence", "path": "/verif/coq",
                     "serves_properties": sorted(CHECKS),
                     "kind_free_text": "Coq 8.16.1 development (hand-written Gallina model of cfdp-py + theorems per property), "
                                       "OCaml runner extracted from the model, Python differential harness and oracles"}],
        "checks": checks,
        "not_applicable": na,
        "notes": "All checks: bin/check <id> quick|thorough|--replay <file>. Known findings: /verif/known_findings.json. "
                 "Design, trusted base, seeded-change results: DESIGN.md.",
    }


if __name__ == "__main__":
    (VERIF / "MANIFEST.json").write_text(json.dumps(manifest(), indent=1) + "\n")
    print("MANIFEST.json written:", len(manifest()["checks"]), "checks")
