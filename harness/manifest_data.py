"""Source of /verif/MANIFEST.json (written by `python -m harness.manifest_data`)."""
import json
from pathlib import Path

VERIF = Path(__file__).resolve().parent.parent

CHECKS = {
    "C18": dict(
        technique="Coq proof (induction over operation sequences, refinement to a set of bytes) + differential correspondence model/impl",
        text="Machine-checked proof in Coq 8.16.1 (props/C18.v): every tracker operation of the Gallina model LostSeg.v preserves the "
             "ascending/non-empty/disjoint invariant and refines the exact set of bytes, for all operation sequences (unbounded, by "
             "induction); straddling removals are refused. The model is tied to dest.py::LostSegmentTracker on every run by a "
             "differential run (exhaustive small scope + random) and an independent set-of-bytes oracle.",
        note="Trusted: Coq kernel+VM; hand-written model LostSeg.v (python dict order semantics) validated by the correspondence run; "
             "extraction (ExtrOcamlBasic only) and runner.ml; no axioms (Print Assumptions checked each run).",
        design="6/C18"),
    "C09": dict(
        technique="Coq proof (loop invariant over the chunk loop, algebra of fold_left; word-sum identity) + differential correspondence on real files",
        text="Machine-checked proof (props/C09.v): for all contents, prefix lengths and positive chunk lengths the model of "
             "calculate_checksum returns the CRC-32 / CRC-32C of the prefix (chunk independent), the modular word sum mod 2^32, four "
             "zero bytes for NULL; verify is true iff equal. CRC spec anchored to the catalogue check values. Tie: NativeFilestore on "
             "real files vs extracted model vs zlib/independent CRC-32C/word-sum oracles; EOF checksum on source traces.",
        note="Trusted: Coq kernel+VM; crcmod modelled by the bit-serial CRC of Crc.v (validated each run); extraction+runner; no axioms.",
        design="6/C09"),
}

NOT_YET = {f"C{i:02d}": "check under construction in this round (see DESIGN.md section 11); not claimed yet" for i in range(1, 21)}


def manifest():
    checks = []
    for pid in sorted(CHECKS):
        c = CHECKS[pid]
        checks.append({
            "property_id": pid,
            "quick_cmd": f"./bin/check {pid} quick",
            "thorough_cmd": f"./bin/check {pid} thorough",
            "evidence_file": f"/verif/evidence/{pid}.json",
            "replay_cmd_template": f"./bin/check {pid} --replay {{path}}",
            "engine": "coq-model+correspondence",
            "level_claimed": {"category": "proof", "text": c["text"], "design_ref": c["design"]},
            "level_note": c["note"],
            "technique": c["technique"],
        })
    na = [{"property_id": p, "reason": r} for p, r in sorted(NOT_YET.items()) if p not in CHECKS]
    return {
        "version": 1,
        "setup_cmd": "./bin/setup",
        "hooks": {"guard": "CFDPPY_VERIF", "enable": "none needed: time is virtualised from the harness "
                  "(spacepackets.countdown.time_ms replaced at run time); no hook commits in /repo",
                  "baseline_off_cmd": "cd /repo && /venv/bin/python -m pytest -ra -q -p no:cacheprovider --timeout=900 "
                                      "--continue-on-collection-errors",
                  "source_commits": [], "add_only": True},
        "engines": [{"name": "coq-model+correspondence", "path": "/verif/coq",
                     "serves_properties": sorted(CHECKS),
                     "kind_free_text": "Coq 8.16.1 development (hand-written Gallina model + theorems), OCaml runner extracted "
                                       "from the model, Python differential harness and oracles"}],
        "checks": checks,
        "not_applicable": na,
        "notes": "All checks: bin/check <id> quick|thorough. Known findings: /verif/known_findings.json. See DESIGN.md.",
    }


if __name__ == "__main__":
    (VERIF / "MANIFEST.json").write_text(json.dumps(manifest(), indent=1) + "\n")
    print("MANIFEST.json written:", len(manifest()["checks"]), "checks")
