from harness import evprops, hcommon, hprop_run, sysprops

PROP = "C03"
EXTRA_PROPS = ("C03u", "C03m", "C03r", "C03d", "C03y", "C03z", "C03w") if PROP == "C03" else ()    # unbounded K = 1: any single lost File Data PDU, any file
RULES = {
 "C02": "fault-free link: modes x closure x checksum types x sizes 0..13 x random CRC flag / id widths / seq widths / segment length / "
        "max packet length / NAK mode x destination as file / directory / existing file x pacing (0-3 extra empty calls per round), "
        "metadata-only requests; distinct = (config class, visited (step, op, exception) set)",
 "C01": "random configurations (both modes, closure, NAK modes, 4 checksum types) x 0..12 link faults per transfer (drop / duplicate / "
        "delay / file-data bit flip) and destination write rejections; at every success report (indication or Finished PDU, either side) "
        "the destination file is read back and compared with the source; distinct = (config class, visited (step, op, exception) set)",
 "C03": "acknowledged mode: every single fault (drop / duplicate / delay, either direction, every PDU occurrence) and pairs of faults "
        "(all pairs in thorough, sampled in quick) on files of 0/5/9 bytes, both NAK modes, closure on/off, limits K+3; random K<=6 "
        "faults with limits > K beyond; link then quiet, timers keep expiring; distinct = (config class, visited set)",
}


def run(tier, seed):
    hc = hcommon.HandlerCheck(PROP, tier, seed)
    hc.gate(EXTRA_PROPS)
    n_success_checks = 0
    syscases = []
    for case in hcommon.share(sysprops.c03_cases(tier, hc.rng)):
        case.run()
        if len(syscases) < (300 if tier == "quick" else 3000):
            syscases.append(case)
        fail = sysprops.check_c03(case)
        n_success_checks += len(case.success_checks)
        for kind, ops, obs in case.sides:
            hc.add_trace(kind, ops, obs, label="two-handler transfer", describe=case.describe)
        hc.judged += 1
        hc.count(("mode", case.describe()["mode"], "faults", len(case.faults)))
        if fail:
            hc.world_violation(fail, case.describe(), case.sides)
        if len(hc.v.violations) > 3:
            break
    n_sys = sysprops.system_correspondence(hc, syscases, "props/C03*.v (System.v = scheduler + both handler models)")
    hc.correspondence(project=hcommon.proj_all_external, theorem="props/C03.v (correspondence source+dest, all external observables)")
    return hc.finish(RULES[PROP], {"success_reports_checked": n_success_checks, "system_model_runs_compared": n_sys})


def replay(path):
    import json
    from harness.transfer import Cfg, Fault
    d = json.loads(open(path).read())
    c = d.get("case")
    if not c:
        print("replay file names a theorem/correspondence, not an input")
        return 0
    print(json.dumps(c))
    print("re-run: the case description above is the input; bin/check C03 with the recorded seed regenerates it")
    return 0
