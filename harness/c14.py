from harness import evprops, hcommon, hprop_run, mixed

PROP = "C14"
EXTRA_PROPS = ("C14b",)    # whole FSM: every fault callback any API call delivers follows the fault-handler table
FAULT_TABLES = True
DEFAULT_ONLY = False


def cases(tier, rng):
    nt, nh = (150, 200) if tier == "quick" else (12000, 18000)
    over = {}
    if PROP == "C15":
        yield from c15_switch_cases(tier, rng)
    if PROP in ("C14", "C10"):
        yield from mixed.fault_matrix_cases(tier, rng)
    yield from mixed.mixed_cases(tier, rng, nt, nh, over, fault_tables=FAULT_TABLES)


def c15_switch_cases(tier, rng):
    from harness import campaign
    for mask in range(16):
        ind = tuple(bool(mask >> i & 1) for i in range(4))
        for mode in (0, 1):
            for msgs in (None, [0], [1105, 0], [1105, 1], [2]):
                c = campaign.rand_transfer_case(rng, ind=ind, mode=mode, req_mode=None, msgs=msgs)
                yield c


def run(tier, seed):
    rc_extra = []
    if PROP == "C14":
        rc_extra = evprops.set_handler_refuses()
    hc = hcommon.HandlerCheck(PROP, tier, seed)
    hc.gate(EXTRA_PROPS)
    hc.run_corpus(lambda kind: evprops.oracle_c14)
    for text in rc_extra:
        hc.v.violation("oracle: C14 " + text, {"api": "DefaultFaultHandlerBase.set_handler"})
    for case in hcommon.share(cases(tier, hc.rng)):
        case.run()
        for kind, ops, obs in case.sides:
            hc.add_trace(kind, ops, obs, label=type(case).__name__, oracle=evprops.oracle_c14, describe=case.describe)
        if len(hc.v.violations) > 3:
            break
    hc.correspondence(project=hcommon.proj_all_external, theorem="props/C14.v (correspondence source+dest, all external observables)")
    return hc.finish("two-handler transfers with link faults, cancels (right/wrong id), write rejections, several transactions per "
                     "handler + hostile single-handler streams (PDUs of every type with wrong ids/directions/modes in every step, "
                     "undrained queues, resets, timer advances)" + (", random fault-handler tables on both sides" if FAULT_TABLES else "") +
                     ("; all 16 indication-switch settings x modes x message-to-user lists" if PROP == "C15" else "") +
                     "; distinct = (config class, visited (step, op, exception) set)")


def replay(path):
    return hprop_run.replay_generic(PROP, path, evprops.oracle_c14)
