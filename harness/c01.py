from harness import evprops, hcommon, hprop_run, sysprops

PROP = "C01"
EXTRA_PROPS = ("C01b", "C01c", "C01s") if PROP == "C01" else ()    # whole-FSM: success only from a verified state; two-sided system theorem over every fault schedule
RULES = {
 "C02": "fault-free link: modes x closure x checksum types x sizes 0..13 x random CRC flag / id widths / seq widths / segment length / "
        "max packet length / NAK mode x destination as file / directory / existing file x pacing (0-3 extra empty calls per round), "
        "metadata-only requests; distinct = (config class, visited (step, op, exception) set)",
 "C01": "random configurations (both modes, closure, NAK modes, 4 checksum types) x 0..12 link faults per transfer (drop / duplicate / "
        "delay / file-data bit flip) and destination write rejections; at every success report (indication or Finished PDU, either side) "
        "the destination file is read back and compared with the source; distinct = (config class, visited (step, op, exception) set)",
 "C03": "acknowledged mode: every single fault (drop / duplicate / delay, either direction, every PDU occurrence) and pairs of faults "
        "(all pairs in thorough, sampled in quick) on files of 0/5/9 bytes, both NAK modes, closure on/off, limits K+3; random K<=6 "
        "faults with limits > K beyond; link then quiet, timers keep expiring; distinct = (config class, visited set)",
}


def run(tier, seed):
    hc = hcommon.HandlerCheck(PROP, tier, seed)
    hc.gate(EXTRA_PROPS)
    n_success_checks = 0
    for case in hcommon.share(sysprops.c01_cases(tier, hc.rng)):
        case.run()
        fail = sysprops.check_c01(case)
        n_success_checks += len(case.success_checks)
        for kind, ops, obs in case.sides:
            hc.add_trace(kind, ops, obs, label="two-handler transfer", describe=case.describe)
        hc.judged += 1
        hc.count(("mode", case.describe()["mode"], "faults", len(case.faults)))
        if fail:
            hc.world_violation(fail, case.describe(), case.sides)
        if len(hc.v.violations) > 3:
            break
    hc.correspondence(project=hcommon.proj_all_external, theorem="props/C01.v (correspondence source+dest, all external observables)")
    return hc.finish(RULES[PROP], {"success_reports_checked": n_success_checks})


def replay(path):
    import json
    from harness.transfer import Cfg, Fault
    d = json.loads(open(path).read())
    c = d.get("case")
    if not c:
        print("replay file names a theorem/correspondence, not an input")
        return 0
    print(json.dumps(c))
    print("re-run: the case description above is the input; bin/check C01 with the recorded seed regenerates it")
    return 0
