"""Shared machinery of the cfdp-py verification checks.

Build of the Coq development and of the extracted OCaml runner, execution of
the model, proof-obligation accounting, evidence files, verdict lines and the
known-findings protocol.  See /verif/DESIGN.md sections 2, 4, 5 and 9.
"""
from __future__ import annotations

import contextlib
import fcntl
import hashlib
import json
import os
import re
import shutil
import subprocess
import sys
import time
from pathlib import Path

VERIF = Path(__file__).resolve().parent.parent
REPO = Path(os.environ.get("CFDP_VERIF_REPO", "/repo"))
COQ = VERIF / "coq"
EXTRACT = COQ / "extract"
RUNNER = EXTRACT / "runner"
# bin/seeded runs the checks on a deliberately broken /repo: its evidence must not replace the committed records
EVIDENCE = Path(os.environ.get("VERIF_EVIDENCE_DIR") or VERIF / "evidence")
REPLAYS = VERIF / "replays"
CORPUS = VERIF / "corpus"
KNOWN_FINDINGS = VERIF / "known_findings.json"
NCPU = max(1, min(16, os.cpu_count() or 1))

FORBIDDEN = re.compile(
    r"\b(Admitted|admit|Axiom|Axioms|Parameter|Parameters|Conjecture|Abort All|"
    r"Unset\s+Guard\s+Checking|Unset\s+Positivity\s+Checking|Unset\s+Universe\s+Checking|"
    r"bypass_check|Admit\s+Obligations|type-in-type|impredicative-set)\b"
)

TRUSTED_BASE = [
    "Coq 8.16.1 kernel incl. its VM (vm_compute); native_compute not used",
    "no axioms declared; Print Assumptions of every property theorem is checked on each run",
    "hand-written Gallina model tied to /repo/src by the differential correspondence run of this check "
    "(model extracted with ExtrOcamlBasic only, no Extract Constant/Inductive; runner.ml driver; OCaml 4.13.1)",
    "gen/Tables.v regenerated from /repo/src by harness/gentables.py (ast reader, fail-closed)",
    "Python harness: virtual clock (spacepackets.countdown.time_ms replaced), PDU<->record glue, generators, oracles",
    "modelled not verified: spacepackets 0.26.1, crcmod 1.7, CPython dict/sorted semantics, host OS file system",
]


WORKERS = int(os.environ.get("VERIF_WORKERS", "1") or 1)
WORKER = int(os.environ.get("VERIF_WORKER", "0") or 0)


def share(iterable):
    """In a multi-worker (thorough) run each worker takes every WORKERS-th case."""
    if WORKERS <= 1:
        yield from iterable
        return
    for i, x in enumerate(iterable):
        if i % WORKERS == WORKER:
            yield x


ASSUMPTIONS = [
    "the theorems are about the Gallina model; the model is tied to the code only by this run's differential correspondence "
    "(finite sample of traces) and by the tables regenerated from the source",
    "time is the virtual clock installed over spacepackets.countdown.time_ms; PDUs cross the harness as packed bytes",
    "spacepackets, crcmod and the CPython runtime behave as the harness observes them (they are modelled, not verified)",
    "oracle verdicts on implementation traces read only public observables (returned PDUs, indications, fault callbacks, "
    "raised exceptions, file contents)",
]


def log(*a):
    print(*a, file=sys.stderr, flush=True)


# --------------------------------------------------------------------------- build

@contextlib.contextmanager
def build_lock():
    lock = open(VERIF / ".build.lock", "w")
    try:
        fcntl.flock(lock, fcntl.LOCK_EX)
        yield
    finally:
        fcntl.flock(lock, fcntl.LOCK_UN)
        lock.close()


def sh(cmd, cwd=None, timeout=3600, env=None):
    p = subprocess.run(cmd, cwd=cwd, shell=isinstance(cmd, str), stdout=subprocess.PIPE,
                       stderr=subprocess.STDOUT, timeout=timeout, text=True, env=env)
    return p.returncode, p.stdout


def scan_forbidden() -> list[str]:
    hits = []
    for f in sorted(COQ.rglob("*.v")):
        txt = f.read_text()
        # strip comments (non-nested is enough for our sources; nested handled by loop)
        prev = None
        while prev != txt:
            prev = txt
            txt = re.sub(r"\(\*(?:(?!\(\*|\*\)).)*\*\)", "", txt, flags=re.S)
        for m in FORBIDDEN.finditer(txt):
            hits.append(f"{f.relative_to(COQ)}: {m.group(0)}")
    return hits


_BUILD_CACHE = {}


def build(quiet=True) -> dict:
    """Regenerate gen/Tables.v from /repo/src, run make (full .vo build, incremental, -k so that one
    broken proof does not hide the others), extract the model, build the OCaml runner."""
    if "report" in _BUILD_CACHE:
        return _BUILD_CACHE["report"]
    if os.environ.get("VERIF_SKIP_GATE"):    # worker of a thorough run: the parent has built and gated already
        _BUILD_CACHE["report"] = {"ok": True, "log": "", "tables": None, "failed_files": [], "forbidden": [], "wall_s": 0}
        return _BUILD_CACHE["report"]
    t0 = time.time()
    report = {"ok": True, "log": "", "tables": None, "failed_files": [], "forbidden": []}
    with build_lock():
        try:
            from harness import gentables
            report["tables"] = gentables.generate()
        except Exception as e:  # fail-closed reader: keep the last file, remember the reason
            report["tables"] = {"error": f"{type(e).__name__}: {e}"}
        if not (COQ / "Makefile").exists() or (COQ / "_CoqProject").stat().st_mtime > (COQ / "Makefile").stat().st_mtime:
            sh("coq_makefile -f _CoqProject -o Makefile", cwd=COQ)
        rc, out = sh(f"timeout 3000 make -k -j{NCPU}", cwd=COQ, timeout=3100)
        report["log"] = out[-6000:]
        if rc != 0:
            report["ok"] = False
            report["failed_files"] = sorted(set(re.findall(r'File "\./([^"]+\.v)"', out)))
        # extraction + runner (model files only; independent of proofs)
        need = not RUNNER.exists()
        if not need:
            rt = RUNNER.stat().st_mtime
            for f in list(COQ.glob("*.vo")) + list((COQ / "gen").glob("*.vo")) + [EXTRACT / "Extract.v", EXTRACT / "runner.ml"]:
                if f.exists() and f.stat().st_mtime > rt:
                    need = True
                    break
        if need:
            rc1, out1 = sh("timeout 600 coqc -Q .. CFDP Extract.v", cwd=EXTRACT, timeout=700)
            rc2, out2 = sh("ocamlfind ocamlopt -O3 -w -a model.mli model.ml runner.ml -o runner 2>&1 || "
                           "ocamlfind ocamlopt -w -a model.mli model.ml runner.ml -o runner", cwd=EXTRACT, timeout=700)
            if rc1 != 0 or rc2 != 0 or not RUNNER.exists():
                report["ok"] = False
                report["runner_error"] = (out1 + out2)[-3000:]
        report["forbidden"] = scan_forbidden()
    report["wall_s"] = round(time.time() - t0, 2)
    _BUILD_CACHE["report"] = report
    return report


def proof_report(prop: str) -> dict:
    """Re-check props/<prop>.v with coqc, count obligations (Theorem/Example/Lemma statements in the
    property file) and read the Print Assumptions output."""
    src = COQ / "props" / f"{prop}.v"
    rep = {"file": str(src.relative_to(VERIF)), "obligations": 0, "discharged": 0, "closed": 0,
           "print_assumptions": 0, "axioms": [], "ok": False, "error": None, "theorems": []}
    if not src.exists():
        rep["error"] = "property file missing"
        return rep
    txt = src.read_text()
    thms = re.findall(r"^\s*(?:Theorem|Example|Lemma|Corollary)\s+(\w+)", txt, flags=re.M)
    rep["theorems"] = thms
    rep["obligations"] = len(thms)
    rep["print_assumptions"] = len(re.findall(r"^\s*Print Assumptions", txt, flags=re.M))
    cmd = f"timeout 1200 coqc -Q . CFDP props/{prop}.v"
    rep["checker_cmd"] = f"make -k -j{NCPU} (coq_makefile, full .vo) && cd coq && {cmd}"
    with build_lock():
        rc, out = sh(cmd, cwd=COQ, timeout=1300)
    rep["closed"] = out.count("Closed under the global context")
    axioms = []
    for m in re.finditer(r"Axioms:\n((?:.+\n?)+?)(?=\n\S|\Z)", out):
        axioms.append(m.group(1).strip())
    rep["axioms"] = axioms
    if rc == 0:
        rep["discharged"] = len(thms)
        rep["ok"] = (rep["closed"] == rep["print_assumptions"]) and not axioms
        if not rep["ok"]:
            rep["error"] = "Print Assumptions reports axioms: " + "; ".join(axioms)[:500]
    else:
        m = re.search(r'line (\d+)', out)
        line = int(m.group(1)) if m else 0
        done = 0
        for mm in re.finditer(r"^\s*(?:Theorem|Example|Lemma|Corollary)\s+(\w+)", txt, flags=re.M):
            if txt.count("\n", 0, mm.start()) + 1 < line:
                done += 1
        rep["discharged"] = max(0, done - 1) if done else 0
        rep["error"] = out[-1500:]
    return rep


# --------------------------------------------------------------------------- model execution

def _fmt_case(kind: str, ops) -> str:
    return kind + "|" + ";".join(" ".join(str(int(x)) for x in op) for op in ops)


def run_model(kind: str, cases, shards: int | None = None):
    """cases: list of op lists (each op a list of ints).  Returns per case the list of observations."""
    if not cases:
        return []
    shards = shards or (NCPU if len(cases) > 400 else 1)
    chunks = [cases[i::shards] for i in range(shards)]
    procs = []
    for ch in chunks:
        data = "\n".join(_fmt_case(kind, ops) for ops in ch) + "\n"
        p = subprocess.Popen([str(RUNNER)], stdin=subprocess.PIPE, stdout=subprocess.PIPE, text=True)
        procs.append((p, data))
    outs = []
    import threading
    results = [None] * len(procs)

    def work(i, p, data):
        results[i] = p.communicate(data)[0]
    ths = [threading.Thread(target=work, args=(i, p, d)) for i, (p, d) in enumerate(procs)]
    for t in ths:
        t.start()
    for t in ths:
        t.join()
    per_chunk = []
    for i, (p, _) in enumerate(procs):
        if p.returncode != 0:
            raise RuntimeError(f"model runner failed (kind={kind}) rc={p.returncode}")
        lines = results[i].split("\n")
        if lines and lines[-1] == "":
            lines.pop()
        per_chunk.append([parse_obs(l) for l in lines])
    res = [None] * len(cases)
    for s in range(shards):
        for j, o in enumerate(per_chunk[s]):
            res[s + j * shards] = o
    return res


def parse_obs(line: str):
    if line.strip() == "":
        return []
    return [[int(x) for x in o.split()] for o in line.split(";")]


def coq_eval(kind_fn: str, cases, imports="From CFDP Require Import Base Run.") -> list:
    """Evaluate a sample of cases inside Coq with vm_compute (cross-check of extraction + driver)."""
    if not cases:
        return []
    tmp = Path(f"/dev/shm/cfdp-verif-coq-{os.getpid()}")
    tmp.mkdir(parents=True, exist_ok=True)
    try:
        def zl(l):
            return "[" + "; ".join(f"({int(x)})" for x in l) + "]"
        body = [imports, "Open Scope Z_scope."]
        for ops in cases:
            body.append(f"Eval vm_compute in ({kind_fn} [" + "; ".join(zl(op) for op in ops) + "]).")
        (tmp / "cases.v").write_text("\n".join(body) + "\n")
        rc, out = sh(f"timeout 600 coqc -Q {COQ} CFDP cases.v", cwd=tmp, timeout=700)
        if rc != 0:
            raise RuntimeError("coq_eval failed: " + out[-800:])
        res = []
        for blk in re.split(r"^\s*= ", out, flags=re.M)[1:]:
            blk = blk.split(": list")[0]
            rows = re.findall(r"\[([^\[\]]*)\]", blk.replace("\n", " "))
            # innermost lists only
            obs = []
            for r in rows:
                r = r.strip()
                obs.append([int(x) for x in re.findall(r"-?\d+", r)])
            if blk.strip().startswith("[]"):
                obs = []
            res.append(obs)
        return res
    finally:
        shutil.rmtree(tmp, ignore_errors=True)


# --------------------------------------------------------------------------- findings / verdict

def load_known_findings(prop: str):
    if not KNOWN_FINDINGS.exists():
        return []
    data = json.loads(KNOWN_FINDINGS.read_text())
    return [f for f in data.get("findings", []) if f.get("property") == prop and f.get("status") == "known"]


class Verdict:
    def __init__(self, prop: str, tier: str, seed: int):
        self.prop, self.tier, self.seed = prop, tier, seed
        self.violations = []      # (what, replay_obj, has_input)
        self.known_hits = {}      # finding id -> what
        self.t0 = time.time()
        self.coverage = {}
        self.assumptions = list(ASSUMPTIONS)
        self.notes = []

    def violation(self, what: str, replay: dict, has_input: bool = True):
        self.violations.append((what, replay, has_input))

    def known(self, finding: dict, detail: str = ""):
        self.known_hits[finding["id"]] = finding["what"]

    def finish(self, level="proof") -> int:
        EVIDENCE.mkdir(parents=True, exist_ok=True)
        wk = os.environ.get("VERIF_WORKER_OUT")
        if wk:      # worker of a multi-process thorough run: hand everything to the parent
            Path(wk).write_text(json.dumps({"coverage": self.coverage, "violations": self.violations, "known": self.known_hits,
                                            "notes": self.notes, "assumptions": self.assumptions}, default=str))
            return 1 if self.violations else 0
        cov = dict(self.coverage)
        ev = {
            "property_id": self.prop, "tier": self.tier, "seed": self.seed, "level": level,
            "coverage": cov, "assumptions": self.assumptions, "wall_s": round(time.time() - self.t0, 2),
            "violations": len(self.violations), "notes": self.notes,
            "known_findings_hit": sorted(self.known_hits),
        }
        (EVIDENCE / f"{self.prop}.json").write_text(json.dumps(ev, indent=1, default=str) + "\n")
        for fid, what in sorted(self.known_hits.items()):
            print(f"KNOWN-FINDING: property={self.prop} {fid}: {what}", flush=True)
        if not self.violations:
            return 0
        seen = set()
        # violations with a concrete failing input first (stable)
        self.violations.sort(key=lambda x: not x[2])
        for what, replay, has_input in self.violations[:5]:
            body = json.dumps(replay, sort_keys=True, default=str)
            h = hashlib.sha1(body.encode()).hexdigest()[:12]
            if h in seen:
                continue
            seen.add(h)
            d = REPLAYS / self.prop
            d.mkdir(parents=True, exist_ok=True)
            path = d / f"{h}.json"
            replay = dict(replay)
            replay.update({"property": self.prop, "what": what, "seed": self.seed, "tier": self.tier,
                           "failing_input_found": has_input})
            path.write_text(json.dumps(replay, indent=1, default=str) + "\n")
            suffix = "" if has_input else " no-failing-input-found"
            print(f"VIOLATION property={self.prop} replay={path}{suffix}", flush=True)
            log(f"  -> {what}")
        return 1


def proof_gate(v: Verdict, prop: str, extra_props=()):
    """Build, account for the property's proof obligations, and register a (no-input) violation if the
    proofs no longer check.  Returns (build_report, proof_report)."""
    b = build()
    if os.environ.get("VERIF_SKIP_GATE"):
        v.proof_ok, v.proof_error = True, None
        v.coverage.update({"obligations": 0, "discharged": 0, "checker_cmd": "", "trusted_base": TRUSTED_BASE})
        return b, {"ok": True}
    pr = proof_report(prop)
    ob, di = pr["obligations"], pr["discharged"]
    for p2 in extra_props:
        r2 = proof_report(p2)
        ob += r2["obligations"]
        di += r2["discharged"]
        pr["closed"] += r2["closed"]
        pr["print_assumptions"] += r2["print_assumptions"]
        pr["theorems"] = list(pr["theorems"]) + list(r2["theorems"])
        if not r2["ok"]:
            pr["ok"] = False
            pr["error"] = (pr.get("error") or "") + f" [{p2}: {r2.get('error')}]"
    v.coverage.update({
        "obligations": ob, "discharged": di,
        "checker_cmd": pr.get("checker_cmd", ""),
        "trusted_base": TRUSTED_BASE,
        "print_assumptions_closed": pr["closed"], "print_assumptions_total": pr["print_assumptions"],
        "theorems": pr["theorems"], "tables": b.get("tables"),
    })
    v.proof_ok = bool(pr["ok"]) and not b["forbidden"] and not b.get("runner_error")
    v.proof_error = None
    if b["forbidden"]:
        v.proof_error = "forbidden vernacular: " + ", ".join(b["forbidden"][:5])
    elif b.get("runner_error"):
        v.proof_error = "extraction/runner build failed: " + b["runner_error"][-400:]
    elif not pr["ok"]:
        v.proof_error = f"proof obligations of {prop} not all discharged ({di}/{ob}): {str(pr.get('error'))[-600:]}"
    return b, pr


def sandbox_dir(tag: str) -> Path:
    d = Path(f"/dev/shm/cfdp-verif-{tag}-{os.getpid()}")
    if d.exists():
        shutil.rmtree(d)
    d.mkdir(parents=True)
    return d
