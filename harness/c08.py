"""C08 — Retransmissions deliver exactly the requested data and nothing else."""
import json

from harness import hcommon, srcprops, transfer

PROP = "C08"
EXTRA_PROPS = ("C08b",)     # transparency: after answering a NAK the sender continues exactly as if it had never arrived


def run(tier, seed):
    hc = hcommon.HandlerCheck(PROP, tier, seed)
    hc.gate(EXTRA_PROPS)
    hc.run_corpus(lambda kind: srcprops.oracle_c08)
    for case in hcommon.share(srcprops.c08_cases(tier, hc.rng)):
        if case[0] == "multi":
            _, cfg, data, sched, ack_after = case
            kind, ops, obs = srcprops.multi_nak_source_case(cfg, data, sched, ack_after)
            k = 99
        else:
            cfg, data, k, reqs_list = case
            kind, ops, obs = srcprops.nak_source_case(cfg, data, k, reqs_list)
        hc.add_trace(kind, ops, obs, label=f"nak@{k}", oracle=srcprops.oracle_c08)
        hc.count(("inject_after_calls", min(k, 8)))
        if len(hc.v.violations) > 3:
            break
    # the re-sent Metadata PDU is the ORIGINAL one, byte for byte, also for the options the model does not interpret
    from harness.transfer import Cfg
    for i in range(12 if tier == "quick" else 300):
        rng = hc.rng
        opts = {}
        if rng.random() < 0.8:
            opts["fs"] = rng.choice([1, 2])
        if rng.random() < 0.5:
            opts["fh"] = 1
        if rng.random() < 0.5:
            opts["flow"] = 1
        if rng.random() < 0.7:
            opts["msgs"] = [0] * rng.choice([1, 2])
        seg, size = rng.choice([2, 4]), rng.choice([5, 9])
        cfg = Cfg(mode=0, max_seg=seg, max_packet=200, ack_limit=5)
        naks = sorted(rng.sample(range(1, 9), rng.choice([1, 2, 3])))
        mds = srcprops.metadata_resend_case(cfg, bytes(range(size)), opts, naks)
        hc.judged += 1
        hc.count(("md_resend", tuple(sorted(opts)), len(naks)))
        if mds is not None and len(set(mds)) > 1:
            hc.world_violation(f"C08 the Metadata PDU re-sent for a (0,0) request is not the original one: lengths "
                               f"{[len(m) for m in mds]} (options {opts}, NAKs after calls {naks})",
                               {"md_resend": True, "opts": opts, "naks": naks, "seg": seg, "size": size, "mds": [m.hex() for m in mds]}, [])
        if mds is not None and len(mds) < 2:
            hc.count(("md_resend", "no re-send"))
    hc.correspondence(project=hcommon.proj_pdus_exc, theorem="c08_retransmission / c08_segment_req_* (correspondence source)")
    return hc.finish("NAK PDUs (single requests: every (start,end) in 0..size+2 for sizes 0/3/9, double and random multi-request "
                     "NAKs) injected after every number of calls of an acknowledged transfer, then run on; distinct = "
                     "(config class, set of (step, op, exception) visited)")


def replay(path):
    d = json.loads(open(path).read())
    c = d.get("case") or {}
    if c.get("md_resend"):
        from harness.transfer import Cfg
        mds = srcprops.metadata_resend_case(Cfg(mode=0, max_seg=c["seg"], max_packet=200, ack_limit=5), bytes(range(c["size"])),
                                            c["opts"], c["naks"])
        if mds is not None and len(set(mds)) > 1:
            print(f"VIOLATION property={PROP} replay={path}")
            print("  re-sent Metadata PDU differs from the original: lengths", [len(m) for m in mds])
            return 1
        return 0
    obs, _ = transfer.replay_ops(d["kind"], d["ops"])
    try:
        srcprops.oracle_c08(hcommon.Trace(d["kind"], d["ops"], obs))
    except hcommon.Failure as f:
        print(f"VIOLATION property={PROP} replay={path}")
        print(" ", f)
        return 1
    return 0
