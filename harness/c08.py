"""C08 — Retransmissions deliver exactly the requested data and nothing else."""
import json

from harness import hcommon, srcprops, transfer

PROP = "C08"
EXTRA_PROPS = ("C08b",)     # transparency: after answering a NAK the sender continues exactly as if it had never arrived


def run(tier, seed):
    hc = hcommon.HandlerCheck(PROP, tier, seed)
    hc.gate(EXTRA_PROPS)
    hc.run_corpus(lambda kind: srcprops.oracle_c08)
    for case in hcommon.share(srcprops.c08_cases(tier, hc.rng)):
        if case[0] == "multi":
            _, cfg, data, sched, ack_after = case
            kind, ops, obs = srcprops.multi_nak_source_case(cfg, data, sched, ack_after)
            k = 99
        else:
            cfg, data, k, reqs_list = case
            kind, ops, obs = srcprops.nak_source_case(cfg, data, k, reqs_list)
        hc.add_trace(kind, ops, obs, label=f"nak@{k}", oracle=srcprops.oracle_c08)
        hc.count(("inject_after_calls", min(k, 8)))
        if len(hc.v.violations) > 3:
            break
    hc.correspondence(project=hcommon.proj_pdus_exc, theorem="c08_retransmission / c08_segment_req_* (correspondence source)")
    return hc.finish("NAK PDUs (single requests: every (start,end) in 0..size+2 for sizes 0/3/9, double and random multi-request "
                     "NAKs) injected after every number of calls of an acknowledged transfer, then run on; distinct = "
                     "(config class, set of (step, op, exception) visited)")


def replay(path):
    d = json.loads(open(path).read())
    obs, _ = transfer.replay_ops(d["kind"], d["ops"])
    try:
        srcprops.oracle_c08(hcommon.Trace(d["kind"], d["ops"], obs))
    except hcommon.Failure as f:
        print(f"VIOLATION property={PROP} replay={path}")
        print(" ", f)
        return 1
    return 0
