"""C18 — Lost-segment bookkeeping refines an exact interval set.

Proof: coq/props/C18.v over coq/LostSeg.v.  Tie: differential run of the extracted model and
cfdppy.handler.dest.LostSegmentTracker on the same operation sequences (exhaustive small scope +
random), plus an independent set-of-bytes oracle that reads the property text directly.
"""
from __future__ import annotations

import itertools
import json
import random

from harness import common

PROP = "C18"


def impl_run(ops):
    from cfdppy.handler.dest import LostSegmentTracker
    t = LostSegmentTracker()
    out = []
    for op in ops:
        code = 0
        if op[0] == 0:
            t.add_lost_segment((op[1], op[2]))
        elif op[0] == 1:
            try:
                code = 2 if t.remove_lost_segment((op[1], op[2])) else 1
            except ValueError:
                code = 3
            except Exception as e:  # any other exception class is a difference by itself
                code = 9
        elif op[0] == 2:
            t.coalesce_lost_segments()
        elif op[0] == 3:
            t.reset()
        flat = [code]
        for k, v in t.lost_segments.items():
            flat += [k, v]
        out.append(flat)
    return out


def oracle(ops, obs):
    """Independent reading of C18 on the implementation's observations.  Returns (failure|None,
    n_ops_judged): judging stops at the first op that violates the property's preconditions."""
    S = set()
    ranges_prev = []
    judged = 0
    for i, (op, ob) in enumerate(zip(ops, obs)):
        code, flat = ob[0], ob[1:]
        ranges = list(zip(flat[0::2], flat[1::2]))
        den = set()
        for s, e in ranges:
            den |= set(range(s, e))
        if op[0] == 0:
            s, e = op[1], op[2]
            if not (s < e) or (set(range(s, e)) & S):
                return None, judged
            S |= set(range(s, e))
        elif op[0] == 1:
            s, e = op[1], op[2]
            if s > e:
                return None, judged
            R = set(range(s, e))
            inside = any(a <= s and e <= b for a, b in ranges_prev)
            straddle = any(a <= s < b and b < e for a, b in ranges_prev)
            if straddle:
                if code != 3:
                    return f"op {i}: straddling removal {(s, e)} not refused with ValueError (code {code})", judged
                if ranges != ranges_prev:
                    return f"op {i}: refused removal changed the tracker", judged
                judged += 1
                ranges_prev = ranges
                continue
            if not (inside or not (R & S)):
                return None, judged
            if code == 3 or code == 9:
                return f"op {i}: admissible removal {(s, e)} raised", judged
            changed = bool(R & S)
            S -= R
            if (code == 2) != changed:
                return f"op {i}: removal {(s, e)} reported {code == 2}, set changed = {changed}", judged
        elif op[0] == 2:
            pass
        elif op[0] == 3:
            S = set()
        if den != S:
            return f"op {i}: tracked ranges {ranges} denote {sorted(den)}, expected {sorted(S)}", judged
        if any(not (s < e) for s, e in ranges):
            return f"op {i}: empty or inverted range reported {ranges}", judged
        if any(ranges[k][1] > ranges[k + 1][0] for k in range(len(ranges) - 1)) or \
                [r[0] for r in ranges] != sorted(r[0] for r in ranges):
            return f"op {i}: ranges not ascending/disjoint {ranges}", judged
        if op[0] == 2 and any(ranges[k][1] == ranges[k + 1][0] for k in range(len(ranges) - 1)):
            return f"op {i}: adjacent ranges left after coalescing {ranges}", judged
        judged += 1
        ranges_prev = ranges
    return None, judged


def all_ops(n):
    ops = [[0, s, e] for s in range(n + 1) for e in range(n + 1)]
    ops += [[1, s, e] for s in range(n + 1) for e in range(n + 1)]
    ops += [[2], [3]]
    return ops


def gen_random(rng, count, depth, maxoff):
    cases = []
    for _ in range(count):
        ops = []
        S = set()
        for _ in range(rng.randint(1, depth)):
            r = rng.random()
            if r < 0.45:
                # mostly valid additions: pick a free gap
                if rng.random() < 0.85:
                    free = [x for x in range(maxoff) if x not in S]
                    if free:
                        s = rng.choice(free)
                        e = s + 1
                        while e < maxoff and e not in S and rng.random() < 0.6:
                            e += 1
                        ops.append([0, s, e]); S |= set(range(s, e)); continue
                s = rng.randint(0, maxoff); e = rng.randint(0, maxoff)
                ops.append([0, s, e]); S |= set(range(s, e))
            elif r < 0.85:
                if S and rng.random() < 0.8:
                    x = rng.choice(sorted(S))
                    s = x
                    while s - 1 in S and rng.random() < 0.5:
                        s -= 1
                    e = x + 1
                    while e in S and rng.random() < 0.5:
                        e += 1
                    if rng.random() < 0.15:
                        e += rng.randint(1, 3)   # straddle / beyond
                    ops.append([1, s, e]); S -= set(range(s, e))
                else:
                    s = rng.randint(0, maxoff); e = rng.randint(0, maxoff)
                    ops.append([1, s, e]); S -= set(range(s, e))
            elif r < 0.97:
                ops.append([2])
            else:
                ops.append([3]); S = set()
        cases.append(ops)
    return cases


def explore(cases, v, stats, label):
    model = common.run_model("lostseg", cases)
    for ops, mo in zip(cases, model):
        io = impl_run(ops)
        fail, judged = oracle(ops, io)
        stats["evaluations"] += 1
        stats["ops"] += len(ops)
        stats["judged_ops"] += judged
        key = tuple(tuple(o) for o in io)
        stats["distinct"].add(hash(key))
        if judged == len(ops) and len(ops) >= 2 and any(len(o) > 1 for o in io):
            stats["nontrivial"].add(hash((key, tuple(map(tuple, ops)))))
        for o in io:
            stats["codes"][o[0]] = stats["codes"].get(o[0], 0) + 1
        if fail:
            v.violation(f"oracle: {fail}", {"kind": "lostseg", "ops": ops, "impl_obs": io, "model_obs": mo,
                                             "stream": label})
            if len(v.violations) > 3:
                return False
            continue
        if io != mo:
            # agree at least on the prefix judged under the property's preconditions?
            n = min(judged + 1, len(ops))
            if io[:n] != mo[:n]:
                v.violation("correspondence: model LostSeg.v and LostSegmentTracker differ under the property's "
                            "preconditions (theorems of C18 no longer shown to apply to the code)",
                            {"kind": "lostseg", "ops": ops, "impl_obs": io, "model_obs": mo, "stream": label,
                             "theorem": "c18_run_refines_set / correspondence lostseg"}, has_input=False)
                if len(v.violations) > 3:
                    return False
            else:
                stats["internal_divergence"] += 1
    return True


def run(tier, seed):
    v = common.Verdict(PROP, tier, seed)
    common.proof_gate(v, PROP)
    rng = random.Random(seed)
    stats = {"evaluations": 0, "ops": 0, "judged_ops": 0, "distinct": set(), "nontrivial": set(), "codes": {},
             "internal_divergence": 0}
    # corpus first
    corpus = []
    cdir = common.CORPUS / PROP
    if cdir.exists():
        for f in sorted(cdir.glob("*.json")):
            corpus.append(json.loads(f.read_text())["ops"])
    streams = [("corpus", corpus)]
    if tier == "quick":
        streams.append(("exhaustive depth<=2 offsets 0..5", [list(c) for d in (1, 2) for c in itertools.product(all_ops(5), repeat=d)]))
        streams.append(("exhaustive depth 3 offsets 0..3", [list(c) for c in itertools.product(all_ops(3), repeat=3)]))
        streams.append(("random", gen_random(rng, 3000, 30, 24)))
    else:
        streams.append(("exhaustive depth<=2 offsets 0..6", [list(c) for d in (1, 2) for c in itertools.product(all_ops(6), repeat=d)]))
        streams.append(("exhaustive depth 3 offsets 0..4", [list(c) for c in itertools.product(all_ops(4), repeat=3)]))
        streams.append(("exhaustive depth 4 offsets 0..2", [list(c) for c in itertools.product(all_ops(2), repeat=4)]))
        streams.append(("random", gen_random(rng, 150000, 40, 64)))
    streams = [(l, list(common.share(c))) for l, c in streams]
    for label, cases in streams:
        if not explore(cases, v, stats, label):
            break
    # cross-check the extraction/driver path on a sample inside Coq
    sample = gen_random(random.Random(seed + 1), 25, 12, 10)
    try:
        inside = common.coq_eval("run_lostseg", sample)
        outside = common.run_model("lostseg", sample)
        if inside != outside:
            v.violation("extracted runner and in-Coq vm_compute evaluation of the model differ",
                        {"sample": sample, "coq": inside, "ocaml": outside}, has_input=False)
    except Exception as e:
        v.notes.append(f"in-Coq cross-check skipped: {e}")
    if getattr(v, "proof_error", None) and not v.violations:
        v.violation(v.proof_error, {"theorem": "props/C18.v", "error": v.proof_error}, has_input=False)
    v.coverage.update({
        "evaluations": stats["evaluations"],
        "distinct_nontrivial": len(stats["nontrivial"]),
        "rule": "operation sequences over {add,remove,coalesce,reset}; exhaustive small scope incl. precondition-violating "
                "ops + structured random (mostly valid); distinct = distinct (sequence, observation) pairs; non-trivial = "
                ">=2 ops, every op inside the property's preconditions, tracker non-empty at some point",
        "traces_validated_against_impl": stats["evaluations"],
        "ops_total": stats["ops"], "ops_judged_by_oracle": stats["judged_ops"],
        "return_code_distribution": {str(k): n for k, n in sorted(stats["codes"].items())},
        "internal_divergence_outside_preconditions": stats["internal_divergence"],
        "streams": [(l, len(c)) for l, c in streams],
        "samples": [streams[-1][1][0], streams[1][1][-1]] if streams[-1][1] else [],
        "exhaustive": False,
    })
    v.assumptions = list(common.ASSUMPTIONS) + ["python dict insertion-order semantics as modelled in LostSeg.v (validated by this run)"]
    return v.finish()


def replay(path):
    data = json.loads(open(path).read())
    ops = data["ops"]
    io = impl_run(ops)
    common.build()
    mo = common.run_model("lostseg", [ops])[0]
    fail, judged = oracle(ops, io)
    print(json.dumps({"ops": ops, "impl": io, "model": mo, "oracle": fail, "judged": judged}, indent=1))
    if fail:
        print(f"VIOLATION property={PROP} replay={path}")
        return 1
    return 0
