"""Generic run()/replay() for handler properties whose cases are single-handler traces."""
import json

from harness import hcommon, transfer


def run_generic(prop, tier, seed, make_cases, oracle, project, rule, theorem="", label="case", extra_gate=()):
    hc = hcommon.HandlerCheck(prop, tier, seed)
    hc.gate(extra_gate)
    hc.run_corpus(lambda kind: oracle)
    for case in hcommon.share(make_cases(tier, hc.rng)):
        case.run()
        for kind, ops, obs in case.sides:
            hc.add_trace(kind, ops, obs, label=label, oracle=oracle, describe=getattr(case, "describe", None))
        if len(hc.v.violations) > 3:
            break
    hc.correspondence(project=project, theorem=theorem)
    return hc.finish(rule)


def replay_generic(prop, path, oracle):
    d = json.loads(open(path).read())
    if "ops" not in d:
        print("replay file names a theorem/correspondence, not an input")
        return 0
    obs, _ = transfer.replay_ops(d["kind"], d["ops"])
    try:
        oracle(hcommon.Trace(d["kind"], d["ops"], obs))
    except hcommon.Failure as f:
        print(f"VIOLATION property={prop} replay={path}")
        print(" ", f)
        return 1
    return 0
