"""Source-handler properties C07, C08, C19 (and the sender half of C12/C04): case generators and
trace-level oracles reading the property text directly on implementation traces."""
from __future__ import annotations

import itertools

from harness import c09, campaign, codec, hcommon
from harness.hcommon import Failure, Trace
from harness.transfer import Cfg, World, start_transfer


# ------------------------------------------------------------------ helpers on traces
def dec_put(l):
    d = dict(dst=l[0], dstw=l[1], mode=None if l[2] < 0 else l[2], closure=None if l[3] < 0 else bool(l[3]))
    i = 5
    if l[4]:
        a, i = codec.take_path(l, i)
        b, i = codec.take_path(l, i)
        d["src"], d["dstp"] = tuple(a), tuple(b)
    else:
        d["src"] = d["dstp"] = None
    d["msgs"] = list(l[i + 2:i + 2 + l[i + 1]]) if l[i] else None
    return d


def files_of(tr: Trace, upto):
    """source-side file contents as set up by [7; ...] ops before step `upto`"""
    files = {}
    for st in tr.steps:
        if st.i >= upto:
            break
        if st.tag == 7:
            comps, i = codec.take_path(st.op, 2)
            if st.op[1] == 1:
                files[tuple(comps)] = bytes(st.op[i + 1:i + 1 + st.op[i]])
            elif st.op[1] == 2:
                files.pop(tuple(comps), None)
    return files


def oracle_eof_checksum(tr: Trace):
    """C09, last clause, on any source-handler trace: every EOF PDU the handler emits (nominal, after a cancel or a fault,
    re-sent on a Positive-ACK timer expiry; first or later transaction on the handler) carries the checksum of exactly
    the first `file size` bytes of the file its transaction sends, for the checksum type configured for the receiver."""
    from harness import c09
    puts = []          # accepted put requests in order: (step index, put dict, file bytes at that moment)
    seq_of = {}        # transaction sequence number -> index into puts
    tampered = set()   # put indexes whose source file the environment changed while the transaction was running
    n = 0
    for st in tr.steps:
        if st.tag == 8 and st.ob["ret"] == 1 and st.ob["exc"] == 0:
            put = dec_put(st.op[1:])
            puts.append((st.i, put, None if put["src"] is None else files_of(tr, st.i).get(put["src"])))
        elif st.tag == 7 and puts and st.prev is not None and st.prev["fields"]["state"] == 1:
            tampered.add(len(puts) - 1)
        for e in st.ob["events"]:
            if e[0] == 1 and puts and e[2] not in seq_of:
                seq_of[e[2]] = len(puts) - 1
        if st.tag == 2 and st.ob["ret"] == 1:
            g = codec.dec_got(st.ob["extra"])[0]
            if g["kind"] != codec.K_EOF or g["seq"] not in seq_of:
                continue
            k = seq_of[g["seq"]]
            _, put, data = puts[k]
            if k in tampered or data is None:
                continue
            remote = next((r for r in tr.cfg["remotes"] if r["id"] == put["dst"]), None)
            if remote is None or remote["cktype"] not in (0, 2, 3, 15) or g["fsize"] > len(data):
                continue
            n += 1
            want = c09.expected(remote["cktype"], data[:g["fsize"]])
            if g["cksum"] != want:
                raise Failure(f"C09 EOF PDU of transaction {g['seq']} (condition {g['cond']}, size {g['fsize']}) carries checksum "
                              f"{g['cksum'].hex()}; the checksum (type {remote['cktype']}) of the {g['fsize']} bytes sent is {want.hex()} (op {st.i})")
    return n


def hdr_len(p):
    return 4 + 2 * p["idw"] + p["seqw"]


def expected_tiles(data, a, b, seg):
    out = []
    off = a
    while off < b:
        n = min(seg, b - off)
        out.append((off, data[off:off + n]))
        off += n
    return out


def eff_seg(remote, hdrl, large):
    derived = remote["max_packet"] - hdrl - (8 if large else 4) - (2 if remote["crc"] else 0)
    return derived if remote["max_seg"] is None else min(remote["max_seg"], derived)


# ------------------------------------------------------------------ C07
class _SubTrace:
    """The part of a source trace that belongs to one accepted put request."""

    def __init__(self, tr, lo, hi):
        self.kind, self.cfg, self.ops, self.obs = tr.kind, tr.cfg, tr.ops, tr.obs
        self.all_steps = tr.steps
        self.steps = [st for st in tr.steps if lo <= st.i < hi]

    def emitted(self):
        out = []
        for st in self.steps:
            if st.tag == 2 and st.ob["ret"] == 1:
                g = codec.dec_got(st.ob["extra"])
                out.append((st.i, g[0], g[1]))
        return out


def oracle_c07(tr: Trace):
    """Applies to source traces made of accepted puts, empty state-machine calls and drains (one or more consecutive
    transactions on the same handler): every accepted put must produce the full conformant stream."""
    if any(st.tag in (0, 3, 4, 5) for st in tr.steps):
        return
    puts = [st for st in tr.steps if st.tag == 8 and st.ob["ret"] == 1]
    bounds = [st.i for st in puts] + [10 ** 9]
    for n, st in enumerate(puts):
        sub = _SubTrace(tr, bounds[n], bounds[n + 1])
        sub.steps_all_before = [x for x in tr.steps if x.i < bounds[n]]
        _oracle_c07_one(sub, st, complete_expected=n + 1 < len(puts))


def _oracle_c07_one(tr, put_step, complete_expected=False):
    puts = [put_step]
    put = dec_put(puts[0].op[1:])
    remote = next((r for r in tr.cfg["remotes"] if r["id"] == put["dst"]), None)
    if remote is None:
        return
    if any(st.ob["exc"] for st in tr.steps if st.tag in (1, 2)):
        e = next(st for st in tr.steps if st.tag in (1, 2) and st.ob["exc"])
        if e.ob["exc"] == 102:      # ValueError: the packet cannot hold a base PDU: refused at start (C19)
            return
        raise Failure(f"C07 nominal run raised exception code {e.ob['exc']} at op {e.i}")
    em = tr.emitted()
    if not em:
        if any(st.tag == 1 and st.i > puts[0].i for st in tr.steps) and any(st.tag == 2 and st.i > puts[0].i for st in tr.steps):
            raise Failure("C07 accepted put request emitted nothing")
        return
    mode = put["mode"] if put["mode"] is not None else remote["mode"]
    closure = put["closure"] if put["closure"] is not None else bool(remote["closure"])
    md = em[0][1]
    if md["kind"] != codec.K_MD:
        raise Failure(f"C07 first PDU is not Metadata but kind {md['kind']}")
    # header uniformity
    w = max(tr.cfg["local_idw"], put["dstw"])
    for i, p, plen in em:
        exp_dir = 0
        if (p["dir"], p["mode"], p["crc"], p["src"], p["dst"], p["idw"], p["seq"], p["seqw"]) != \
                (exp_dir, mode, remote["crc"], tr.cfg["local_id"], put["dst"], w, md["seq"], md["seqw"]):
            raise Failure(f"C07 header of PDU kind {p['kind']} at op {i} deviates: {p}")
        if not p.get("parse_ok", 1):
            raise Failure(f"C07 PDU kind {p['kind']} at op {i} does not serialise to a parsable PDU reading back the same")
    if put["src"] is None:
        if (md["src_name"], md["fsize"], md["cktype"], bool(md["closure"])) != (None, 0, 15, closure):
            raise Failure(f"C07 metadata-only Metadata PDU wrong: {md}")
        if len(em) != 1:
            raise Failure("C07 metadata-only request emitted more than the Metadata PDU")
        return
    class _All:
        steps = tr.all_steps
    data = files_of(_All, puts[0].i).get(put["src"])
    if data is None:
        return
    size = len(data)
    if (md["fsize"], md["src_name"], md["dst_name"], md["cktype"], bool(md["closure"])) != \
            (size, put["src"], put["dstp"], remote["cktype"], closure):
        raise Failure(f"C07 Metadata PDU fields wrong: {md} for size {size}")
    if md["msgs"] != (put["msgs"] or []):
        raise Failure("C07 Metadata PDU does not carry the request's messages to user")
    seg = eff_seg(remote, hdr_len(md), md["large"])
    if seg < 1:
        return      # outside the quantifier (effective segment length >= 1)
    fds = [(i, p, l) for i, p, l in em[1:] if p["kind"] == codec.K_FD]
    eofs = [(i, p, l) for i, p, l in em[1:] if p["kind"] == codec.K_EOF]
    others = [p for i, p, l in em[1:] if p["kind"] not in (codec.K_FD, codec.K_EOF)]
    if others:
        raise Failure(f"C07 unexpected PDU kinds in a nominal stream: {[p['kind'] for p in others]}")
    complete = len(eofs) > 0
    if complete_expected and not complete:
        raise Failure(f"C07 the transaction of the put at op {puts[0].i} never emitted its EOF although the handler went on to "
                      f"accept the next put request (stream: {[p['kind'] for _, p, _ in em]})")
    # completeness: Metadata, one tile per call, EOF: after that many empty calls (each fully drained) the EOF must be out
    ncalls = sum(1 for st in tr.steps if st.tag == 1 and st.i > puts[0].i)
    need = 2 + (size + seg - 1) // seg
    last = tr.steps[-1] if tr.steps else None
    if not complete and ncalls >= need + 1 and last is not None and last.ob["fields"].get("qlen", 0) == 0:
        raise Failure(f"C07 the stream of the put at op {puts[0].i} is incomplete: no EOF PDU after {ncalls} state-machine calls "
                      f"(Metadata + {(size + seg - 1) // seg} tiles + EOF need {need}); emitted kinds {[p['kind'] for _, p, _ in em]}")
    exp = expected_tiles(data, 0, size, seg)
    got = [(p["offset"], p["data"]) for _, p, _ in fds]
    if complete and got != exp:
        raise Failure(f"C07 File Data PDUs do not tile [0,{size}) exactly once in ascending order with segment length {seg}: "
                      f"offsets/lengths {[(o, len(d)) for o, d in got]}")
    if not complete and got != exp[:len(got)]:
        raise Failure(f"C07 File Data PDUs deviate from the tiling: {[(o, len(d)) for o, d in got]}")
    # at most one File Data PDU per state-machine call
    calls = {}
    cur = None
    for st in tr.steps:
        if st.tag == 1:
            cur = st.i
        elif st.tag == 2 and st.ob["ret"] == 1 and cur is not None:
            g = codec.dec_got(st.ob["extra"])[0]
            if g["kind"] == codec.K_FD:
                calls[cur] = calls.get(cur, 0) + 1
    if any(n > 1 for n in calls.values()):
        raise Failure("C07 more than one File Data PDU emitted by one state-machine call")
    for i, p, plen in fds:
        if plen > remote["max_packet"]:
            raise Failure(f"C07 File Data PDU of {plen} bytes exceeds max_packet_len {remote['max_packet']}")
    if complete:
        if len(eofs) != 1 or em[-1][1]["kind"] != codec.K_EOF:
            raise Failure("C07 stream does not end with exactly one EOF PDU")
        e = eofs[0][1]
        want = c09.expected(remote["cktype"], data) if remote["cktype"] in (0, 2, 3, 15) else None
        if e["cond"] != 0 or e["fsize"] != size or (want is not None and e["cksum"] != want):
            raise Failure(f"C07 EOF PDU wrong: cond {e['cond']} size {e['fsize']} checksum {e['cksum'].hex()} "
                          f"(file size {size}, expected checksum {want.hex() if want else None})")
        if eofs[0][2] > remote["max_packet"]:
            raise Failure(f"C07 [fixed finding F19 is back] EOF PDU of {eofs[0][2]} bytes exceeds max_packet_len {remote['max_packet']}")


def nominal_source_case(cfg: Cfg, data, ncalls=None, tag="c07"):
    """put + repeated (sm(None); drain) with no inbound PDU."""
    w = World(cfg, tag)
    try:
        start_transfer(w, data)
        n = ncalls if ncalls is not None else (3 + (len(data) if data else 0) // max(1, (cfg.max_seg or 1)) + 3)
        for _ in range(min(n, 80)):
            w.src.sm(None)
            while w.src.get() is not None:
                pass
            if w.src.h.state.value == 0:
                break
        return ("source", w.src.ops, w.src.obs)
    finally:
        w.close()


def reuse_source_case(cfgs_datas, tag="c07r"):
    """Several consecutive transactions on ONE source handler: request-level mode/closure vary per transaction; each
    earlier transaction is unacknowledged without closure so that it finishes by itself."""
    first = cfgs_datas[0][0]
    w = World(first, tag)
    try:
        for cfg, data in cfgs_datas:
            w.cfg.req_mode, w.cfg.req_closure, w.cfg.metadata_only, w.cfg.msgs = cfg.req_mode, cfg.req_closure, cfg.metadata_only, cfg.msgs
            start_transfer(w, data)
            for _ in range(40):
                w.src.sm(None)
                while w.src.get() is not None:
                    pass
                if w.src.h.state.value == 0 or w.src.h.step.value in (7, 8):
                    break
        return ("source", w.src.ops, w.src.obs)
    finally:
        w.close()


def c07_reuse_cases(tier, rng):
    import copy
    out = []
    for _ in range(60 if tier == "quick" else 4000):
        base = Cfg(mode=1, closure=False, max_seg=rng.choice([1, 2, 4, 7]), max_packet=64, cktype=rng.choice([0, 2, 3, 15]),
                   crc=rng.random() < 0.3)
        seq = []
        n = rng.choice([2, 2, 3])
        for k in range(n):
            c = copy.copy(base)
            last = k == n - 1
            c.req_mode = rng.choice([0, 1]) if last else 1
            c.req_closure = rng.choice([True, False]) if last else False
            c.metadata_only = rng.random() < 0.3
            c.msgs = [0] if c.metadata_only else None
            size = rng.choice([0, 0, 1, 5, 9])
            seq.append((c, None if c.metadata_only else bytes(rng.getrandbits(8) for _ in range(size))))
        out.append(seq)
    return out


def c07_cases(tier, rng):
    cases = []
    sizes = [0, 1, 2, 3, 4, 5, 7, 8, 9, 12, 13] if tier == "quick" else list(range(0, 26))
    for size in sizes:
        for seg in ([1, 2, 3, 4, 7, None] if tier == "quick" else [1, 2, 3, 4, 5, 7, 8, 64, None]):
            for mode, closure in ((0, False), (1, False), (1, True)):
                cfg = Cfg(mode=mode, closure=closure, max_seg=seg, max_packet=rng.choice([40, 64]) if seg else 10 + 4 + rng.choice([1, 2, 3, 5, 8]),
                          crc=rng.random() < 0.4, cktype=rng.choice([0, 2, 3, 15]), src_idw=rng.choice([1, 2, 4, 8]),
                          dst_idw=rng.choice([1, 2, 4, 8]), seqw=rng.choice([1, 2, 4]), seq_start=rng.choice([0, 3, 200]),
                          req_mode=rng.choice([None, None, 0, 1]), req_closure=rng.choice([None, None, True, False]),
                          msgs=rng.choice([None, None, [0], [1005, 0]]))
                if seg is None:
                    hdr = 4 + 2 * max(cfg.src_idw, cfg.dst_idw) + cfg.seqw
                    cfg.max_packet = hdr + 4 + (2 if cfg.crc else 0) + rng.choice([1, 2, 3, 6, 9])
                data = bytes(rng.getrandbits(8) for _ in range(size))
                cases.append((cfg, data))
    # metadata only, and packets too small for a base PDU (refused at start: C19)
    for mode in (0, 1):
        cases.append((Cfg(mode=mode, metadata_only=True, closure=rng.random() < 0.5), None))
    cases.append((Cfg(mode=1, max_seg=None, max_packet=13), b"abc"))
    return cases


# ------------------------------------------------------------------ C08
def oracle_eof_after_its_ack(tr: Trace):
    """After answering a NAK the sender resumes where it was: once the ACK of its EOF (no error) has been handed in and
    accepted, that EOF is never emitted again, however much time passes."""
    acked = False
    for st in tr.steps:
        if st.tag == 8 and st.ob["ret"] == 1:
            acked = False
        if st.tag in (3, 4):
            return
        if st.tag == 0 and st.ob["exc"] == 0 and st.pdu["kind"] == codec.K_ACK and st.pdu.get("acked") == 4 \
                and st.prev is not None and st.prev["fields"]["step"] == 7:
            acked = True
        if acked and st.tag == 2 and st.ob["ret"] == 1:
            g = codec.dec_got(st.ob["extra"])[0]
            if g["kind"] == codec.K_EOF and g["cond"] == 0:
                raise Failure(f"C08 the EOF PDU was emitted again after its ACK had been received: the source did not resume "
                              f"where it was after a retransmission (op {st.i})")


def oracle_c08(tr: Trace):
    oracle_eof_after_its_ack(tr)
    _oracle_c08_main(tr)


def _oracle_c08_main(tr: Trace):
    """For every serviced NAK: exactly the requested tilings (and Metadata for (0,0)), nothing else; invalid requests
    rejected without data outside [0, progress); afterwards the original stream is unchanged."""
    puts = [st for st in tr.steps if st.tag == 8 and st.ob["ret"] == 1]
    if len(puts) != 1:
        return
    put = dec_put(puts[0].op[1:])
    if put["src"] is None:
        return
    remote = next((r for r in tr.cfg["remotes"] if r["id"] == put["dst"]), None)
    data = files_of(tr, puts[0].i).get(put["src"])
    if remote is None or data is None:
        return
    if any(st.tag in (3, 4, 7) and st.i > puts[0].i for st in tr.steps):
        return          # cancels/resets/file deletion: other properties
    size = len(data)
    seg = None
    original = []       # File Data PDUs that are not retransmissions
    eof_list = []
    pending = None      # expectation for the drain after a NAK op
    md0 = None
    steps = tr.steps
    k = 0
    while k < len(steps):
        st = steps[k]
        if st.tag in (0, 1):
            # PDUs retrieved until the next call
            got = []
            j = k + 1
            while j < len(steps) and steps[j].tag not in (0, 1, 8):
                if steps[j].tag == 2 and steps[j].ob["ret"] == 1:
                    got.append(codec.dec_got(steps[j].ob["extra"])[0])
                j += 1
            if md0 is None:
                md0 = next((g for g in got if g["kind"] == codec.K_MD), None)
                if md0 is not None:
                    seg = eff_seg(remote, hdr_len(md0), md0["large"])
            is_nak = st.pdu is not None and st.pdu["kind"] == codec.K_NAK
            progress_before = st.prev["fields"]["progress"] if st.prev else 0
            if is_nak and st.ob["exc"] == 0 and st.ob["fields"]["step"] == 5 and seg and seg >= 1:
                exp = []
                for a, b in st.pdu["reqs"]:
                    if (a, b) == (0, 0):
                        exp.append(("md",))
                    else:
                        exp += [("fd", o, d) for o, d in expected_tiles(data, a, b, seg)]
                gotn = [("md",) if g["kind"] == codec.K_MD else ("fd", g["offset"], g["data"]) if g["kind"] == codec.K_FD
                        else ("other", g["kind"]) for g in got]
                lead = []
                while gotn and gotn[0][0] == "other" and len(gotn) > len(exp):
                    lead.append(gotn.pop(0))
                if gotn != exp:
                    raise Failure(f"C08 retransmission for NAK {st.pdu['reqs']} at op {st.i} (segment length {seg}): emitted "
                                  f"{[(x[0],) + tuple(x[1:2]) + ((len(x[2]),) if len(x) > 2 else ()) for x in gotn]}, expected "
                                  f"{[(x[0],) + tuple(x[1:2]) + ((len(x[2]),) if len(x) > 2 else ()) for x in exp]}")
                for g in got:
                    if g["kind"] == codec.K_MD and md0 is not None:
                        if {x: g[x] for x in ("fsize", "src_name", "dst_name", "cktype", "closure", "msgs")} != \
                                {x: md0[x] for x in ("fsize", "src_name", "dst_name", "cktype", "closure", "msgs")}:
                            raise Failure("C08 retransmitted Metadata PDU differs from the original")
                    if g["kind"] == codec.K_EOF:
                        eof_list.append(g)
            else:
                if is_nak and st.ob["exc"] == 10:
                    for g in got:
                        if g["kind"] == codec.K_FD and (g["offset"] + len(g["data"]) > progress_before or len(g["data"]) == 0):
                            raise Failure(f"C08 rejected NAK {st.pdu['reqs']} still queued File Data outside the data sent so far "
                                          f"(offset {g['offset']}, length {len(g['data'])}, progress {progress_before})")
                    # data queued for the valid requests that preceded the invalid one is a retransmission
                else:
                    for g in got:
                        if g["kind"] == codec.K_FD:
                            original.append((g["offset"], g["data"]))
                        elif g["kind"] == codec.K_EOF:
                            eof_list.append(g)
                if is_nak and st.ob["exc"] == 0 and st.ob["fields"]["step"] != 5 and st.prev is not None:
                    inv = [(a, b) for a, b in st.pdu["reqs"] if (a, b) != (0, 0) and (b < a or b > progress_before)]
                    # a NAK that reaches the retransmission code with an invalid request must raise
            if is_nak and st.ob["exc"] == 0 and st.ob["fields"]["step"] == 5:
                inv = [(a, b) for a, b in st.pdu["reqs"] if (a, b) != (0, 0) and (b < a or a > progress_before or b > progress_before)]
                if inv:
                    raise Failure(f"C08 NAK with invalid request(s) {inv} (progress {progress_before}) was served instead of rejected")
            k = j
            continue
        k += 1
    advanced = any(st.tag == 5 for st in tr.steps)
    if not advanced and sum(1 for e in eof_list if e["cond"] == 0) > 1:
        raise Failure(f"C08 the EOF PDU was emitted {sum(1 for e in eof_list if e['cond'] == 0)} times without any timer expiry: "
                      f"the source did not resume where it was after a retransmission")
    if seg and seg >= 1:
        exp = expected_tiles(data, 0, size, seg)
        if original != exp[:len(original)]:
            raise Failure(f"C08 original File Data stream disturbed by retransmissions: {[(o, len(d)) for o, d in original]}")
        for e in eof_list:
            if e["cond"] == 0 and (e["fsize"] != size or (remote["cktype"] in (0, 2, 3, 15) and e["cksum"] != c09.expected(remote["cktype"], data))):
                raise Failure("C08 EOF changed after retransmissions")


def multi_nak_source_case(cfg: Cfg, data, schedule, ack_eof_after=None, tag="c08m"):
    """schedule = [(empty calls before, requests)] - NAKs arriving in different steps of the sender; optionally the
    ACK(EOF) is delivered after the given number of NAKs so that WAITING_FOR_FINISHED is reached too."""
    w = World(cfg, tag)
    try:
        start_transfer(w, data)
        s = w.src

        def pump():
            s.sm(None)
            while s.get() is not None:
                pass

        def inject(kind, body):
            conf = s.h.pdu_conf
            hdr = [1, int(conf.trans_mode), int(bool(conf.crc_flag)), 0, conf.source_entity_id.value,
                   conf.dest_entity_id.value, max(conf.source_entity_id.byte_len, 1), conf.transaction_seq_num.value,
                   max(conf.transaction_seq_num.byte_len, 1)]
            try:
                pdu = codec.reparse(codec.build_pdu([kind] + hdr + body, w.pm))
            except Exception:  # noqa: BLE001
                return
            s.sm(pdu)
            while s.get() is not None:
                pass
        for i, (k, reqs) in enumerate(schedule):
            for _ in range(k):
                if s.h.state.value == 0:
                    break
                pump()
            if s.h.state.value == 0:
                break
            if ack_eof_after is not None and i == ack_eof_after and s.h.step.value == 7:
                inject(codec.K_ACK, [4, 0, 1])
            inject(codec.K_NAK, [0, len(data), len(reqs)] + [x for r in reqs for x in r])
            pump()
        for _ in range(len(data) + 4):
            if s.h.state.value == 0:
                break
            pump()
        # the receiver stays quiet for a few Positive-ACK intervals: a sender whose EOF was acknowledged just waits
        for _ in range(3):
            if s.h.state.value == 0:
                break
            w.advance(cfg.ack_ms)
            pump()
        return ("source", s.ops, s.obs)
    finally:
        w.close()


def nak_source_case(cfg: Cfg, data, k_calls, reqs_list, tag="c08"):
    """k_calls empty calls, then one NAK per entry of reqs_list (each followed by drain + one empty call), then run on."""
    w = World(cfg, tag)
    try:
        start_transfer(w, data)
        s = w.src

        def pump():
            s.sm(None)
            while s.get() is not None:
                pass
        for _ in range(k_calls):
            pump()
        for reqs in reqs_list:
            if s.h.state.value == 0:
                break
            conf = s.h.pdu_conf
            hdr = [1, int(conf.trans_mode), int(bool(conf.crc_flag)), 0, conf.source_entity_id.value,
                   conf.dest_entity_id.value, max(conf.source_entity_id.byte_len, 1), conf.transaction_seq_num.value,
                   max(conf.transaction_seq_num.byte_len, 1)]
            ints = [codec.K_NAK] + hdr + [0, len(data), len(reqs)] + [x for r in reqs for x in r]
            try:
                pdu = codec.reparse(codec.build_pdu(ints, w.pm))
            except Exception:  # noqa: BLE001
                continue
            s.sm(pdu)
            while s.get() is not None:
                pass
            pump()
        for _ in range(len(data) + 4):
            if s.h.state.value == 0:
                break
            pump()
        return ("source", s.ops, s.obs)
    finally:
        w.close()


def c08_cases(tier, rng):
    cases = []
    segs = [4] if tier == "quick" else [2, 4]
    for seg in segs:
        for size in (0, 3, 9):
            data = bytes((11 * i + 5) % 256 for i in range(size))
            rng_pairs = [(a, b) for a in range(0, size + 3) for b in range(0, size + 3)]
            if tier == "quick" and len(rng_pairs) > 60:
                rng_pairs = rng.sample(rng_pairs, 60) + [(0, 0), (0, size), (size, size), (0, size + 1), (2, 1)]
            ncalls_max = 2 + (size + seg - 1) // seg + 2
            for k in range(0, ncalls_max + 1):
                for (a, b) in rng_pairs:
                    cases.append((Cfg(mode=0, max_seg=seg, ack_limit=5, closure=False), data, k, [[(a, b)]]))
            # double requests
            for _ in range(30 if tier == "quick" else 1200):
                k = rng.randint(0, ncalls_max)
                rq = [rng.choice(rng_pairs), rng.choice(rng_pairs)]
                cases.append((Cfg(mode=0, max_seg=seg, ack_limit=5), data, k, [rq]))
    for _ in range(150 if tier == "quick" else 10000):
        size = rng.choice([1, 4, 5, 8, 13])
        data = bytes(rng.getrandbits(8) for _ in range(size))
        seg = rng.choice([1, 2, 3, 4, 7])
        nn = rng.randint(1, 3)
        reqs_list = []
        for _ in range(nn):
            rq = []
            for _ in range(rng.randint(1, 3)):
                a = rng.randint(0, size + 1); b = rng.randint(0, size + 2)
                if rng.random() < 0.6:
                    a, b = min(a, b), max(a, b)
                rq.append((a, b))
            reqs_list.append(rq)
        cfg = campaign.rand_cfg(rng, mode=0, req_mode=None, max_seg=seg, max_packet=64, ack_limit=5)
        cases.append((cfg, data, rng.randint(0, size + 3), reqs_list))
    # the segment length is the one DERIVED from max_packet_len (the configured maximum is larger or absent): requests
    # spanning several segments must be re-sent in pieces of the effective length
    for _ in range(40 if tier == "quick" else 3000):
        size = rng.choice([9, 13, 20])
        data = bytes(rng.getrandbits(8) for _ in range(size))
        c0 = Cfg(mode=0, ack_limit=5, src_idw=rng.choice([1, 2]), dst_idw=rng.choice([1, 2]), seqw=rng.choice([1, 2]), crc=rng.random() < 0.3)
        hdr = 4 + 2 * max(c0.src_idw, c0.dst_idw) + c0.seqw
        derived = rng.choice([6, 7, 8])
        c0.max_packet = hdr + 4 + (2 if c0.crc else 0) + derived
        c0.max_seg = rng.choice([None, 64, derived + 5])
        a = rng.randint(0, size - 1)
        b = rng.randint(a + 1, size)
        cases.append((c0, data, rng.randint(0, size // derived + 4), [[(a, b)], [(0, size)]][:rng.choice([1, 2])]))
    # NAKs arriving in different steps of one transfer (sending file data, awaiting the EOF ACK, awaiting Finished)
    for _ in range(120 if tier == "quick" else 10000):
        size = rng.choice([4, 5, 8, 9, 13])
        data = bytes(rng.getrandbits(8) for _ in range(size))
        seg = rng.choice([2, 3, 4])
        nseg = (size + seg - 1) // seg
        sched = []
        for _ in range(rng.randint(2, 4)):
            a = rng.randint(0, size - 1); b = rng.randint(a + 1, size)
            sched.append((rng.choice([0, 1, 2, nseg, nseg + 1, nseg + 2]), [(a, b)] if rng.random() < 0.8 else [(0, 0)]))
        cfg = campaign.rand_cfg(rng, mode=0, req_mode=None, max_seg=seg, max_packet=64, ack_limit=5)
        cases.append(("multi", cfg, data, sched, rng.choice([None, 1, 2])))
    return cases


# ------------------------------------------------------------------ C19
def oracle_c19(tr: Trace):
    seq_expected = tr.cfg["rest"][0]
    bits = tr.cfg["rest"][1]
    last_put = None
    after_eof = None
    clock_moved = False
    cur_seq = None      # sequence number of the transaction started for the last accepted put request
    for st in tr.steps:
        f = st.ob["fields"]
        if st.tag == 8:
            put = dec_put(st.op[1:])
            busy = st.prev is not None and st.prev["fields"]["state"] == 1
            if busy:
                if st.ob["ret"] != 0 or st.ob["exc"] != 0:
                    raise Failure(f"C19 put request on a busy handler did not return False (ret {st.ob['ret']}, exc {st.ob['exc']})")
                if {k: v for k, v in st.prev["fields"].items() if k not in ("exc", "ret")} != \
                        {k: v for k, v in f.items() if k not in ("exc", "ret")} or st.ob["events"]:
                    raise Failure("C19 refused put request changed the running transaction's state")
                continue
            files = files_of(tr, st.i)
            remote = next((r for r in tr.cfg["remotes"] if r["id"] == put["dst"]), None)
            if put["src"] is not None and put["src"] not in files:
                if st.ob["exc"] != 12 or f["state"] != 0:
                    raise Failure(f"C19 put naming a missing source file: exc {st.ob['exc']}, state {f['state']}")
                continue
            if remote is None:
                if st.ob["exc"] != 5 or f["state"] != 0:
                    raise Failure(f"C19 put naming an unknown destination: exc {st.ob['exc']}, state {f['state']}")
                continue
            if st.ob["ret"] != 1 or st.ob["exc"] != 0 or f["state"] != 1:
                raise Failure(f"C19 valid put on an idle handler not accepted (ret {st.ob['ret']}, exc {st.ob['exc']})")
            last_put = (st.i, put, remote)
            cur_seq = None
            clock_moved = False     # a timer may have expired between the EOF's generation and the judged call
        for e in st.ob["events"]:
            if e[0] == 1:       # Transaction.indication: the next provider value
                cur_seq = e[2]
                if e[2] != seq_expected:
                    raise Failure(f"C19 transaction obtained sequence number {e[2]}, next provider value is {seq_expected}")
                seq_expected += 1
                if last_put is not None:
                    _, put, remote = last_put
                    hdrl = 4 + 2 * max(tr.cfg["local_idw"], put["dstw"]) + bits // 8
                    files = files_of(tr, st.i)
                    size = len(files.get(put["src"], b"")) if put["src"] else 0
                    seg = eff_seg(remote, hdrl, size > 2 ** 32 - 1)
                    if f["segment_len"] != seg:
                        raise Failure(f"C19 segment length {f['segment_len']}, expected min(configured, packet allows) = {seg}")
        if st.tag == 2 and st.ob["ret"] == 1 and last_put is not None:
            g = codec.dec_got(st.ob["extra"])[0]
            _, put, remote = last_put
            mode = put["mode"] if put["mode"] is not None else remote["mode"]
            closure = put["closure"] if put["closure"] is not None else bool(remote["closure"])
            if g["mode"] != mode:
                raise Failure(f"C19 PDU carries mode {g['mode']}, resolved mode is {mode}")
            if g["kind"] == codec.K_MD and bool(g["closure"]) != closure:
                raise Failure(f"C19 Metadata closure flag {g['closure']}, resolved closure is {closure}")
            # the resolved closure also governs the sender itself: after the EOF (no error) of an unacknowledged transfer
            # it waits for the Finished PDU exactly when closure was requested
            if g["kind"] == codec.K_EOF and g["cond"] == 0 and mode == 1 and f.get("qlen", 0) == 0 and g["seq"] == cur_seq \
                    and not clock_moved:
                after_eof = (closure, st.i)
                continue
        if st.tag in (3, 4, 5, 7) or (st.tag == 0 and st.pdu["kind"] == codec.K_FIN):
            clock_moved = True      # ... or the transaction was cancelled / reset / answered / lost its file: not the plain path
        if after_eof is not None:
            if st.tag == 2 and st.ob["ret"] == 0:
                pass                    # the drain loop's last, empty retrieval
            elif st.tag != 1 or st.ob["exc"] != 0:
                after_eof = None        # anything but a plain call (PDU, cancel, reset, clock, put): not judged
            else:
                if (f["state"] == 1) != after_eof[0]:
                    raise Failure(f"C19 unacknowledged sender is {'busy' if f['state'] == 1 else 'idle'} after its EOF although the "
                                  f"resolved closure is {after_eof[0]} (EOF retrieved at op {after_eof[1]}, op {st.i})")
                after_eof = None


def c19_put_matrix_cases(rng):
    """All 3x3 request/MIB combinations of mode and closure on a fresh handler."""
    cases = []
    for rm in (None, 0, 1):
        for rc in (None, True, False):
            for mm in (0, 1):
                for mc in (True, False):
                    cases.append((Cfg(mode=mm, closure=mc, req_mode=rm, req_closure=rc, max_seg=rng.choice([None, 1, 3, 64]),
                                      max_packet=rng.choice([24, 40, 64]), src_idw=rng.choice([1, 2]), dst_idw=rng.choice([2, 4]),
                                      seq_start=rng.randint(0, 5)), bytes(range(rng.choice([0, 5])))))
    return cases


def c19_seq_edge_cases(rng):
    """Consecutive transactions of one entity whose provider values run up to (and past) the largest value of the
    sequence-number field: every value that fits must be carried unchanged, also the all-ones one."""
    import copy
    out = []
    for seqw in (1, 2, 4):
        top = 2 ** (8 * seqw)
        for start in (top - 4, top - 3, top - 2, top - 1, top // 2 - 1, rng.randint(0, top - 2)):
            base = Cfg(mode=1, closure=False, max_seg=rng.choice([2, 4]), max_packet=64, seqw=seqw, seq_start=start,
                       src_idw=rng.choice([1, 2]), dst_idw=rng.choice([1, 2, 4]))
            seq = []
            for _ in range(4):
                c = copy.copy(base)
                c.req_mode, c.req_closure = 1, False
                seq.append((c, bytes(rng.getrandbits(8) for _ in range(rng.choice([0, 3])))))
            out.append(seq)
    return out


def metadata_resend_case(cfg: Cfg, data, opts, nak_after, tag="c08o"):
    """Acknowledged sender whose put request carries every kind of Metadata option (filestore requests, fault handler
    overrides, flow label, messages to user - the options the model does not interpret): NAKs asking for the Metadata
    (0,0) arrive after [nak_after] calls each; returns the packed bytes of every Metadata PDU the sender emitted."""
    from spacepackets.cfdp import ConditionCode, FaultHandlerCode
    from spacepackets.cfdp.tlv import (FaultHandlerOverrideTlv, FileStoreRequestTlv, FilestoreActionCode, FlowLabelTlv)
    from harness.transfer import PutRequest, TransmissionMode, UnsignedByteField
    w = World(cfg, tag)
    try:
        c = w.cfg
        w.src.fs_op([7, 1] + codec.enc_path(c.src_path) + [len(data)] + list(data))
        kw = {}
        if "fs" in opts:
            kw["fs_requests"] = [FileStoreRequestTlv(FilestoreActionCode.CREATE_FILE_SNM, first_file_name="/tmp/x"),
                                 FileStoreRequestTlv(FilestoreActionCode.DELETE_FILE_SNN, first_file_name="/tmp/y")][:opts["fs"]]
        if "fh" in opts:
            kw["fault_handler_overrides"] = [FaultHandlerOverrideTlv(ConditionCode.FILE_SIZE_ERROR, FaultHandlerCode.IGNORE_ERROR)]
        if "flow" in opts:
            kw["flow_label_tlv"] = FlowLabelTlv(bytes([1, 2, 3]))
        if "msgs" in opts:
            kw["msgs_to_user"] = [codec.msg_from_code(m) for m in opts["msgs"]]
        req = PutRequest(UnsignedByteField(c.dst_id, c.dst_idw), w.pm.to_path(c.src_path), w.pm.to_path(c.dst_path),
                         TransmissionMode(0), None, **kw)
        s = w.src
        if not s.h.put_request(req):
            return None
        mds = []

        def drain():
            while True:
                hd = s.h.get_next_packet()
                if hd is None:
                    return
                if codec.enc_pdu(hd.pdu, w.pm)[0] == codec.K_MD:
                    mds.append(bytes(hd.pdu.pack()))
        calls = 0
        pending = sorted(nak_after)
        for _ in range(60):
            s.h.state_machine(None)
            drain()
            calls += 1
            while pending and pending[0] <= calls:
                pending.pop(0)
                seq = s.h.transaction_seq_num.value
                hh = campaign._hdr(c, 1, seq)
                try:
                    s.h.state_machine(codec.reparse(codec.build_pdu(campaign.pdu_ints(codec.K_NAK, hh, [0, len(data), 1, 0, 0]), w.pm)))
                except Exception:  # noqa: BLE001  refused in that step: other properties
                    pass
                drain()
            if s.h.state.value == 0 or (not pending and calls > max(nak_after, default=0) + 3):
                break
        return mds
    finally:
        w.close()


def cancel_after_failed_read_case(cfg: Cfg, data, k, tag="c12r"):
    """Sender: k calls, then the source file is missing for ONE call (the read of the next segment fails, nothing is
    emitted), is put back unchanged, and the user cancels: the EOF (cancel) states exactly the bytes that were SENT."""
    w = World(cfg, tag)
    try:
        start_transfer(w, data)
        s = w.src

        def drain():
            while s.get() is not None:
                pass
        for _ in range(k):
            s.sm(None)
            drain()
        s.fs_op([7, 2] + codec.enc_path(cfg.src_path))
        s.sm(None)
        drain()
        s.fs_op([7, 1] + codec.enc_path(cfg.src_path) + [len(data)] + list(data))
        t = s.h.transaction_id
        if t is not None:
            s.cancel(t.source_id.value, t.seq_num.value)
        drain()
        for _ in range(3):
            s.sm(None)
            drain()
        return ("source", s.ops, s.obs)
    finally:
        w.close()


def cancel_around_nak_case(cfg: Cfg, data, k_calls, reqs, m_after, drain_before_cancel=True, tag="c12n"):
    """Acknowledged sender: k empty calls, a NAK with the requests [reqs], the answer retrieved, m further empty calls,
    then the user's cancel request (injected between two state-machine calls, also right after the retransmitted PDUs were
    retrieved and before the call that resumes the stream), then run on with a silent peer."""
    w = World(cfg, tag)
    try:
        start_transfer(w, data)
        s = w.src

        def drain():
            while s.get() is not None:
                pass

        def pump():
            s.sm(None)
            drain()
        for _ in range(k_calls):
            pump()
        if s.h.state.value == 1:
            conf = s.h.pdu_conf
            hdr = [1, int(conf.trans_mode), int(bool(conf.crc_flag)), 0, conf.source_entity_id.value,
                   conf.dest_entity_id.value, max(conf.source_entity_id.byte_len, 1), conf.transaction_seq_num.value,
                   max(conf.transaction_seq_num.byte_len, 1)]
            ints = [codec.K_NAK] + hdr + [0, len(data), len(reqs)] + [x for r in reqs for x in r]
            try:
                s.sm(codec.reparse(codec.build_pdu(ints, w.pm)))
                if drain_before_cancel:
                    drain()
            except Exception:  # noqa: BLE001
                pass
        for _ in range(m_after):
            pump()
        t = s.h.transaction_id
        if t is not None:
            s.cancel(t.source_id.value, t.seq_num.value)
            drain()
        for _ in range(len(data) + 6):
            if s.h.state.value == 0:
                break
            pump()
            w.advance(cfg.ack_ms)
        return ("source", s.ops, s.obs)
    finally:
        w.close()


def c12_cancel_nak_cases(tier, rng):
    """C12's quantifier at the sender: cancel requests between any two calls, in particular around a retransmission."""
    quick = tier == "quick"
    sizes = [9] if quick else [5, 9, 13]
    for size in sizes:
        data = bytes((11 * i + 5) % 256 for i in range(size))
        seg = 2 if quick else rng.choice([2, 4])
        ntiles = (size + seg - 1) // seg
        for k in range(2, ntiles + 3):                 # calls made before the NAK (1 = Metadata, then one tile per call)
            sent = max(0, min(size, (k - 1) * seg))
            if sent <= 0:
                continue
            reqs_opts = [[(0, min(seg, sent))], [(0, sent)]]
            for reqs in (reqs_opts[:1] if quick else reqs_opts):
                for m in ((0, 1) if quick else (0, 1, 2)):
                    cfg = Cfg(mode=0, max_seg=seg, ack_limit=2, nak_limit=2, cktype=rng.choice([2, 3, 15]), closure=rng.random() < 0.5)
                    yield ("nakcancel", cfg, data, k, reqs, m)
