"""C07 — The source emits a conformant, complete and size-bounded PDU stream."""
from harness import campaign, hcommon, srcprops

PROP = "C07"


def run(tier, seed):
    hc = hcommon.HandlerCheck(PROP, tier, seed)
    hc.gate()
    hc.run_corpus(lambda kind: srcprops.oracle_c07)
    for cfg, data in hcommon.share(srcprops.c07_cases(tier, hc.rng)):
        kind, ops, obs = srcprops.nominal_source_case(cfg, data)
        hc.add_trace(kind, ops, obs, label="nominal", oracle=srcprops.oracle_c07)
        hc.count(("size", None if data is None else min(len(data), 16)))
        hc.count(("seg", cfg.max_seg))
        if len(hc.v.violations) > 3:
            break
    for seq in hcommon.share(srcprops.c07_reuse_cases(tier, hc.rng)):
        kind, ops, obs = srcprops.reuse_source_case(seq)
        hc.add_trace(kind, ops, obs, label="consecutive transactions on one handler", oracle=srcprops.oracle_c07)
        hc.count(("reuse", len(seq)))
        if len(hc.v.violations) > 3:
            break
    hc.correspondence(project=hcommon.proj_pdus_exc, theorem="c07_src_stream (correspondence source)")
    return hc.finish("accepted put requests on a fresh source handler driven by empty calls + full drain, no inbound PDU: "
                     "sizes x segment lengths (None = derived) x modes x closure x CRC x id/seq widths x checksum types; "
                     "distinct = (config class, set of (step, op, exception) visited)")


def replay(path):
    return hcommon_replay(path)


def hcommon_replay(path):
    import json
    from harness import transfer
    d = json.loads(open(path).read())
    obs, _ = transfer.replay_ops(d["kind"], d["ops"])
    try:
        srcprops.oracle_c07(hcommon.Trace(d["kind"], d["ops"], obs))
    except hcommon.Failure as f:
        print(f"VIOLATION property={PROP} replay={path}")
        print(" ", f)
        return 1
    return 0
