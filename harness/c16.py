"""C16 — All file access goes through the user-supplied virtual filestore.   (partial: runtime half by the tie)"""
from harness import hcommon, sysprops

PROP = "C16"


def run(tier, seed):
    hc = hcommon.HandlerCheck(PROP, tier, seed)
    hc.gate()
    for cfg, data, faults, extra_sm in hcommon.share(sysprops.c16_cases(tier, hc.rng)):
        out = sysprops.run_c16_case(cfg, data, faults, extra_sm)
        nat, ntrace, _ = out["native"]
        for vfs in ("mem", "decoy"):
            c, tr, hits = out[vfs]
            for kind, ops, obs in c.sides:
                hc.add_trace(kind, ops, obs, label=f"transfer over {vfs} filestore", describe=c.describe)
            if hits:
                hc.world_violation(f"C16 handler code touched the host file system behind the virtual filestore: {hits[:3]}",
                                   c.describe(), c.sides)
            d = sysprops._first_diff(ntrace, tr)
            if d is not None:
                hc.world_violation(f"C16 transfer over the in-memory filestore ({vfs}) behaves differently from the same transfer "
                                   f"on the native filestore: {d}", c.describe(), c.sides)
            if vfs == "mem" and c.host_tree:
                hc.world_violation(f"C16 host file system touched during an in-memory transfer: {c.host_tree[:3]}", c.describe(), c.sides)
            if vfs == "decoy":
                bad = [x for x in c.host_tree if ":" in x and not x.endswith(":d") and "4445434f592d" not in x]
                if bad:
                    hc.world_violation(f"C16 decoy host files modified/created during an in-memory transfer: {bad[:3]}", c.describe(), c.sides)
        hc.judged += 1
        hc.count(("mode", nat.describe()["mode"], "faults", len(faults)))
        if len(hc.v.violations) > 3:
            break
    hc.correspondence(project=hcommon.proj_all_external, theorem="props/C16.v (correspondence: in-memory runs vs model)")
    return hc.finish("transfers of C02/C03 (all modes, sizes, <=2 link faults incl. retransmission) executed three ways: native "
                     "filestore, in-memory VirtualFilestore whose paths do not exist on the host, in-memory filestore with decoy "
                     "files of other content at exactly those host paths; traces must agree, host access from cfdppy/handler frames "
                     "(open/stat/remove/rename/mkdir/...) is recorded, the host tree is compared; distinct = (config class, visited set)")


def replay(path):
    import json
    d = json.loads(open(path).read())
    print(json.dumps(d.get("case")))
    return 0
