"""Replay recorded handler traces (transfer.Side.ops / .obs) on the extracted Coq model and compare."""
from __future__ import annotations

from harness import codec, common


def field_names(kind):
    return ["exc", "ret"] + (codec.DEST_FIELDS if kind == "dest" else codec.SOURCE_FIELDS)


def split_obs(kind, ob):
    """-> dict(exc, ret, fields{name:value}, tracker, events[list of tuples], extra[list])"""
    if not ob:
        return {"exc": 0, "ret": 0, "fields": {}, "tracker": [], "events": [], "extra": []}
    names = field_names(kind)
    d = {"exc": ob[0], "ret": ob[1]}
    vals = ob[:len(names)]
    d["fields"] = dict(zip(names, vals))
    i = len(names)
    d["tracker"] = []
    if kind == "dest":
        n = ob[i]; i += 1
        d["tracker"] = [(ob[i + 2 * k], ob[i + 2 * k + 1]) for k in range(n)]
        i += 2 * n
    ne = ob[i]; i += 1
    evs = []
    for _ in range(ne):
        ln = ob[i]
        evs.append(tuple(ob[i + 1:i + 1 + ln]))
        i += 1 + ln
    d["events"] = evs
    d["extra"] = ob[i:]
    return d


def describe_diff(kind, op, a, b):
    """a = impl obs, b = model obs"""
    if a == b:
        return None
    try:
        da, db = split_obs(kind, a), split_obs(kind, b)
    except Exception:  # noqa: BLE001
        return {"op": op[:12], "impl_raw": a[:60], "model_raw": b[:60]}
    out = {"op": op[:14]}
    for k in da["fields"]:
        if da["fields"].get(k) != db["fields"].get(k):
            out.setdefault("fields", {})[k] = (da["fields"].get(k), db["fields"].get(k))
    for k in ("tracker", "events", "extra"):
        if da[k] != db[k]:
            out[k] = (da[k][:8] if isinstance(da[k], list) else da[k], db[k][:8] if isinstance(db[k], list) else db[k])
    return out


# observables that define the external behaviour (everything a property's theorem can speak about)
INTERNAL_ONLY = {"num_ready", "check_timer_start", "proc_timer_start", "ack_timer_start", "last_start", "last_end",
                 "step_before_retx", "has_put_req", "has_remote_cfg", "check_timer_ms", "proc_timer_ms", "ack_timer_ms",
                 "check_timer_on", "proc_timer_on", "ack_timer_on"}


def external_equal(kind, a, b):
    if a == b:
        return True
    try:
        da, db = split_obs(kind, a), split_obs(kind, b)
    except Exception:  # noqa: BLE001
        return False
    if da["exc"] != db["exc"] or da["ret"] != db["ret"] or da["events"] != db["events"] or da["extra"] != db["extra"]:
        return False
    for k, v in da["fields"].items():
        if k in INTERNAL_ONLY:
            continue
        if db["fields"].get(k) != v:
            return False
    return da["tracker"] == db["tracker"]


def compare_sides(sides, shards=None):
    """sides: list of (kind, ops, obs).  Returns list of (index, first differing op index, diff, external?)."""
    out = []
    by_kind = {}
    for i, (kind, ops, obs) in enumerate(sides):
        by_kind.setdefault(kind, []).append(i)
    for kind, idxs in by_kind.items():
        model = common.run_model(kind, [sides[i][1] for i in idxs], shards=shards)
        for i, mo in zip(idxs, model):
            _, ops, obs = sides[i]
            if mo == obs:
                continue
            n = min(len(mo), len(obs))
            j = next((k for k in range(n) if mo[k] != obs[k]), n)
            a = obs[j] if j < len(obs) else None
            b = mo[j] if j < len(mo) else None
            ext = not (a is not None and b is not None and external_equal(kind, a, b))
            # an internal-only difference at op j may hide an external one later
            if not ext:
                for k in range(j, n):
                    if mo[k] != obs[k] and not external_equal(kind, obs[k], mo[k]):
                        j, a, b, ext = k, obs[k], mo[k], True
                        break
            diff = describe_diff(kind, ops[j] if j < len(ops) else [], a or [], b or [])
            out.append({"side": i, "kind": kind, "op_index": j, "diff": diff, "external": ext})
    return out
