"""Destination-handler properties C05, C06, C13: case generators and trace-level oracles that read
the property text directly on implementation traces (independent of the Coq model)."""
from __future__ import annotations

import random
import zlib

from harness import c09, campaign, codec, hcommon
from harness.hcommon import Failure, Trace
from harness.transfer import Cfg, World

ADMISSION_EXC = {2, 3, 5, 6, 8}
PROBES = [[2], [3], [4], [4, 1], [4, 2]]


def step_after_advancement(prev):
    """The step the destination handler is in after the advancement every busy call starts with."""
    f = prev["fields"]
    st = f["step"]
    if st == 5:     # SENDING_EOF_ACK_PDU
        if f["disposition"] != 1 and (prev["tracker"] or f["metadata_missing"]):
            return 2 if f["metadata_missing"] else 6
        return 7
    return st


class DestInterp:
    """Independent interpreter of what a destination handler must have stored (write model of C05)."""

    def __init__(self, tr: Trace):
        self.tree = {}          # path tuple -> bytes | None (dir)
        self.name = None        # resolved destination path of the running transaction
        self.stored = set()     # byte offsets written since the Metadata of the running transaction
        self.reject = False
        self.now = 0
        self.extent = 0         # largest end offset received so far in this transaction
        self.eof_size = None
        self.md_seen = False

    def parent_ok(self, p):
        return len(p) == 1 or (p[:-1] in self.tree and self.tree[p[:-1]] is None)

    def on_metadata(self, pdu):
        self.md_seen = True
        if pdu["dst_name"] is None:
            self.name = None
            return
        name = tuple(pdu["dst_name"])
        if name in self.tree and self.tree[name] is None and pdu["src_name"]:
            name = name + (pdu["src_name"][-1],)
        self.name = name
        self.stored = set()
        if name in self.tree:
            if self.tree[name] is not None:
                self.tree[name] = b""
        elif self.parent_ok(name):
            self.tree[name] = b""

    def on_fd(self, pdu):
        if self.name is None or self.reject:
            return False
        old = self.tree.get(self.name)
        if not isinstance(old, bytes):
            return False
        off, d = pdu["offset"], pdu["data"]
        if d:
            self.tree[self.name] = old[:off] + bytes(max(0, off - len(old))) + d + old[off + len(d):]
            self.stored |= set(range(off, off + len(d)))
        return True

    def new_transaction(self):
        self.name = None
        self.stored = set()
        self.extent = 0
        self.eof_size = None
        self.md_seen = False


def walk_dest(tr: Trace, on_step=None):
    """Drive DestInterp along a trace.  Yields nothing; calls on_step(st, interp, info) after each op where info has
    'accepted_fd', 'accepted_md', 'sa' (step after advancement), 'deleted'."""
    it = DestInterp(tr)
    for st in tr.steps:
        info = {"accepted_fd": False, "accepted_md": False, "sa": None, "deleted": False}
        f = st.ob["fields"]
        if st.tag == 7:
            comps, i = codec.take_path(st.op, 2)
            p = tuple(comps)
            if st.op[1] == 0:
                it.tree[p] = None
            elif st.op[1] == 1:
                it.tree[p] = bytes(st.op[i + 1:i + 1 + st.op[i]])
            else:
                for k in [k for k in it.tree if k[:len(p)] == p]:
                    del it.tree[k]
        elif st.tag == 5:
            it.now += st.op[1]
        elif st.tag == 6:
            it.reject = bool(st.op[1])
        elif st.tag in (0, 1, 3, 4):
            prev = st.prev
            was_idle = prev is None or prev["fields"]["state"] == 0
            if st.tag == 0 and st.ob["exc"] not in ADMISSION_EXC:
                pdu = st.pdu
                if was_idle:
                    if st.ob["exc"] in (0, 202, 201) or True:
                        if pdu["kind"] == codec.K_MD:
                            it.new_transaction()
                            it.tid = (pdu["src"], pdu["seq"])
                            it.on_metadata(pdu)
                            info["accepted_md"] = True
                        elif pdu["kind"] in (codec.K_FD, codec.K_EOF):
                            it.new_transaction()
                            it.tid = (pdu["src"], pdu["seq"])
                            if pdu["kind"] == codec.K_FD:
                                it.extent = max(it.extent, pdu["offset"] + len(pdu["data"]))
                            else:
                                it.eof_size = pdu["fsize"]
                elif prev["fields"]["qlen"] == 0:
                    sa = step_after_advancement(prev)
                    # leaving SENDING_EOF_ACK_PDU runs the deferred NAK procedure before the PDU is looked at; if that
                    # declares NAK Limit Reached and the handler cancels or abandons, the transaction is over and the
                    # PDU of this call is not processed any more
                    if prev["fields"]["step"] == 5 and any(e[0] in (11, 14) and e[3] == 7 for e in st.ob["events"]):
                        sa = 0
                    info["sa"] = sa
                    if pdu["kind"] == codec.K_FD:
                        it.extent = max(it.extent, pdu["offset"] + len(pdu["data"]))
                        if sa in (3, 4, 6) and st.ob["exc"] != 102:
                            info["accepted_fd"] = it.on_fd(pdu)
                    elif pdu["kind"] == codec.K_MD and sa == 2:
                        it.on_metadata(pdu)
                        info["accepted_md"] = True
                    elif pdu["kind"] == codec.K_EOF and sa in (2, 3, 4) and it.eof_size is None and pdu["cond"] == 0:
                        it.eof_size = pdu["fsize"]
            if st.tag == 3:
                # a cancel request stops the writing of the running transaction only if it names that transaction
                info["foreign_cancel_accepted"] = (not was_idle and st.ob["exc"] == 0 and st.ob["ret"] == 1
                                                   and getattr(it, "tid", None) is not None and (st.op[1], st.op[2]) != it.tid)
            # deletion of the destination file is visible through the Transaction-Finished indication
            for e in st.ob["events"]:
                if e[0] == 3 and e[5] == 0 and it.name is not None and isinstance(it.tree.get(it.name), bytes):
                    del it.tree[it.name]
                    info["deleted"] = True
            if f["state"] == 0 and not was_idle:
                pass
        if on_step:
            on_step(st, it, info)
    return it


# ------------------------------------------------------------------ C05
def oracle_c05(tr: Trace):
    if not tr.cfg["ind"][3]:
        return          # deletions are observed through the Transaction-Finished indication

    def check(st, it, info):
        if info.get("foreign_cancel_accepted"):
            raise Failure(f"C05 a cancel request naming transaction {(st.op[1], st.op[2])} stopped the running transaction "
                          f"{it.tid}: the File Data PDUs that follow are accepted but can no longer be stored (op {st.i})")
        if st.tag == 10:
            comps, _ = codec.take_path(st.op, 1)
            p = tuple(comps)
            ex = st.ob["extra"]
            got = None if ex[0] == 0 else ("dir" if ex[1] else bytes(ex[3:3 + ex[2]]))
            want = it.tree.get(p, "absent")
            want = None if want == "absent" else ("dir" if want is None else want)
            if got != want:
                role = "destination file" if p == it.name else "path other than the destination"
                raise Failure(f"C05 {role} n{'/n'.join(map(str, p))} holds {got!r}, the write model of the accepted File Data "
                              f"PDUs gives {want!r} (op {st.i})")
        if st.tag == 0 and st.pdu["kind"] == codec.K_FD and tr.cfg["ind"][2]:
            seg_ind = any(e[0] == 5 for e in st.ob["events"])
            if info["accepted_fd"] and not seg_ind:
                raise Failure(f"C05 stored File Data PDU without File-Segment-Recv indication (op {st.i})")
    walk_dest(tr, check)


class ProbedDest(campaign.HostileCase):
    """Hostile destination stream with file snapshots of the probe paths after every handler call."""

    def _run_dest(self, rng, w):
        cfg = self.cfg
        d = w.dst
        seg = cfg.max_seg or 4
        size = rng.choice(campaign.SIZES)
        seq = rng.randint(0, 3)
        d.fs_op([7, 1, 1, 3, 2, 5, 6])                  # a bystander file n3
        if rng.random() < 0.4:
            d.fs_op([7, 0, 1, 4])                       # directory n4
            if rng.random() < 0.5:
                d.fs_op([7, 1, 2, 4, 1, 1, 9])          # n4/n1 exists
        if rng.random() < 0.4:
            d.fs_op([7, 1, 1, 2, 20] + [9] * 20)        # destination file exists already, longer than anything sent
        for _ in range(self.length):
            r = rng.random()
            if r < 0.68:
                self._deliver(d, w, campaign.rand_pdu_for_dest(rng, cfg, seq, size, seg, self.hostile))
            elif r < 0.76:
                d.sm(None)
            elif r < 0.84:
                w.advance(rng.choice([100, 500, 1000, 1000]))
            elif r < 0.88:
                t = d.h.transaction_id
                if t is not None and rng.random() < 0.8:
                    d.cancel(t.source_id.value, t.seq_num.value)
                elif t is not None and rng.random() < 0.5:
                    d.cancel(t.source_id.value + 5, t.seq_num.value)      # another entity's transaction with the same number
                else:
                    d.cancel(cfg.src_id, seq + 1)
            elif r < 0.91:
                d.set_reject(rng.random() < 0.5)
            elif r < 0.92:
                d.reset()
            else:
                seq = rng.randint(0, 3); size = rng.choice(campaign.SIZES)
            if rng.random() < self.drain_p:
                while d.get() is not None:
                    pass
            for p in PROBES:
                d.snapshot_file(p)


def c05_case(rng):
    cfg = campaign.rand_cfg(rng, ind=(True, True, True, True))
    return ProbedDest("dest", cfg, rng.getrandbits(32), rng.randint(8, 40), hostile=rng.choice([0.0, 0.05, 0.2]),
                      drain_p=rng.choice([1.0, 1.0, 0.8]))


# ------------------------------------------------------------------ C06, two sending entities
class TwoSendersCase:
    """One receiver, two sending entities with different maximum packet lengths: a lossy transfer from the first (its
    deferred NAK sequence is issued, then the user resets the handler), then a lossy transfer from the second, whose NAK
    PDUs must be cut for ITS packet length."""

    def __init__(self, cfg: Cfg, tag="c06T"):
        self.cfg, self.tag = cfg, tag

    def describe(self):
        return {"two_senders": True, "max_packet": (self.cfg.max_packet, self.cfg.dst_alt_remote["max_packet"])}

    def run(self):
        cfg = self.cfg
        w = World(cfg, self.tag)
        try:
            d = w.dst

            def deliver(ints):
                d.sm(codec.reparse(codec.build_pdu(ints, w.pm)))
                while d.get() is not None:
                    pass

            def poll():
                d.sm(None)
                while d.get() is not None:
                    pass
            for src, seq, size, keep in ((cfg.src_id, 1, 12, (0, 2)), (cfg.dst_alt_remote["id"], 1, 40, tuple(range(0, 20, 2)))):
                h = campaign._hdr(cfg, 0, seq)
                h[4] = src
                data = bytes((3 * i + 1) % 256 for i in range(size))
                deliver(campaign.pdu_ints(codec.K_MD, h, [int(cfg.closure), cfg.cktype, size, 1, 1, 1, 1, 2, 0]))
                for k in keep:
                    deliver(campaign.pdu_ints(codec.K_FD, h, [2 * k, 2] + list(data[2 * k:2 * k + 2])))
                deliver(campaign.pdu_ints(codec.K_EOF, h, [0] + list(c09.expected(cfg.cktype, data)) + [size, 0, 0, 0]))
                poll(); poll()
                d.reset()
            self.sides = [("dest", d.ops, d.obs)]
            return self
        finally:
            w.close()


# ------------------------------------------------------------------ C06, large files
class LargeFileCase:
    """Acknowledged receiver of a file larger than 4 GiB (PDUs carry the large-file flag, offsets and sizes are 64 bit):
    two File Data PDUs far apart, the EOF, the deferred NAK sequence and one re-issue.  The destination file is sparse;
    nothing is ever verified (data stays missing).  The Coq model zero-fills gaps in a byte LIST, so these traces are judged
    by the oracle on the implementation only (not part of the correspondence)."""

    def __init__(self, cfg: Cfg, offs, tag="c06L"):
        self.cfg, self.offs, self.tag = cfg, offs, tag

    def describe(self):
        return {"large_file": True, "imm_nak": self.cfg.imm_nak, "max_packet": self.cfg.max_packet, "offsets": self.offs}

    def run(self):
        cfg = self.cfg
        w = World(cfg, self.tag)
        try:
            d = w.dst
            size = 2 ** 32 + 10 * 1024 + 100
            h = campaign._hdr(cfg, 0, 3)
            h[3] = 1

            def deliver(ints):
                d.sm(codec.reparse(codec.build_pdu(ints, w.pm)))
                while d.get() is not None:
                    pass
            deliver(campaign.pdu_ints(codec.K_MD, h, [int(cfg.closure), cfg.cktype, size, 1, 1, 1, 1, 2, 0]))
            for off in self.offs:
                deliver(campaign.pdu_ints(codec.K_FD, h, [off, 4, 1, 2, 3, 4]))
            deliver(campaign.pdu_ints(codec.K_EOF, h, [0, 0, 0, 0, 0, size, 0, 0, 0]))
            for _ in range(2):
                d.sm(None)
                while d.get() is not None:
                    pass
            w.advance(cfg.nak_ms)
            d.sm(None)
            while d.get() is not None:
                pass
            self.sides = [("dest", d.ops, d.obs)]
            return self
        finally:
            w.close()


def oracle_c06_large(tr: Trace):
    """Interval arithmetic instead of byte sets: every NAK PDU of a large-file transaction carries the large-file flag, fits
    max_packet_len, requests only bytes not yet received, and the deferred sequence requests exactly what is missing."""
    remote = tr.cfg["remotes"][0]
    got_ranges = []          # (start, end) received so far
    eof = None
    seq = []                 # requests of the NAKs retrieved since the last call
    last_missing = None

    def missing(upto):
        cur, out = 0, []
        for a, b in sorted(got_ranges):
            if a > cur:
                out.append((cur, min(a, upto)))
            cur = max(cur, b)
        if cur < upto:
            out.append((cur, upto))
        return [(a, b) for a, b in out if a < b]
    for st in tr.steps:
        if st.ob["exc"] >= 100 and st.tag in (0, 1):
            raise Failure(f"C06 large-file transaction: exception code {st.ob['exc']} out of state_machine (a NAK that cannot be "
                          f"encoded?) (op {st.i})")
        if st.tag in (0, 1):
            if seq and eof is not None and last_missing is not None and sorted(seq) != last_missing:
                raise Failure(f"C06 large file: deferred NAK sequence requests {sorted(seq)}, missing is {last_missing} (op {st.i})")
            seq = []
            if st.tag == 0 and st.pdu["kind"] == codec.K_FD:
                last_missing = None
                got_ranges.append((st.pdu["offset"], st.pdu["offset"] + len(st.pdu["data"])))
            elif st.tag == 0 and st.pdu["kind"] == codec.K_EOF:
                eof = st.pdu["fsize"]
                last_missing = None
            else:
                last_missing = missing(eof) if eof is not None else None
        if st.tag == 2 and st.ob["ret"] == 1:
            g, plen = codec.dec_got(st.ob["extra"])
            if g["kind"] != codec.K_NAK:
                continue
            if g["large"] != 1:
                raise Failure(f"C06 NAK PDU of a large-file transaction does not carry the large-file flag (op {st.i})")
            if plen > remote["max_packet"]:
                raise Failure(f"C06 NAK PDU of {plen} bytes ({len(g['reqs'])} 64-bit requests) exceeds max_packet_len "
                              f"{remote['max_packet']} (op {st.i})")
            for a, b in g["reqs"]:
                if not (0 <= a < b) or any(x < b and a < y for x, y in got_ranges):
                    raise Failure(f"C06 large file: request ({a},{b}) is empty or covers bytes already received (op {st.i})")
            if eof is not None:
                seq += g["reqs"]


# ------------------------------------------------------------------ C06
def max_seg_reqs(remote, hdrl, crc, large=False):
    base = hdrl + 1 + (2 if crc else 0) + (16 if large else 8)
    if remote["max_packet"] < base:
        return None
    return (remote["max_packet"] - base) // (16 if large else 8)


def oracle_c06(tr: Trace):
    """NAK contents against an independent record of what is stored; applies to acknowledged-mode traces."""
    if any(st.tag == 0 and st.pdu is not None and st.pdu.get("large") == 1 for st in tr.steps):
        return oracle_c06_large(tr)
    remote = tr.cfg["remotes"][0]
    pending = []            # NAK PDUs retrieved after the last call, with the call's info

    state = {"last_call": None}

    def check(st, it, info):
        if st.tag in (0, 1) and st.ob["exc"] == 1:
            return      # refused because PDUs were still queued: computes nothing
        if st.tag in (0, 1):
            # requests are judged against what was stored before the call that computed them
            fresh = st.prev is None or st.prev["fields"]["state"] == 0
            state["last_call"] = (st, set() if fresh else set(state.get("stored_prev", set())), it.extent, it.eof_size, it.now)
            state["stored_prev"] = set(it.stored)
            return
        if st.tag != 2 or st.ob["ret"] != 1 or state["last_call"] is None:
            return
        g, plen = codec.dec_got(st.ob["extra"])
        if g["kind"] != codec.K_NAK:
            return
        call, stored, extent, eof_size, now = state["last_call"]
        f = call.ob["fields"]
        mdm_before = call.prev["fields"]["metadata_missing"] if call.prev else 1
        mdm_after = f["metadata_missing"]
        known_extent = eof_size if eof_size is not None else extent
        if call.prev is not None and call.prev["fields"]["file_size_eof"] >= 0:
            known_extent = max(known_extent or 0, call.prev["fields"]["file_size_eof"])
        if f["file_size_eof"] >= 0:
            known_extent = max(known_extent or 0, f["file_size_eof"])
        for (a, b) in g["reqs"]:
            if (a, b) == (0, 0):
                if not (mdm_before or mdm_after):
                    raise Failure(f"C06 metadata request (0,0) in a NAK although metadata is not missing (op {st.i})")
                continue
            if not (0 <= a < b <= known_extent):
                raise Failure(f"C06 segment request ({a},{b}) outside the extent known so far [0,{known_extent}) (op {st.i})")
            hit = sorted(x for x in range(a, b) if x in stored)
            if hit:
                raise Failure(f"C06 segment request ({a},{b}) covers bytes already stored {hit[:6]} (op {st.i})")
        if not (g["sos"] <= min([a for a, b in g["reqs"]] or [0]) and max([b for a, b in g["reqs"]] or [0]) <= g["eos"]):
            raise Failure(f"C06 NAK scope ({g['sos']},{g['eos']}) does not enclose its requests {g['reqs']} (op {st.i})")
        hdrl = 4 + 2 * g["idw"] + g["seqw"]
        # the limits are those configured for the entity this transaction comes from
        remote_tx = next((r for r in tr.cfg["remotes"] if r["id"] == g["src"]), remote)
        m = max_seg_reqs(remote_tx, hdrl, g["crc"], g["large"])
        if remote_tx is not remote:
            if m is not None and m >= 1 and f["file_size_eof"] >= 0 and g["eos"] == f["file_size_eof"] and plen > remote_tx["max_packet"]:
                raise Failure(f"C06 NAK PDU of {plen} bytes ({len(g['reqs'])} requests) exceeds the max_packet_len "
                              f"{remote_tx['max_packet']} configured for entity {g['src']} (op {st.i})")
            return
        deferred_nak = f["deferred_active"] and f["file_size_eof"] >= 0 and g["eos"] == f["file_size_eof"] and g["sos"] == 0 \
            and f["proc_timer_start"] == now
        if deferred_nak and m is not None and m >= 1 and plen > remote["max_packet"]:
            raise Failure(f"C06 NAK PDU of {plen} bytes ({len(g['reqs'])} requests) exceeds max_packet_len {remote['max_packet']} (op {st.i})")
    walk_dest(tr, check)
    _deferred_exactness(tr)


def _deferred_exactness(tr: Trace):
    """After an EOF (no error): the NAK sequence of one deferred issue requests exactly [0, eof) minus stored."""
    calls = []      # (call step, stored, eof_size, naks[])
    cur = None

    def check(st, it, info):
        nonlocal cur
        if st.tag in (0, 1) and st.ob["exc"] == 1:
            return
        if st.tag in (0, 1):
            cur = {"st": st, "stored": set(it.stored), "eof": it.eof_size, "naks": [], "now": it.now, "md_seen": it.md_seen,
                   "stored_before": set(calls[-1]["stored"]) if calls and st.prev is not None and st.prev["fields"]["state"] == 1 else set()}
            calls.append(cur)
        elif st.tag == 2 and st.ob["ret"] == 1 and cur is not None:
            g, _ = codec.dec_got(st.ob["extra"])
            if g["kind"] == codec.K_NAK:
                cur["naks"].append(g)
    walk_dest(tr, check)
    for c in calls:
        st = c["st"]
        f = st.ob["fields"]
        if not c["naks"] or not f["deferred_active"] or f["file_size_eof"] < 0:
            continue
        eof = f["file_size_eof"]
        if any(n["eos"] != eof or n["sos"] != 0 for n in c["naks"]):
            continue        # immediate NAK(s) mixed in: judged by the per-request clauses only
        if st.pdu is not None and st.pdu["kind"] == codec.K_FD and st.prev is not None and step_after_advancement(st.prev) == 2:
            continue
        if f["proc_timer_start"] != c["now"]:
            continue
        reqs = [r for n in c["naks"] for r in n["reqs"]]
        md = [r for r in reqs if r == (0, 0)]
        rest = [r for r in reqs if r != (0, 0)]
        mdm_before = st.prev["fields"]["metadata_missing"] if st.prev else 1
        if f["metadata_missing"] and mdm_before and (not reqs or reqs[0] != (0, 0) or len(md) != 1):
            raise Failure(f"C06 deferred NAK sequence while metadata is missing does not start with exactly one (0,0): {reqs} (op {st.i})")
        if not f["metadata_missing"] and not mdm_before and md:
            raise Failure(f"C06 deferred NAK sequence contains (0,0) although metadata is present (op {st.i})")
        want = set(range(0, eof)) - c["stored"]
        want_before = set(range(0, eof)) - c.get("stored_before", c["stored"])
        got = set()
        for a, b in rest:
            got |= set(range(a, b))
        if got != want and got != want_before:
            raise Failure(f"C06 deferred NAK sequence requests {sorted(rest)} = bytes {sorted(got)[:12]}..., still missing of "
                          f"[0,{eof}) are {sorted(want)[:12]}... (op {st.i})")
        if any(rest[k][1] > rest[k + 1][0] for k in range(len(rest) - 1)) and rest == sorted(rest):
            raise Failure(f"C06 deferred NAK requests overlap: {rest} (op {st.i})")
    # nothing missing after EOF -> no NAK, completion
    for k, c in enumerate(calls):
        st = c["st"]
        if st.prev is None or st.prev["fields"]["step"] != 5 or st.prev["fields"]["qlen"] != 0:
            continue
        eof = st.prev["fields"]["file_size_eof"]
        if eof < 0 or st.prev["fields"]["metadata_missing"] or st.ob["exc"]:
            continue
        pre_stored = calls[k - 1]["stored"] if k > 0 else set()
        if set(range(eof)) <= pre_stored and st.prev["fields"]["fin_cond"] == 0 and st.prev["fields"]["disposition"] == 0:
            if c["naks"]:
                raise Failure(f"C06 NAK sent although nothing is missing (op {st.i})")
            if st.ob["fields"]["step"] in (2, 6):
                raise Failure(f"C06 nothing missing after EOF but the handler waits for missing data (op {st.i})")


class GridDest(campaign.HostileCase):
    """Acknowledged-mode destination fed with the grid segments of one file in any order, with losses and duplicates,
    Metadata and EOF at any position, timer expiries in between."""

    def _run_dest(self, rng, w):
        cfg = self.cfg
        d = w.dst
        seg = cfg.max_seg or 4
        size = rng.choice([0, 1, 4, 5, 8, 9, 12, 13, 16])
        data = bytes((7 * i + 3) % 256 for i in range(size))
        nseg = (size + seg - 1) // seg
        seq = rng.randint(0, 9)
        h = campaign._hdr(cfg, 0, seq)
        items = [("fd", k) for k in range(nseg)]
        # losses and duplicates
        items = [x for x in items if rng.random() > 0.25] + [x for x in items if rng.random() < 0.15]
        rng.shuffle(items) if rng.random() < 0.5 else None
        md = ("md",)
        eof = ("eof",)
        pos = rng.randint(0, len(items)) if rng.random() < 0.35 else 0
        if rng.random() > 0.12:
            items.insert(pos, md)
        items.insert(rng.randint(max(0, len(items) - 2), len(items)) if rng.random() < 0.7 else rng.randint(0, len(items)), eof)
        later = [("fd", k) for k in range(nseg)] + [md]
        rng.shuffle(later)
        items += [("tick",)] * rng.randint(0, 2) + later[:rng.randint(0, len(later))] + [("tick",)] * rng.randint(0, 3)
        items += later
        ck = c09.expected(cfg.cktype, data)
        for it in items:
            if it[0] == "fd":
                k = it[1]
                off, ln = k * seg, min(seg, size - k * seg)
                ints = campaign.pdu_ints(codec.K_FD, h, [off, ln] + list(data[off:off + ln]))
            elif it[0] == "md":
                ints = campaign.pdu_ints(codec.K_MD, h, [int(campaign.eff_closure(cfg)), cfg.cktype, size, 1, 1, 1, 1, 2, 0])
            elif it[0] == "eof":
                ints = campaign.pdu_ints(codec.K_EOF, h, [0] + list(ck) + [size, 0, 0, 0])
            else:
                w.advance(rng.choice([cfg.nak_ms, cfg.nak_ms, cfg.nak_ms // 2]))
                d.sm(None)
                while d.get() is not None:
                    pass
                continue
            self._deliver(d, w, ints)
            while d.get() is not None:
                pass
            if rng.random() < 0.3:
                d.sm(None)
                while d.get() is not None:
                    pass
            if d.h.state.value == 0 and rng.random() < 0.7:
                break


def c06_case(rng, small_packets=False):
    cfg = campaign.rand_cfg(rng, mode=0, req_mode=None, cktype=rng.choice([3, 3, 2, 15]), max_seg=rng.choice([1, 2, 4, 4]),
                            nak_limit=rng.choice([2, 3, 5]), ack_limit=3)
    hdr = 4 + 2 * max(cfg.src_idw, cfg.dst_idw) + cfg.seqw
    base = hdr + 1 + 8 + (2 if cfg.crc else 0)
    cfg.max_packet = base + 8 * rng.choice([1, 1, 2, 3, 10]) + rng.choice([0, 3])
    return GridDest("dest", cfg, rng.getrandbits(32), 0, hostile=0.0, drain_p=1.0)


# ------------------------------------------------------------------ C13
class LateDataCase:
    """Unacknowledged transfer whose EOF overtakes a subset of the File Data PDUs; the late data arrive at chosen
    slots relative to the check-timer expiries."""

    def __init__(self, cfg: Cfg, nseg, late, slots, tail=0, coincide=()):
        self.cfg, self.nseg, self.late, self.slots, self.tail = cfg, nseg, sorted(late), slots, tail
        # late segments (by index) that arrive IN the state-machine call that sees their slot's expiry (slot >= 1),
        # instead of after that expiry has been processed by a call without a PDU
        self.coincide = set(coincide)

    def describe(self):
        return {"nseg": self.nseg, "late": self.late, "slots": self.slots, "check_limit": self.cfg.check_limit,
                "coincide": sorted(self.coincide),
                "closure": self.cfg.closure, "cktype": self.cfg.cktype, "seg": self.cfg.max_seg}

    def run(self):
        cfg = self.cfg
        w = World(cfg, "c13")
        try:
            d = w.dst
            seg = cfg.max_seg
            size = self.nseg * seg - self.tail
            data = bytes((13 * i + 1) % 256 for i in range(size))
            self.data = data
            h = campaign._hdr(cfg, 0, 5)

            def deliver(ints):
                d.sm(codec.reparse(codec.build_pdu(ints, w.pm)))
                while d.get() is not None:
                    pass

            def fd(k):
                off, ln = k * seg, min(seg, size - k * seg)
                return campaign.pdu_ints(codec.K_FD, h, [off, ln] + list(data[off:off + ln]))
            deliver(campaign.pdu_ints(codec.K_MD, h, [int(cfg.closure), cfg.cktype, size, 1, 1, 1, 1, 2, 0]))
            for k in range(self.nseg):
                if k not in self.late:
                    deliver(fd(k))
            deliver(campaign.pdu_ints(codec.K_EOF, h, [0] + list(c09.expected(cfg.cktype, data)) + [size, 0, 0, 0]))
            # slots[i] = number of expiries that pass before late segment i arrives
            arrivals = sorted((s, k) for s, k in zip(self.slots, self.late) if not (k in self.coincide and s >= 1))
            with_expiry = sorted((s, k) for s, k in zip(self.slots, self.late) if k in self.coincide and s >= 1)
            expiries = 0
            idx = 0
            while expiries <= cfg.check_limit + 1 and d.h.state.value == 1:
                while idx < len(arrivals) and arrivals[idx][0] <= expiries and d.h.state.value == 1:
                    deliver(fd(arrivals[idx][1]))
                    idx += 1
                if d.h.state.value != 1:
                    break
                w.advance(cfg.check_ms)
                now = [k for s, k in with_expiry if s == expiries + 1]
                if now:
                    for k in now:
                        if d.h.state.value == 1:
                            deliver(fd(k))
                else:
                    d.sm(None)
                    while d.get() is not None:
                        pass
                expiries += 1
            d.snapshot_file([2])
            self.sides = [("dest", d.ops, d.obs)]
            return self
        finally:
            w.close()


def oracle_c13(tr: Trace):
    """Reads the trace of a LateDataCase-like run: no completion at an early EOF; success at the first expiry after the
    data is complete; otherwise Check Limit Reached exactly at the limit-th expiry, incomplete."""
    remote = tr.cfg["remotes"][0]
    L = remote["check_limit"]
    eof_seen = None
    expired = 0
    done = False
    pending_tick = False

    def check(st, it, info):
        nonlocal eof_seen, expired, done, pending_tick
        if done:
            return
        f = st.ob["fields"]
        if st.tag == 5:
            if eof_seen is not None and st.op[1] >= remote_check_ms(tr):
                pending_tick = True
            return
        if st.tag not in (0, 1):
            return
        fin = [e for e in st.ob["events"] if e[0] == 3]
        faults = [e for e in st.ob["events"] if 10 < e[0] < 20]
        if eof_seen is None:
            if st.tag == 0 and st.pdu["kind"] == codec.K_EOF and st.pdu["cond"] == 0 and st.ob["exc"] == 0 \
                    and st.prev is not None and st.prev["fields"]["step"] == 3:
                complete = it.name is not None and it.tree.get(it.name) is not None and \
                    set(range(st.pdu["fsize"])) <= it.stored
                if not complete:
                    eof_seen = st.pdu
                    if fin:
                        raise Failure(f"C13 transaction finished at once although the EOF overtook file data (op {st.i})")
                    if f["step"] != 4:
                        raise Failure(f"C13 EOF before all data did not start the check-limit handling (step {f['step']}, op {st.i})")
                else:
                    done = True
            return
        complete = it.name is not None and isinstance(it.tree.get(it.name), bytes) and \
            set(range(eof_seen["fsize"])) <= it.stored
        if pending_tick:
            pending_tick = False
            if complete:
                if not fin or (fin[0][3], fin[0][4]) != (0, 0):
                    raise Failure(f"C13 late data complete, but the expiry did not finish the transfer successfully: {fin} (op {st.i})")
                done = True
                return
            expired += 1
            if expired < L:
                if fin or any(e[3] == 10 for e in faults):
                    raise Failure(f"C13 check-timer expiry {expired} of {L}: transaction ended / Check Limit declared too early (op {st.i})")
            else:
                if not any(e[3] == 10 for e in faults):
                    raise Failure(f"C13 Check Limit Reached not declared at expiry {expired} = limit {L} (op {st.i})")
                if not fin or fin[0][4] != 1:
                    raise Failure(f"C13 check limit reached but completion does not report incomplete data: {fin} (op {st.i})")
                done = True
        else:
            if fin and not complete:
                raise Failure(f"C13 transaction finished without a check-timer expiry and without complete data (op {st.i})")
            if any(e[3] == 10 for e in faults):
                raise Failure(f"C13 Check Limit Reached declared without a timer expiry (op {st.i})")
            if fin:
                done = True
    walk_dest(tr, check)


def remote_check_ms(tr):
    return tr.cfg["check_ms"]


def c13_cases(tier, rng):
    import itertools
    quick = tier == "quick"
    for L in ((1, 2, 3) if quick else (1, 2, 3, 4, 5)):
        for closure in (False, True):
            for nseg in ((1, 2, 3) if quick else (1, 2, 3, 4)):
                for mask in range(1, 2 ** nseg):
                    late = [k for k in range(nseg) if mask >> k & 1]
                    slot_choices = range(0, L + 2)
                    combos = list(itertools.product(slot_choices, repeat=len(late)))
                    if quick and len(combos) > 6:
                        combos = rng.sample(combos, 6)
                    for slots in combos:
                        # which of the late segments arrive in the very call that sees the expiry
                        can = [k for k, s in zip(late, slots) if s >= 1]
                        subsets = [()]
                        if can:
                            if quick:
                                subsets.append(tuple(can) if rng.random() < 0.5 else (rng.choice(can),))
                            else:
                                subsets = [c for n in range(len(can) + 1) for c in itertools.combinations(can, n)]
                        for co in subsets:
                            cfg = Cfg(mode=1, closure=closure, check_limit=L, max_seg=rng.choice([1, 2, 4]), cktype=rng.choice([2, 3]),
                                      check_ms=rng.choice([1000, 500]), disposition=rng.random() < 0.3)
                            yield LateDataCase(cfg, nseg, late, list(slots), tail=rng.choice([0, 1]) if cfg.max_seg > 1 else 0,
                                               coincide=co)


# ------------------------------------------------------------------ C13, sender clause
class SenderClosureCase:
    """Unacknowledged put with closure on a sender whose receiver stays silent (or answers late): one or more
    transactions on the SAME handler, idle gaps between them, the clock advanced in steps smaller than the check interval."""

    def __init__(self, cfg: Cfg, txs, tag="c13s"):
        self.cfg, self.txs, self.tag = cfg, list(txs), tag       # txs: (size, finished_after_ms | None, gap_ms)

    def describe(self):
        return {"check_ms": self.cfg.check_ms, "seg": self.cfg.max_seg, "txs": self.txs}

    def run(self):
        from harness.transfer import start_transfer
        cfg = self.cfg
        w = World(cfg, self.tag)
        try:
            s = w.src
            tick = max(1, cfg.check_ms // 4)
            for size, fin_after, gap in self.txs:
                data = bytes((7 * i + 3) % 256 for i in range(size))
                start_transfer(w, data)
                waited = None
                for _ in range(200):
                    s.sm(None)
                    got = []
                    while True:
                        h = s.get()
                        if h is None:
                            break
                        got.append(h)
                    if s.h.state.value == 0:
                        break
                    if waited is None and any(codec.enc_pdu(p.pdu if hasattr(p, "pdu") else p, w.pm)[0] == codec.K_EOF for p in got):
                        waited = 0
                    elif waited is not None:
                        if fin_after is not None and waited >= fin_after:
                            t = s.h.transaction_id
                            hdr = [1, 1, int(cfg.crc), 0, cfg.src_id, cfg.dst_id, max(cfg.src_idw, cfg.dst_idw), t.seq_num.value, cfg.seqw]
                            s.sm(codec.reparse(codec.build_pdu(campaign.pdu_ints(codec.K_FIN, hdr, [0, 0, 2, 0, 0, 0]), w.pm)))
                            while s.get() is not None:
                                pass
                            continue
                        w.advance(tick)
                        waited += tick
                if s.h.state.value != 0:
                    break
                w.advance(gap)
            self.sides = [("source", s.ops, s.obs)]
            return self
        finally:
            w.close()


def oracle_c13_sender(tr: Trace):
    """Sender clause of C13 on source traces: after the EOF of an unacknowledged transaction with closure, Check Limit Reached
    is declared at the first call made when the configured check interval has passed without a Finished PDU, not before."""
    if tr.kind != "source":
        return
    check_ms = tr.cfg["check_ms"]
    now = 0
    eof_at = None          # time at which the EOF (no error) of the running transaction was produced
    for k, st in enumerate(tr.steps):
        if st.tag == 5:
            now += st.op[1]
            continue
        if st.tag == 8 and st.ob["ret"] == 1:
            eof_at = None
            continue
        if st.tag not in (0, 1) or st.prev is None or st.prev["fields"]["state"] != 1:
            continue
        if st.ob["exc"]:
            continue
        faults = [e for e in st.ob["events"] if 11 <= e[0] <= 14 and e[3] == 10]
        got = []
        j = k + 1
        while j < len(tr.steps) and tr.steps[j].tag == 2:
            if tr.steps[j].ob["ret"] == 1:
                got.append(codec.dec_got(tr.steps[j].ob["extra"])[0])
            j += 1
        if any(g["kind"] == codec.K_EOF and g["cond"] == 0 and g["mode"] == 1 for g in got):
            eof_at = now
            if faults:
                raise Failure(f"C13 sender declared Check Limit Reached in the call that produced its EOF (op {st.i})")
            continue
        if eof_at is None:
            continue
        if st.tag == 0 and st.pdu["kind"] == codec.K_FIN:
            eof_at = None
            continue
        expired = now - eof_at >= check_ms
        if faults and not expired:
            raise Failure(f"C13 sender declared Check Limit Reached {now - eof_at} ms after its EOF, before the check interval of "
                          f"{check_ms} ms had passed (op {st.i})")
        if expired and not faults and st.prev["fields"]["step"] == 8:
            raise Failure(f"C13 sender did not declare Check Limit Reached although {now - eof_at} ms >= {check_ms} ms passed "
                          f"without a Finished PDU (op {st.i})")
        if faults:
            eof_at = None


def c13_sender_cases(tier, rng):
    quick = tier == "quick"
    for _ in range(40 if quick else 1500):
        cfg = Cfg(mode=1, closure=True, max_seg=rng.choice([2, 4]), check_ms=rng.choice([1000, 2000, 400]), cktype=rng.choice([2, 3, 15]),
                  check_limit=rng.choice([1, 2, 3]))
        n = rng.choice([1, 2, 2, 3])
        txs = []
        for _ in range(n):
            fin = rng.choice([None, None, 0, cfg.check_ms // 2, cfg.check_ms - 1])
            txs.append((rng.choice([0, 3, 5, 9]), fin, rng.choice([0, cfg.check_ms // 2, cfg.check_ms, 3 * cfg.check_ms, 20000])))
        yield SenderClosureCase(cfg, txs)


# ------------------------------------------------------------------ C13 / C01: a prefix whose CRC collides with the whole file
def colliding_tail(cktype, prefix: bytes) -> bytes:
    """4 bytes T such that checksum(prefix + T) == checksum(prefix) for the CRC types (CRC is affine over GF(2) in T)."""
    def crc(b):
        return int.from_bytes(c09.expected(cktype, b), "big")
    target = crc(prefix)
    base = crc(prefix + bytes(4))
    cols = []
    for bit in range(32):
        t = (1 << bit).to_bytes(4, "big")
        cols.append(crc(prefix + t) ^ base)
    # solve  XOR_{bit in S} cols[bit] = target ^ base  by Gaussian elimination over GF(2)
    want = target ^ base
    pivots = {}                    # highest set bit -> (vector, mask of the unknowns combined into it)
    for b in range(32):
        v, m = cols[b], 1 << b
        while v:
            hb = v.bit_length() - 1
            if hb in pivots:
                pv, pm = pivots[hb]
                v ^= pv; m ^= pm
            else:
                pivots[hb] = (v, m)
                break
    sol = 0
    while want:
        hb = want.bit_length() - 1
        assert hb in pivots
        pv, pm = pivots[hb]
        want ^= pv; sol ^= pm
    t = sol.to_bytes(4, "big")
    assert crc(prefix + t) == target
    return t


class CollidingPrefixCase(LateDataCase):
    """Unacknowledged transfer of a file whose first part has the same CRC as the whole file; the EOF overtakes the rest."""

    def __init__(self, cfg: Cfg, prefix: bytes, slot):
        super().__init__(cfg, 2, [1], [slot], tail=0)
        self.prefix = prefix

    def run(self):
        cfg = self.cfg
        w = World(cfg, "c13c")
        try:
            d = w.dst
            seg = cfg.max_seg
            data = self.prefix + colliding_tail(cfg.cktype, self.prefix)
            size = len(data)
            self.data = data
            h = campaign._hdr(cfg, 0, 5)

            def deliver(ints):
                d.sm(codec.reparse(codec.build_pdu(ints, w.pm)))
                while d.get() is not None:
                    pass
            deliver(campaign.pdu_ints(codec.K_MD, h, [int(cfg.closure), cfg.cktype, size, 1, 1, 1, 1, 2, 0]))
            deliver(campaign.pdu_ints(codec.K_FD, h, [0, seg] + list(data[:seg])))
            deliver(campaign.pdu_ints(codec.K_EOF, h, [0] + list(c09.expected(cfg.cktype, data)) + [size, 0, 0, 0]))
            expiries = 0
            late_sent = False
            while expiries <= cfg.check_limit + 1 and d.h.state.value == 1:
                if not late_sent and expiries >= self.slots[0]:
                    deliver(campaign.pdu_ints(codec.K_FD, h, [seg, size - seg] + list(data[seg:])))
                    late_sent = True
                    if d.h.state.value != 1:
                        break
                w.advance(cfg.check_ms)
                d.sm(None)
                while d.get() is not None:
                    pass
                expiries += 1
            d.snapshot_file([2])
            self.sides = [("dest", d.ops, d.obs)]
            return self
        finally:
            w.close()


def c13_collision_cases(tier, rng):
    for ck in (2, 3):
        for L in (1, 2, 3):
            for slot in range(0, L + 2):
                for closure in (False, True):
                    cfg = Cfg(mode=1, closure=closure, check_limit=L, max_seg=4, cktype=ck, check_ms=1000)
                    yield CollidingPrefixCase(cfg, bytes(rng.getrandbits(8) for _ in range(4)), slot)
