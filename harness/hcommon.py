"""Shared runner for the handler-level property checks (C01-C08, C10-C16, C19, C20).

A check = proof gate (Coq build + Print Assumptions of props/Cxx.v) + correspondence of the recorded
implementation traces with the extracted model (projected on the property's observables) + the
property's own oracle on the implementation traces + corpus replay.  See DESIGN.md 2, 4, 5.
"""
from __future__ import annotations

import json
import os
import random
import time

from harness import codec, common, replay, transfer


class Step:
    __slots__ = ("i", "op", "tag", "pdu", "ob", "prev", "raw")

    def __init__(self, i, op, ob, prev, kind):
        self.i, self.op, self.tag = i, op, op[0]
        self.pdu = codec.dec_pdu(op[1:]) if op[0] == 0 else None
        self.ob = ob
        self.prev = prev


class Trace:
    """Decoded view of one handler trace."""

    def __init__(self, kind, ops, obs):
        self.kind, self.ops, self.obs = kind, ops, obs
        self.cfg = codec.dec_lcfg(ops[0][1:])
        self.steps = []
        prev = None
        for i in range(1, min(len(ops), len(obs))):
            ob = replay.split_obs(kind, obs[i])
            self.steps.append(Step(i, ops[i], ob, prev, kind))
            prev = ob

    def emitted(self):
        """[(step index, pdu dict, packed_len)] for every PDU retrieved"""
        out = []
        for st in self.steps:
            if st.tag == 2 and st.ob["ret"] == 1:
                g = codec.dec_got(st.ob["extra"])
                out.append((st.i, g[0], g[1]))
        return out

    def events(self):
        return [(st.i, e) for st in self.steps for e in st.ob["events"]]


class Failure(Exception):
    pass


def shrink_ops(kind, ops, still_fails, budget=60):
    """Delta-debug an op list (config op kept) while `still_fails(ops)` holds."""
    best = list(ops)
    n = 2
    t0 = time.time()
    while len(best) > 2 and time.time() - t0 < budget:
        chunk = max(1, (len(best) - 1) // n)
        reduced = False
        i = 1
        while i < len(best):
            cand = best[:i] + best[i + chunk:]
            if len(cand) >= 2:
                try:
                    if still_fails(cand):
                        best = cand
                        reduced = True
                        continue
                except Exception:  # noqa: BLE001
                    pass
            i += chunk
        if not reduced:
            if chunk == 1:
                break
            n *= 2
    return best


def oracle_on_ops(kind, ops, oracle):
    """Replay ops on a fresh implementation handler and evaluate a trace oracle.  Returns failure text or None."""
    try:
        obs, _ = transfer.replay_ops(kind, ops)
    except ValueError:
        return None
    try:
        oracle(Trace(kind, ops, obs))
    except Failure as f:
        return str(f)
    return None


WORKERS, WORKER, share = common.WORKERS, common.WORKER, common.share


class HandlerCheck:
    """Driver used by each property module."""

    def __init__(self, prop, tier, seed):
        self.prop, self.tier, self.seed = prop, tier, seed
        self.v = common.Verdict(prop, tier, seed)
        self.rng = random.Random(seed)
        self.sides = []          # (kind, ops, obs, label)
        self.n_cases = 0
        self.signatures = set()
        self.dist = {}
        self.samples = []
        self.known = common.load_known_findings(prop)
        self.judged = 0

    def gate(self, extra_props=()):
        common.proof_gate(self.v, self.prop, extra_props)

    def count(self, key, n=1):
        self.dist[key] = self.dist.get(key, 0) + n

    def add_trace(self, kind, ops, obs, label="", oracle=None, describe=None):
        """Register an implementation trace; run the oracle on it; remember it for the correspondence."""
        self.n_cases += 1
        # not expressible in the model: a creation-rejecting filestore; files beyond 4 GiB (the model zero-fills gaps in a list)
        if not any(o[:2] == [6, 2] or (o[0] == 0 and len(o) > 5 and o[5] == 1) for o in ops):
            self.sides.append((kind, ops, obs, label))
        tr = None
        if oracle is not None:
            try:
                tr = Trace(kind, ops, obs)
                oracle(tr)
                self.judged += 1
            except Failure as f:
                self._oracle_failure(kind, ops, str(f), oracle, label, describe)
        sig = signature(kind, ops, obs)
        self.signatures.add(sig)
        if len(self.samples) < 3 and len(ops) > 3:
            self.samples.append({"kind": kind, "label": label, "ops": [o[:24] for o in ops[:14]]})

    def _oracle_failure(self, kind, ops, text, oracle, label, describe):
        for kf in self.known:
            if kf.get("signature") and kf["signature"] in text:
                self.v.known(kf)
                return
        small = ops
        if len(self.v.violations) < 2:
            try:
                key = text[:14]
                small = shrink_ops(kind, ops, lambda c: (oracle_on_ops(kind, c, oracle) or "")[:14] == key, budget=25)
                text2 = oracle_on_ops(kind, small, oracle)
                if text2:
                    text = text2
            except Exception:  # noqa: BLE001
                small = ops
        self.v.violation(f"oracle: {text}", {"kind": kind, "ops": small, "label": label,
                                             "case": describe() if describe else None})

    def world_violation(self, text, case_desc, sides=None):
        for kf in self.known:
            if kf.get("signature") and kf["signature"] in text:
                self.v.known(kf)
                return
        self.v.violation(f"oracle: {text}", {"case": case_desc,
                                             "sides": [{"kind": k, "ops": o} for k, o, *_ in (sides or [])][:2]})

    def run_corpus(self, oracle_for_kind):
        cdir = common.CORPUS / self.prop
        n = 0
        if cdir.exists():
            for f in sorted(cdir.glob("*.json")):
                d = json.loads(f.read_text())
                if "ops" not in d:
                    continue
                kind = d["kind"]
                try:
                    obs, _ = transfer.replay_ops(kind, d["ops"])
                except ValueError:
                    continue
                self.add_trace(kind, d["ops"], obs, label=f"corpus:{f.name}", oracle=oracle_for_kind(kind))
                n += 1
        return n

    def correspondence(self, project=None, theorem=""):
        """Compare every registered trace with the model.  `project(kind, obsdict) -> comparable` narrows the
        verdict to the property's observables; other differences are internal divergences (recorded only)."""
        diffs_ext = 0
        diffs_int = 0
        by_kind = {}
        for i, (kind, ops, obs, label) in enumerate(self.sides):
            by_kind.setdefault(kind, []).append(i)
        for kind, idxs in by_kind.items():
            model = common.run_model(kind, [self.sides[i][1] for i in idxs])
            for i, mo in zip(idxs, model):
                _, ops, obs, label = self.sides[i]
                if mo == obs:
                    continue
                j, ext = first_projected_diff(kind, obs, mo, project)
                if j is None:
                    diffs_int += 1
                    continue
                diffs_ext += 1
                if diffs_ext <= 2:
                    a = obs[j] if j < len(obs) else []
                    b = mo[j] if j < len(mo) else []
                    self.v.violation(
                        f"correspondence: implementation and Coq model ({'Dest.v' if kind == 'dest' else 'Source.v'}) differ on an "
                        f"observable of {self.prop}; the theorems of {self.prop} are no longer shown to apply to the code",
                        {"kind": kind, "ops": ops[:j + 1], "label": label, "op_index": j,
                         "diff": replay.describe_diff(kind, ops[j] if j < len(ops) else [], a, b),
                         "theorem": theorem or f"props/{self.prop}.v (correspondence {kind})"}, has_input=False)
        self.v.coverage["internal_divergences"] = diffs_int
        self.v.coverage["projected_differences"] = diffs_ext
        return diffs_ext

    def finish(self, rule, extra=None):
        v = self.v
        if getattr(v, "proof_error", None) and not v.violations:
            v.violation(v.proof_error, {"theorem": f"props/{self.prop}.v", "error": v.proof_error}, has_input=False)
        nops = sum(len(s[1]) for s in self.sides)
        v.coverage.update({
            "evaluations": self.n_cases, "distinct_nontrivial": len(self.signatures), "rule": rule,
            "traces_validated_against_impl": len(self.sides), "ops_total": nops, "oracle_judged": self.judged,
            "distribution": {str(k): n for k, n in sorted(self.dist.items(), key=lambda kv: str(kv[0]))},
            "samples": self.samples or [{"note": "no long trace in this run"}],
        })
        if extra:
            v.coverage.update(extra)
        v.coverage["signature_hashes"] = sorted(self.signatures)[:200000] if WORKERS > 1 else None
        return v.finish()


def signature(kind, ops, obs):
    """Distinctness: (handler kind, configuration class, set of (step, op tag / pdu kind, exception) visited)."""
    cfg = tuple(ops[0][:8])
    vis = set()
    names = replay.field_names(kind)
    si = names.index("step")
    for op, ob in zip(ops[1:], obs[1:]):
        if not ob:
            continue
        tag = (op[0], op[1]) if op[0] == 0 else (op[0],)
        vis.add((ob[si], tag, ob[0]))
    return hash((kind, cfg, frozenset(vis)))


def first_projected_diff(kind, obs, mo, project):
    n = min(len(obs), len(mo))
    for k in range(n):
        if obs[k] == mo[k]:
            continue
        if project is None:
            if not replay.external_equal(kind, obs[k], mo[k]):
                return k, True
            continue
        try:
            a = project(kind, replay.split_obs(kind, obs[k]))
            b = project(kind, replay.split_obs(kind, mo[k]))
        except Exception:  # noqa: BLE001
            return k, True
        if a != b:
            return k, True
    if len(obs) != len(mo):
        return n, True
    return None, False


# ------------------------------------------------------------------ projections
def proj_pdus_exc(kind, d):
    return (d["exc"], d["ret"], tuple(d["extra"]))


def proj_all_external(kind, d):
    f = {k: v for k, v in d["fields"].items() if k not in replay.INTERNAL_ONLY}
    return (d["exc"], d["ret"], tuple(sorted(f.items())), tuple(d["tracker"]), tuple(d["events"]), tuple(d["extra"]))


def proj_events_pdus(kind, d):
    return (d["exc"], d["ret"], tuple(d["events"]), tuple(d["extra"]), d["fields"].get("state"), d["fields"].get("step"))


def proj_exc_state(kind, d):
    return (d["exc"], d["ret"], d["fields"].get("state"), d["fields"].get("step"), d["fields"].get("qlen"),
            d["fields"].get("progress"), tuple(d["extra"]))
